#!/usr/bin/env python3-vt
"""Validate MANIFEST.json and every evidence file against the harness schemas."""
import json, jsonschema, glob, sys
ok = True
m = json.load(open('/verif/MANIFEST.json'))
jsonschema.validate(m, json.load(open('/root/.vp/MANIFEST.schema.json')))
es = json.load(open('/root/.vp/EVIDENCE.schema.json'))
claimed = {c['property_id'] for c in m['checks']}
na = {c['property_id'] for c in m.get('not_applicable', [])}
props = [json.loads(l)['id'] for l in open('/verif/properties.jsonl')]
for p in props:
    if p not in claimed and p not in na: print('UNLISTED', p)
for c in m['checks']:
    try:
        e = json.load(open('/verif/' + c['evidence_file']))
        jsonschema.validate(e, es)
        assert e['level'] == c['level_claimed']['category'], (e['level'], c['level_claimed']['category'])
        cov = e['coverage']
        print(c['property_id'], e['level'], 'evals', cov.get('evaluations'), 'distinct', cov.get('distinct_nontrivial'), 'viol', e.get('violations'), 'wall', e['wall_s'])
    except Exception as ex:
        ok = False; print('INVALID', c['property_id'], repr(ex)[:300])
print('manifest+evidence valid' if ok else 'PROBLEMS')
