#!/bin/bash
# usage: tools/mutant.sh "<checks e.g. C18 C01>" <file-relative-to-repo> '<perl -0pi expr>' [more file/expr pairs...]
# Creates a scratch worktree of /repo under /tmp, applies the edit(s), runs the given checks against it
# (LDPCV_REPO), prints their exit codes, and removes the worktree.
set -u
checks="$1"; shift
W=$(mktemp -d /tmp/ldpcv-mut-XXXX)
git -C /repo worktree add -q --detach "$W" HEAD >/dev/null 2>&1 || { echo "worktree failed"; exit 9; }
# carry uncommitted changes of /repo too (checks analyse the working tree)
git -C /repo diff | (cd "$W" && git apply 2>/dev/null)
while [ $# -ge 2 ]; do
  f="$1"; e="$2"; shift 2
  before=$(sha1sum "$W/$f" | cut -d' ' -f1)
  perl -0pi -e "$e" "$W/$f"
  after=$(sha1sum "$W/$f" | cut -d' ' -f1)
  [ "$before" = "$after" ] && echo "WARNING: edit did not change $f"
done
(cd "$W" && git diff --stat | tail -1)
for c in $checks; do
  out=$(cd /verif && LDPCV_REPO="$W" ./check "$c" 2>&1); rc=$?
  echo "--- $c exit=$rc"
  echo "$out" | grep -E "VIOLATION|violated|ANALYSIS-ERROR|KNOWN-FINDING" | head -8
done
git -C /repo worktree remove --force "$W"
