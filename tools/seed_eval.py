#!/usr/bin/env python3
"""Confirm a seeded change produced in /tmp/seed/<pid> and record it under /verif/seeded/<id>/.

  tools/seed_eval.py <pid> [<seed-id>] [--checks "C01 C03"]

Steps (all in the scratch worktree, never in /repo): save the src diff; run the existing suite with the change (must pass);
run the demo with the change (must fail) and without it (must pass); run the given checks (default: all) with LDPCV_REPO
pointing at the worktree and record which ones report a violation."""
import json, os, subprocess, sys, shutil, time

def sh(cmd, cwd=None, timeout=1800):
    r = subprocess.run(cmd, shell=True, cwd=cwd, stdout=subprocess.PIPE, stderr=subprocess.STDOUT, text=True, timeout=timeout)
    return r.returncode, r.stdout

pid = sys.argv[1]
sid = sys.argv[2] if len(sys.argv) > 2 and not sys.argv[2].startswith("--") else pid + "-a"
checks = None
if "--checks" in sys.argv:
    checks = sys.argv[sys.argv.index("--checks") + 1].split()
W = os.environ.get("SEED_DIR", "/tmp/seed") + "/" + pid
env = "CARGO_TARGET_DIR=%s/target CARGO_NET_OFFLINE=true" % W
rc, diff = sh("git diff -- src include Cargo.toml", cwd=W)
if not diff.strip():
    print("no source change in", W); sys.exit(2)
demo = os.path.join(W, "tests", "seeded_demo.rs")
if not os.path.exists(demo):
    print("no demo"); sys.exit(2)
out = {"id": sid, "property": pid, "ran": []}
rc_suite, o = sh(env + " cargo test --offline --workspace --lib --bins 2>&1 | grep -E '^test result|FAILED|^error' | head -5; " + env + " cargo test --offline --workspace --doc 2>&1 | grep -E '^test result|FAILED|^error' | head -3", cwd=W)
suite_ok = "FAILED" not in o and "error" not in o and "test result: ok. 42 passed" in o and "test result: ok. 9 passed" in o
out["ran"].append({"cmd": "cargo test --offline --workspace --lib --bins ; cargo test --offline --workspace --doc (with the change)", "result": o.strip()[:400], "ok": suite_ok})
rc_d, o = sh(env + " cargo test --offline --test seeded_demo 2>&1 | grep -E '^test |test result' | head -8", cwd=W)
demo_fails = "FAILED" in o or "failed" in o
out["ran"].append({"cmd": "cargo test --offline --test seeded_demo (with the change)", "result": o.strip()[:400], "fails_as_required": demo_fails})
open(W + ".eval.patch", "w").write(diff)
sh("git checkout -- src include Cargo.toml", cwd=W)
rc_b, o = sh(env + " cargo test --offline --test seeded_demo 2>&1 | grep -E '^test |test result' | head -8", cwd=W)
sh("git apply %s.eval.patch" % W, cwd=W)
demo_passes_clean = "test result: ok" in o and "FAILED" not in o
out["ran"].append({"cmd": "cargo test --offline --test seeded_demo (change stashed)", "result": o.strip()[:400], "passes_as_required": demo_passes_clean})
out["confirmed"] = bool(suite_ok and demo_fails and demo_passes_clean)
# run checks
props = [json.loads(l)["id"] for l in open("/verif/properties.jsonl")]
m = json.load(open("/verif/MANIFEST.json"))
claimed = [c["property_id"] for c in m["checks"]]
res = {}
for c in (checks or claimed):
    rc, o = sh("LDPCV_REPO=%s ./check %s 2>&1 | grep -E 'violated|ANALYSIS-ERROR' | head -3" % (W, c), cwd="/verif", timeout=900)
    rc2, _ = sh("LDPCV_REPO=%s ./check %s >/dev/null 2>&1; echo $?" % (W, c), cwd="/verif") if False else (0, "")
    fired = "violated" in o
    err = "ANALYSIS-ERROR" in o
    if fired or err:
        res[c] = {"verdict": "VIOLATION" if fired else "ANALYSIS-ERROR", "first": o.strip().split("\n")[0][:300]}
out["checks_reporting"] = res
out["detected_by_own_property_check"] = pid in res and res[pid]["verdict"] == "VIOLATION"
d = "/verif/seeded/" + sid
os.makedirs(d, exist_ok=True)
open(os.path.join(d, "patch.diff"), "w").write(diff)
shutil.copy(demo, os.path.join(d, "seeded_demo.rs"))
meta_path = os.path.join(d, "meta.json")
old = json.load(open(meta_path)) if os.path.exists(meta_path) else {}
old.update(out)
json.dump(old, open(meta_path, "w"), indent=1)
print(json.dumps({k: out[k] for k in ("id", "confirmed", "detected_by_own_property_check")}), "reporting:", {k: v["verdict"] for k, v in res.items()})
