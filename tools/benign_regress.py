#!/usr/bin/env python3
"""Replay every recorded behaviour-preserving change (benign/<id>/patch.diff) on a scratch worktree of /repo's HEAD and run all
claimed checks against it: any VIOLATION or ANALYSIS-ERROR is a false alarm.  usage: tools/benign_regress.py [ids...] [--checks "C01 .."]"""
import json, os, subprocess, sys, glob, tempfile
from concurrent.futures import ThreadPoolExecutor
def sh(cmd, cwd=None):
    r = subprocess.run(cmd, shell=True, cwd=cwd, stdout=subprocess.PIPE, stderr=subprocess.STDOUT, text=True)
    return r.returncode, r.stdout
args = [a for a in sys.argv[1:] if not a.startswith("--")]
checks = None
if "--checks" in sys.argv:
    i = sys.argv.index("--checks"); checks = sys.argv[i + 1].split(); args = [a for a in args if a != sys.argv[i + 1]]
claimed = checks or [c["property_id"] for c in json.load(open("/verif/MANIFEST.json"))["checks"]]
bad = 0
for d in sorted(glob.glob("/verif/benign/*/")):
    bid = os.path.basename(d.rstrip("/"))
    if args and bid not in args:
        continue
    W = tempfile.mkdtemp(prefix="ldpcv-benign-")
    sh("git -C /repo worktree add -q --detach %s HEAD" % W)
    rc, o = sh("git apply %spatch.diff" % d, cwd=W)
    if rc != 0:
        print(bid, "PATCH DOES NOT APPLY", o[:200]); bad += 1
    else:
        def one(c):
            rc, o = sh("LDPCV_REPO=%s ./check %s" % (W, c), cwd="/verif")
            return c, rc, [l for l in o.splitlines() if l.startswith(("  violated", "ANALYSIS-ERROR"))]
        first = one(claimed[0])
        with ThreadPoolExecutor(8) as ex:
            res = [first] + list(ex.map(one, claimed[1:]))
        fails = [(c, rc, ls) for c, rc, ls in res if rc != 0]
        print(bid, "false alarms: %d" % len(fails))
        for c, rc, ls in fails:
            bad += 1
            print("   %s exit=%d %s" % (c, rc, (ls[0][:220] if ls else "")))
    sh("git -C /repo worktree remove --force %s" % W)
print("FALSE ALARMS:", bad)
sys.exit(1 if bad else 0)
