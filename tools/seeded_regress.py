#!/usr/bin/env python3
"""Re-run every recorded seeded change (seeded/<id>/patch.diff) against a scratch worktree of /repo's HEAD and report
which checks flag it.  usage: tools/seeded_regress.py [--all-checks] [ids...]"""
import json, os, subprocess, sys, glob, tempfile
def sh(cmd, cwd=None):
    r = subprocess.run(cmd, shell=True, cwd=cwd, stdout=subprocess.PIPE, stderr=subprocess.STDOUT, text=True)
    return r.returncode, r.stdout
allc = "--all-checks" in sys.argv
ids = [a for a in sys.argv[1:] if not a.startswith("--")]
m = json.load(open("/verif/MANIFEST.json"))
claimed = [c["property_id"] for c in m["checks"]]
bad = 0
for d in sorted(glob.glob("/verif/seeded/*/")):
    sid = os.path.basename(d.rstrip("/"))
    if ids and sid not in ids:
        continue
    meta = json.load(open(d + "meta.json"))
    W = tempfile.mkdtemp(prefix="ldpcv-seed-")
    sh("git -C /repo worktree add -q --detach %s HEAD" % W)
    rc, o = sh("git apply %spatch.diff" % d, cwd=W)
    if rc != 0:
        print(sid, "PATCH DOES NOT APPLY", o[:200]); bad += 1
    else:
        res = {}
        for c in (claimed if allc else [meta["property"]]):
            rc, o = sh("LDPCV_REPO=%s ./check %s" % (W, c), cwd="/verif")
            res[c] = rc
        own = res.get(meta["property"])
        print(sid, "own-check exit=%s" % own, {k: v for k, v in res.items() if v != 0} if allc else "")
        if own != 1:
            bad += 1
    sh("git -C /repo worktree remove --force %s" % W)
print("NOT DETECTED / PROBLEMS:", bad)
sys.exit(1 if bad else 0)
