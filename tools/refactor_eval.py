#!/usr/bin/env python3
"""Run every claimed check against behaviour-preserving refactorings (scratch worktrees under $REFAC_DIR, default /tmp/refac).
Any VIOLATION or ANALYSIS-ERROR here is a false alarm of the machinery.  usage: tools/refactor_eval.py [names...] [--checks "C01 C02"]"""
import json, os, subprocess, sys
from concurrent.futures import ThreadPoolExecutor
R = os.environ.get("REFAC_DIR", "/tmp/refac")
args = [a for a in sys.argv[1:] if not a.startswith("--")]
checks = None
if "--checks" in sys.argv:
    i = sys.argv.index("--checks"); checks = sys.argv[i + 1].split(); args = [a for a in args if a != sys.argv[i + 1]]
names = args or sorted(d for d in os.listdir(R) if os.path.isdir(os.path.join(R, d)))
claimed = checks or [c["property_id"] for c in json.load(open("/verif/MANIFEST.json"))["checks"]]
bad = 0
for n in names:
    W = os.path.join(R, n)
    # extraction once (first check), then the rest in parallel on the cached facts
    def one(c):
        r = subprocess.run("LDPCV_REPO=%s ./check %s" % (W, c), shell=True, cwd="/verif", stdout=subprocess.PIPE, stderr=subprocess.STDOUT, text=True)
        lines = [l for l in r.stdout.splitlines() if l.startswith(("  violated", "ANALYSIS-ERROR"))]
        return c, r.returncode, lines
    first = one(claimed[0])
    with ThreadPoolExecutor(8) as ex:
        res = [first] + list(ex.map(one, claimed[1:]))
    for c, rc, lines in res:
        if rc != 0:
            bad += 1
            print("%s %s exit=%d" % (n, c, rc))
            for l in lines[:2]:
                print("    " + l[:260])
    print(n, "done")
print("FALSE ALARMS:", bad)
