#!/usr/bin/env python3
"""debug helper: python3 tools/dbg.py <repo dir> <python file> -- exec file with F (Facts) in scope"""
import sys, os
sys.path.insert(0, "/verif")
os.environ["LDPCV_REPO"] = sys.argv[1]
from ldpcv.extract import repo_facts
from ldpcv.facts import Facts
F = Facts(repo_facts()[0])
exec(open(sys.argv[2]).read())
