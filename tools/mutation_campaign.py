#!/usr/bin/env python3
"""Mutation campaign: generic single-token mutants of /repo's src (non-test code), kept when they compile and pass the existing
lib/bin tests (i.e. exactly the changes the test suite cannot see), then run through the checks.

  tools/mutation_campaign.py --per-file 30 --workers 8 --out /tmp/mut/results.json [--files src/a.rs,src/b.rs] [--seed 1]

Scratch worktrees live under /tmp/mut/w<i> and are removed at the end."""
import json, os, random, re, subprocess, sys, shutil, time
from concurrent.futures import ThreadPoolExecutor

def arg(name, default=None):
    return sys.argv[sys.argv.index(name) + 1] if name in sys.argv else default

PER = int(arg("--per-file", "20")); NW = int(arg("--workers", "8")); OUT = arg("--out", "/tmp/mut/results.json")
OPS_FROM = int(arg("--ops-from", "0"))
SEED = int(arg("--seed", "1")); FILES = arg("--files")
ROOT = "/tmp/mut"
OPS = [
    (r"<=", "<"), (r"(?<![<>=!-])<(?![<=])", "<="), (r">=", ">"), (r"(?<![->=])>(?![>=])", ">="),
    (r"==", "!="), (r"!=", "=="), (r"&&", "||"), (r"\|\|", "&&"),
    (r"\+ 1\b", "+ 2"), (r"\+ 1\b", ""), (r"- 1\b", ""), (r"- 1\b", "- 2"),
    (r"\.min\(", ".max("), (r"\.max\(", ".min("), (r"\.rev\(\)", ""), (r"\.iter\(\)", ".iter().skip(1)"),
    (r"(?<![=!<>+\-*/&|^%])= *-", "= "), (r"\btrue\b", "false"), (r"\bfalse\b", "true"),
    (r"\+=", "-="), (r"-=", "+="), (r"\* 2\b", "* 3"), (r"/ 2\b", "/ 3"), (r"\b0\.5\b", "0.25"), (r" % ", " / "),
    (r"\.abs\(\)", ""), (r"\.saturating_sub\(", ".wrapping_sub("), (r"\.insert\(", ".toggle("), (r"\.toggle\(", ".insert("),
    (r"\bbreak;", "continue;"), (r"\.unwrap_or\(0\)", ".unwrap_or(1)"), (r"\b1\.\.", "0.."), (r"\b0\.\.", "1.."), (r"\.\.=", ".."),
    # round 2 operators
    (r"(?<![\w.])(\d{2,})(?![\w.])", "INC"), (r"(?<![=!<>])!(?=[\w(])", ""), (r"\.saturating_add\(", ".wrapping_add("),
    (r"(?<![<>=!-])<(?![<=])", ">"), (r"(?<![->=])>(?![>=])", "<"), (r"^(\s*)(self\.[\w.]+\([^;]*\);)\s*$", "DELSTMT"),
    (r"^(\s*)([\w.\[\]*]+ (?:[-+^|&]?)= [^;]*;)\s*$", "DELSTMT"), (r"\.zip\(", ".skip(1).zip("),
    (r"\bSome\((\w+)\)", "None"), (r" \+ ", " - "), (r" - ", " + "), (r" \* ", " + "), (r"\^= 1", "^= 0"), (r"\.rev\(\)", ".rev().skip(1)"),
]

def sh(cmd, cwd=None, timeout=900):
    try:
        r = subprocess.run(cmd, shell=True, cwd=cwd, stdout=subprocess.PIPE, stderr=subprocess.STDOUT, text=True, timeout=timeout)
        return r.returncode, r.stdout
    except subprocess.TimeoutExpired:
        return 124, "TIMEOUT"

def candidates(path, text):
    cut = text.find("#[cfg(test)]")
    body = text if cut < 0 else text[:cut]
    out = []
    for lineno, line in enumerate(body.split("\n")):
        s = line.strip()
        if not s or s.startswith(("//", "#[", "use ", "pub use", "///", "//!")) or "assert" in s or "println!" in s or "write!" in s or "format!" in s:
            continue
        code = line.split("//")[0]
        if code.count('"') >= 2:
            continue
        for oi, (pat, rep) in enumerate(OPS):
            if oi < OPS_FROM:
                continue
            for m in re.finditer(pat, code):
                out.append((lineno, m.start(), m.end(), oi))
    return out

def main():
    rnd = random.Random(SEED)
    files = FILES.split(",") if FILES else [l for l in sh("git -C /repo ls-files 'src/*.rs' 'src/**/*.rs'")[1].split() if l]
    muts = []
    for f in files:
        text = open("/repo/" + f).read()
        cs = candidates(f, text)
        rnd.shuffle(cs)
        for (ln, a, b, oi) in cs[:PER]:
            muts.append({"file": f, "line": ln + 1, "a": a, "b": b, "op": oi})
    print("mutants:", len(muts), "files:", len(files), flush=True)
    os.makedirs(ROOT, exist_ok=True)
    for i in range(NW):
        W = "%s/w%d" % (ROOT, i)
        if not os.path.exists(W):
            sh("git -C /repo worktree add -q --detach %s HEAD" % W)
            sh("CARGO_TARGET_DIR=%s/target cargo test --offline --workspace --lib --bins --no-run" % W, cwd=W)
    claimed = [c["property_id"] for c in json.load(open("/verif/MANIFEST.json"))["checks"]]
    results = []
    def work(job):
        i, chunk = job
        W = "%s/w%d" % (ROOT, i)
        res = []
        for m in chunk:
            p = W + "/" + m["file"]
            orig = open(p).read()
            lines = orig.split("\n")
            line = lines[m["line"] - 1]
            pat, rep = OPS[m["op"]]
            if rep == "INC":
                rep = str(int(line[m["a"]:m["b"]]) + 1)
            elif rep == "DELSTMT":
                rep = re.match(r"\s*", line).group(0) + "/* deleted */"
            new = line[:m["a"]] + rep + line[m["b"]:]
            lines[m["line"] - 1] = new
            open(p, "w").write("\n".join(lines))
            m["before"], m["after"] = line.strip()[:160], new.strip()[:160]
            rc, o = sh("CARGO_TARGET_DIR=%s/target timeout 300 cargo test --offline --workspace --lib --bins 2>&1 | grep -E \"^test result|^error\" | head -5" % W, cwd=W)
            if "test result: ok. 42 passed" in o:
                m["status"] = "survived"
                fl = {}
                for c in claimed:
                    rc2, o2 = sh("LDPCV_REPO=%s ./check %s" % (W, c), cwd="/verif", timeout=600)
                    if rc2 != 0:
                        first = [l for l in o2.splitlines() if l.startswith(("  violated", "ANALYSIS-ERROR"))]
                        fl[c] = {"exit": rc2, "first": first[0][:200] if first else ""}
                m["flagged"] = fl
            elif "error" in o and "test result" not in o:
                m["status"] = "no-compile"
            else:
                m["status"] = "killed-by-tests"
            open(p, "w").write(orig)
            res.append(m)
            print(m["file"], m["line"], m["status"], sorted(m.get("flagged", {}).keys()), flush=True)
        return res
    chunks = [(i, muts[i::NW]) for i in range(NW)]
    with ThreadPoolExecutor(NW) as ex:
        for r in ex.map(work, chunks):
            results += r
    json.dump(results, open(OUT, "w"), indent=1)
    for i in range(NW):
        sh("git -C /repo worktree remove --force %s/w%d" % (ROOT, i))
    sv = [m for m in results if m["status"] == "survived"]
    print("total %d, no-compile %d, killed by tests %d, survived %d, of which flagged by a check %d" % (
        len(results), sum(m["status"] == "no-compile" for m in results), sum(m["status"] == "killed-by-tests" for m in results),
        len(sv), sum(bool(m["flagged"]) for m in sv)))

main()
