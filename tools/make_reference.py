#!/usr/bin/env python3
"""One-off: write reference/dvbs2_tables.json (tree reference) from the current /repo facts."""
import json, sys, os
sys.path.insert(0, '/verif')
from ldpcv.extract import repo_facts
from ldpcv.facts import Facts
from ldpcv.rules import c06
F = Facts(repo_facts()[0])
out = {"kind": "tree reference: DVB-S2 address tables of the pinned commit, rows as sorted lists", "tables": {}, "profiles": {}}
for v in c06.STD:
    tab = c06.table_of(c06.const_eval(F, "addresses", v))
    out["tables"][v] = [sorted(r) for r in tab]
    prof = {}
    for r in tab: prof[len(r)] = prof.get(len(r), 0) + 1
    out["profiles"][v] = prof
json.dump(out, open('/verif/reference/dvbs2_tables.json', 'w'))
print({v: out["profiles"][v] for v in out["profiles"]})
