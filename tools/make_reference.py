#!/usr/bin/env python3
"""One-off: write reference/dvbs2_tables.json (tree reference) from the current /repo facts."""
import json, sys, os
sys.path.insert(0, '/verif')
from ldpcv.extract import repo_facts
from ldpcv.facts import Facts
from ldpcv.rules import c06
F = Facts(repo_facts()[0])
out = {"kind": "tree reference: DVB-S2 address tables of the pinned commit, rows as sorted lists", "tables": {}, "profiles": {}}
for v in c06.STD:
    tab = c06.table_of(c06.const_eval(F, "addresses", v))
    out["tables"][v] = [sorted(r) for r in tab]
    prof = {}
    for r in tab: prof[len(r)] = prof.get(len(r), 0) + 1
    out["profiles"][v] = prof
json.dump(out, open('/verif/reference/dvbs2_tables.json', 'w'))
print({v: out["profiles"][v] for v in out["profiles"]})
from ldpcv.rules import c07
from ldpcv.symx import SymEval
evs = SymEval(F, mode="int", inline_statics=True)
out2 = {"kind": "tree reference: CCSDS phi_k (Tables 7-3/7-4) and C2 circulant offsets (Table 7-1) of the pinned commit",
        "phi": c07.arr(evs.eval(F.body("codes::ccsds::PHI_K").value, {})),
        "c2": c07.arr(evs.eval(F.body("codes::ccsds::C2_CIRCULANTS").value, {}))}
json.dump(out2, open('/verif/reference/ccsds_tables.json', 'w'))
