#!/usr/bin/env python3
"""Generate /verif/MANIFEST.json from the per-property table below (kept here so the manifest stays valid)."""
import json, os
CLAIMS = {
 "C01": ("proof", "obligation checking on the symbolic exits of the two generic decode bodies (guards, buffers, hard-decision functions, loop shape)",
   "Every Ok/Err exit of flooding::decode and horizontal_layered::decode (the only two bodies behind all 36 factory decoders, cf. C18) is an obligation: a success exit must be guarded by a true syndrome test on the same buffer with an equivalent hard-decision function and nothing in between; the failure exit returns the word the last test rejected; counts are 0 / loop variable of 1..=limit / limit; the shortcut tests the raw LLRs with non-positive-means-1 before initialisation; check_llrs covers every row's parity; hard_decisions is positional; lengths are asserted; the hard-decision hooks of all 24 arithmetics take &self. These imply the success/failure clauses for every arithmetic, matrix and LLR vector on which node processing returns.",
   "Not covered: panic-freedom of the arithmetic node processing on the stated domain (value dependent). Trusted: Iterator::any/filter/count/map/collect semantics."),
 "C03": ("other", "provenance of every Messages::send argument, store-constructor arguments, call order and self-field effect summaries on the polymorphic schedule bodies",
   "Decides routing (source = node being processed, destination = msg.dest, value = msg.value, slot selection by source tag), store topology from iter_col/iter_row, unconditional phase order (check pass, variable pass, syndrome test; initialise after the failed shortcut), two-phase field effects, layered row order with one shared &mut LLR vector and positional initialisation. Holds for any plugged-in arithmetic because the bodies are analysed polymorphically. Equivalence of results with a reference BP and posterior exactness on forests are behavioural and not decided.",
   "Trusted: Iterator zip/enumerate ordering. The per-arithmetic emission discipline is C04."),
 "C10": ("proof", "forward must-analysis (definite re-initialisation) over the structured decode bodies with callee summaries; scratch-vector prefix discipline; who-may-call on stored decoders",
   "Statelessness is decided as: every field modified under decode is fully overwritten in a call before that call reads it, on every path including zero iterations. Obligations: one per per-call field and schedule, one per callee summary, one per arithmetic scratch use (24 impls), one per holder use. All must discharge.",
   "Trusted: the table of five full-overwrite idioms, the equal-length assertion at the top of decode, the topology/one-message-per-neighbour premises decided in C03/C04. User-defined arithmetics are assumed stateless."),
 "C02": ("other", "panic-site audit (MIR sites discharged on symbolic path conditions) + effect tracing + reader/writer agreement",
   "Decides the structural clauses: Encoder::from_h never panics for 1 <= rows <= cols (every MIR assert / panicking call reachable, incl. is_staircase and gauss_reduction, is discharged by a guard on the path or a reviewed argument) and maps NotInvertible to an error; encode returns [message | parity] with the message operand unmodified; the positions is_staircase accepts are exactly the equations the accumulator arm solves (generator = H0 copied unchanged, parity[j] += parity[j-1] for j in 1..len); dense arm column map, generator slice and product. Gauss-Jordan correctness, H c = 0, success-iff-invertible and linearity are algebraic value properties and are not decided.",
   "Trusted: the panic model of std/ndarray functions (ldpcv/panics.py), reviewed ledger entries (pivot non-zero by data, slice/swap bounds), the caller's contract on message length."),
 "C08": ("other", "panic-site audit of parser and writers + format-template decoding and token-flow agreement between writer and reader",
   "Decides parser totality (every panic-capable site reachable from from_alist is guarded on its path; no unwrap on input), writer arithmetic (incl. the all-zero matrix), and writer/reader layout agreement: header order, 4 lines before the lists on both sides, column lists first, index+1 <-> token-1, sorted lists, `0` padding only under use_padding and skipped by the reader. Round-trip equality for all matrices is an all-input value equality and is not decided; the rules are its structural necessary conditions.",
   "Trusted: panic model of library functions; decoding of core::fmt's template byte encoding; moderate declared dimensions (allocation succeeds)."),
 "C09": ("other", "panic-site audit + placement rule for explicit assertions + provenance of every insert",
   "Decides never-panics for 1 <= rows <= cols (all reachable MIR sites discharged; each assert!(k < m-n) must sit exactly on the path that writes a free column), the copy discipline (rows of input column s go to the write pointer or to m-n+j of a same-sized matrix; pointer advances once per free column) and the error mapping. 'Error iff rank-deficient', invertibility of the last columns and bijectivity of the column map depend on elimination correctness and are not decided.",
   "Trusted: panic model; reviewed entries (pivot non-zero by data, slice/swap bounds, counting argument for the free columns under full rank)."),
 "C06": ("other", "constant propagation over const fns + literal-table rules + symbolic normal form of the expansion loop",
   "Decides the table- and shape-level clauses: n/m/k/q of all 21 codes vs ETSI tables and internal relations; address tables (row count, range, distinctness, degree profile, pinned values); the quasi-cyclic expansion and dual-diagonal part in Code::h as a symbolic normal form; staircase reader/writer agreement (so the linear-time encoder arm is taken); thorough adds a table-level 4-cycle test. Matrix-level girth 6 and equality with a reference matrix beyond tables+shape are not decided (value computation = running the construction).",
   "Trusted: my transcription of ETSI Tables 5a/5b/7a/7b and the degree profiles; the pinned address tables are a tree reference (values of the pinned commit)."),
 "C07": ("other", "constant propagation of guards + effect tracing of every insert/toggle call site into a protograph table; literal-table rules; symbolic normal forms",
   "Decides the table and placement clauses: (rate,k)->M table, k=(blocks-3)M, 3M x (k+3M) allocation, every insert/toggle of AR4JACode::h normalised per rate to (row block, column block, I|Pi_k) and compared with the Blue Book protograph (block-column degrees incl. punctured degree 6 follow), insert-then-toggle GF(2) discipline, theta_k values, phi_k shape/bounds/pinned values, index shapes and the pi_k formula, C2 circulant table and expansion. Rank, invertibility and girth of the expanded matrices are value computations and are not decided.",
   "Trusted: my transcription of the Blue Book M table, theta_k and protograph; phi_k and the C2 circulants are tree references confirmed structurally."),
 "C12": ("other", "symbolic def-use chain of the frame through Worker::simulate + rational normal form of the Eb/N0 -> sigma formula + wiring of constructor arguments",
   "Decides: the decoder's input is depuncture?(deinterleave?(demodulate(add_noise(modulate(interleave?(puncture?(encode(msg)))))))) with mirrored optional stages guarded by the same fields and identity None arms; errors are counted against the encoded message; depuncture fills with Default and writes only kept blocks; channel and demodulator receive the same sigma = sqrt(0.5/(rate*BITS_PER_SYMBOL*10^(dB/10))), rate = k/n with n after puncturing, BITS_PER_SYMBOL 1/3; noise is Normal(0, sigma) with one draw per real and two separate draws per complex sample added to every element, ChannelType sealed; reported sizes are the fields computed in new(). Gaussianity/independence of the sampled noise is a statistical property of rand_distr and is not decided.",
   "Trusted: rand_distr::Normal and Distribution::sample semantics; the in-place effect of add_noise is only its += on each element (checked)."),
 "C13": ("other", "who-may-write scan, guarded-update table from the traced collector loop, rational normal forms of the ratios, event order, MIR dominator rule for sender liveness at the blocking recv",
   "Decides the structural conditions that make the statistics schedule-independent and the run terminating: accumulators written only by the collector; each of the nine counters updated exactly once per received result under its documented condition; strict stopping rule on the right counter; ratios as stated; all workers terminated and joined before any exit, Finished sent after do_run on every path; no Sender of the result channel alive in the collector at the blocking recv (MIR dominance), disconnect and worker panic mapped to errors. Thread schedules are not enumerated.",
   "Trusted: std::sync::mpsc and JoinHandle::join semantics."),
 "C14": ("other", "match-table extraction + symbolic dataflow of the demodulator sets + rational normal forms of the formulas",
   "Decides: 8PSK modulator table = DVB-S2 Gray mapping as exact symbolic points (unit energy, Gray), BPSK 0->-1/1->+1; the six maxstar sets of the 8PSK demodulator are exactly the bit=0/bit=1 partitions of the modulator's own table, combined with the right sign and emitted in the modulator's bit order; dot/maxstar/scale formulas as normal forms, BPSK scale tied to the modulator's symbols. Floating-point closeness to log(P0/P1) is not decided.",
   "Trusted: DVB-S2 8PSK mapping as transcribed; exp/ln_1p/max/abs/sqrt treated as the mathematical functions."),
 "C15": ("other", "symbolic layout algebra over the ndarray view operations + block-map normal forms + panic-site audit",
   "Decides: the interleaver index map out[r*C+c] = in[c*R+r] (backward: in[(C-1-c)*R+r]) and that deinterleave composed with it is the identity, for both reading directions; puncture/depuncture block maps (kept positions enumerated in order, block sizes, output lengths, default fill), rate = pattern_len/num_trues, num_trues = count of trues; divisibility guards return Err with the same divisor that defines the block size and the remaining panic sites are discharged. Value equality for all vectors follows from the maps under the trusted ndarray model; it is not separately decided.",
   "Trusted: the 5-operation ndarray model (row-major reshape, t, invert_axis, assign into zeros(raw_dim), flatten); panic model; reviewed slice-bound arguments."),
 "C16": ("other", "MIR call-graph who-may-call scan for randomness sources + traced filters/undo pairing + symbolic coupling of (seed, matrix)",
   "Decides: the only randomness reachable from the three entry points is one ChaCha8Rng seeded from the caller's seed and threaded to every choose/choose_multiple (no thread RNG, entropy, clock, RandomState); MacKay-Neal strict row-weight filter, exactly-wc-or-error selection, girth test with bound g-1 after insertion, clear_col on rejection before the error, exact backtracking range, run-loop routing and counters; search returns (s, run(s)) for the same s of the whole range; PEG candidate set, reversed compare_some then ascending weight, seeded tie-break, wc edges per column; compare_some and sort_by_random_min tables; BFS queue discipline reported. The quantitative guarantees (girth, row-weight balance, column weights) rest on C11 and are not decided.",
   "Trusted: ChaCha8Rng determinism, IteratorRandom uses only the RNG passed, rayon find_any semantics."),
 "C17": ("other", "effect tracing of every &mut method + mirror-symmetry check + who-may-write scan over module `sparse`",
   "Decides the premises of the induction over histories: every mutator has mirrored, correctly addressed effects on the row and column lists (insert guarded by !contains; remove retains x != index; toggle = contains ? remove : insert on the same coordinates; clear/set/bulk variants), the effect sets are invariant under rows<->cols, no method other than `new` touches the outer vectors (dimensions fixed), queries read the lists consistently, fields are private and equality is derived. The equivalence to a mathematical set for all histories follows by induction from these premises and is not separately proved.",
   "Trusted: Vec::push/retain/clear semantics; rustc's privacy checking for the field visibility recorded in the facts."),
 "C18": ("proof", "static table extraction from type-checked HIR/MIR and cross-table agreement",
   "All 36 names are decided as agreement of five finite tables (enum, factory arms from HIR and again from MIR, FromStr, Display, clap ValueEnum) plus the naming law and the variant documentation; every row is an obligation and all must discharge. Finite and exhaustive, so a table-level proof is the right level.",
   "Trusted: rustc's HIR/MIR for the crate, match-arm semantics. The behaviour of the generic decoders themselves is C01/C03, not C18."),
 "C19": ("other", "C prototype parsing vs extern \"C\" signatures from the type-checked crate + symbolic wiring of the wrappers + panic-site audit of the constructors",
   "Decides: header and exports agree symbol by symbol (set, arity, C type <-> Rust ABI type, return type, parameter order); decode_f64 feeds the depunctured LLRs and the caller's limit, returns iterations / -1 from the same result and copies the codeword prefix; decode_f32 widens with f64::from and delegates; encode maps b == 1 to GF2, encodes, punctures when configured, writes is_one elementwise after a length assert; extern shims build slices from matching (pointer, length) pairs; constructors return null exactly on Err with every fallible step propagated by `?`. Byte-for-byte equality with the Rust API for all buffers is not decided.",
   "Trusted: the C type table; panic model; reviewed non-empty-pattern argument."),
 "C20": ("other", "match-table extraction, symbolic print/compute wiring through decoded format templates, length provenance of the written slice, panic-site audit of each subcommand",
   "Decides: the 21-row DVB-S2 and the CCSDS argument tables by naming law; for every generator subcommand the printed text is alist()/girth() of exactly the matrix the library call returns for the parsed arguments; Args::config copies like-named fields; the dispatcher has one arm per subcommand; encode reads k-byte words with read_exact, stops only on UnexpectedEof and writes a slice length-tied to the (punctured) codeword; fallible calls are propagated with `?`; ber result lines have 11 matching columns, are emitted per Eb/N0 change and at Finished. Actual process output and exit codes need execution and are not decided.",
   "Trusted: decoding of core::fmt templates; panic model; reviewed entries for n - rows and the [..codeword.len()] slice."),
}
NA = {
 "C11": "exactness of BFS/girth over all graphs is an algorithmic value property; every structural rule in reach is satisfied by the present implementation although its local-girth result can be wrong for roots off the shortest cycle, so a static claim would certify a false property",
}
props = [json.loads(l)["id"] for l in open("/verif/properties.jsonl")]
checks = []
for pid in props:
    if pid in CLAIMS:
        level, tech, text, note = CLAIMS[pid]
        checks.append({
            "property_id": pid, "quick_cmd": "./check %s --tier quick" % pid, "thorough_cmd": "./check %s --tier thorough" % pid,
            "evidence_file": "evidence/%s.json" % pid, "engine": "ldpcv",
            "level_claimed": {"category": level, "text": text, "design_ref": "DESIGN.md section 4, " + pid},
            "level_note": note, "technique": tech})
na = [{"property_id": p, "reason": r} for p, r in NA.items()]
for pid in props:
    if pid not in CLAIMS and pid not in NA:
        na.append({"property_id": pid, "reason": "check not built yet in this work-in-progress state (planned static rules are described in DESIGN.md section 4); not claimed until its rule module exists"})
m = {
 "version": 1,
 "setup_cmd": "cd /verif/extract && CARGO_NET_OFFLINE=true cargo +nightly build --release --offline",
 "hooks": {"guard": "ldpc_toolbox_verif",
           "enable": "none needed: the rustc_private extractor sees private items; no hooks are compiled into /repo",
           "baseline_off_cmd": "cd /repo && cargo test --workspace --no-fail-fast --offline",
           "source_commits": [], "add_only": True},
 "engines": [
  {"name": "ldpcv-extract", "path": "extract/", "serves_properties": sorted(CLAIMS),
   "kind_free_text": "rustc_private driver (nightly) injected as RUSTC_WORKSPACE_WRAPPER under `cargo +nightly check`: dumps typed, resolved HIR trees, unoptimised MIR (overflow checks on) and item facts of /repo's current working tree as JSON; nothing from /repo is executed"},
  {"name": "ldpcv", "path": "ldpcv/", "serves_properties": sorted(CLAIMS),
   "kind_free_text": "Python rule library over the fact files: match-table extraction, CFG/dominators, provenance, symbolic polynomial normal forms, effect tracing, interval abstract interpretation, panic-site enumeration; one rule module per property; canary crate for non-vacuity"}],
 "checks": checks,
 "not_applicable": na,
 "notes": "Static analysis only. exit 0 = decided clauses hold; exit 1 + VIOLATION = a rule instance failed; exit 2 + ANALYSIS-ERROR = the tree could not be analysed (fail closed, no verdict). Genuine defects found are listed in known_findings.json (fixed ones with their /repo commit)."
}
json.dump(m, open("/verif/MANIFEST.json", "w"), indent=1)
print("claimed", sorted(CLAIMS), "n/a", len(na))
