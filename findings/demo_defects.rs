// Demonstrations of the genuine defects found by the static checks (run against the tree *before* the fix: commits).
// Place as tests/demo_defects.rs in a scratch worktree of /repo at the pinned commit and run `cargo test --test demo_defects`.
use ldpc_toolbox::sparse::SparseMatrix;

#[test]
fn d1_from_alist_row_out_of_range_must_be_err_not_panic() {
    // 1x1 matrix whose only column lists row index 5
    let r = std::panic::catch_unwind(|| SparseMatrix::from_alist("1 1\n1 1\n1\n1\n5\n1\n"));
    assert!(matches!(r, Ok(Err(_))), "from_alist panicked or accepted an out-of-range row: {:?}", r.map(|x| x.is_ok()));
}

#[test]
fn d2_alist_of_all_zero_matrix_round_trips() {
    let h = SparseMatrix::new(2, 3);
    let r = std::panic::catch_unwind(|| h.alist());
    let text = r.expect("alist() panicked on the all-zero matrix");
    assert_eq!(SparseMatrix::from_alist(&text).unwrap(), h);
}

#[test]
fn d3_parity_to_systematic_square_full_rank() {
    let mut h = SparseMatrix::new(1, 1);
    h.insert(0, 0);
    let r = std::panic::catch_unwind(|| ldpc_toolbox::systematic::parity_to_systematic(&h));
    assert!(matches!(r, Ok(Ok(_))), "parity_to_systematic panicked on a square full-rank matrix");
}

#[test]
fn d4_flooding_decoder_limit_zero_is_stateless() {
    use ldpc_toolbox::decoder::{arithmetic::Phif64, flooding::Decoder};
    let mut h = SparseMatrix::new(2, 3);
    h.insert_row(0, [0, 1].iter());
    h.insert_row(1, [1, 2].iter());
    let llrs_b = [1.0, -1.0, 1.0]; // not a codeword
    let fresh = Decoder::new(h.clone(), Phif64::new()).decode(&llrs_b, 0);
    let mut used = Decoder::new(h, Phif64::new());
    let _ = used.decode(&[5.0, -0.3, 5.0], 3); // decodes to the all-zero codeword
    let again = used.decode(&llrs_b, 0);
    assert_eq!(fresh, again, "decode(_, 0) depends on the previous frame");
}

#[test]
fn d5_ber_run_returns_error_instead_of_hanging_when_block_size_does_not_fit() {
    use ldpc_toolbox::decoder::factory::DecoderImplementation;
    use ldpc_toolbox::simulation::factory::{BerTestBuilder, Modulation};
    use std::sync::mpsc;
    use std::time::Duration;
    let mut h = SparseMatrix::new(3, 6);
    h.insert_row(0, [0, 1, 3].iter());
    h.insert_row(1, [1, 2, 4].iter());
    h.insert_row(2, [0, 2, 5].iter());
    let (tx, rx) = mpsc::channel();
    std::thread::spawn(move || {
        let test = BerTestBuilder {
            h,
            decoder_implementation: DecoderImplementation::Phif64,
            modulation: Modulation::Bpsk,
            puncturing_pattern: None,
            interleaving_columns: Some(4), // 6 is not divisible by 4
            max_frame_errors: 1,
            max_iterations: 5,
            ebn0s_db: &[0.0],
            reporter: None,
            bch_max_errors: 0,
        }
        .build()
        .unwrap();
        let r = std::panic::catch_unwind(std::panic::AssertUnwindSafe(|| test.run().is_err()));
        let _ = tx.send(r);
    });
    match rx.recv_timeout(Duration::from_secs(15)) {
        Ok(Ok(true)) => (),
        Ok(Ok(false)) => panic!("run() reported success"),
        Ok(Err(_)) => panic!("run() panicked instead of returning an error"),
        Err(_) => panic!("run() hangs: all workers died but the collector still blocks in recv()"),
    }
}

#[test]
fn d6_cli_encode_writes_exactly_the_punctured_codeword() {
    use clap::Parser;
    use ldpc_toolbox::cli::{encode, Run};
    let dir = std::env::temp_dir().join(format!("ldpcv-d6-{}", std::process::id()));
    std::fs::create_dir_all(&dir).unwrap();
    let mut h = SparseMatrix::new(3, 6);
    h.insert_row(0, [0, 1, 3].iter());
    h.insert_row(1, [1, 2, 4].iter());
    h.insert_row(2, [0, 2, 5].iter());
    let alist = dir.join("h.alist");
    let input = dir.join("in.u8");
    let output = dir.join("out.u8");
    std::fs::write(&alist, h.alist()).unwrap();
    std::fs::write(&input, [1u8, 0, 1, 0, 1, 1]).unwrap(); // two words of k = 3 bits
    encode::Args::parse_from([
        "encode",
        alist.to_str().unwrap(),
        input.to_str().unwrap(),
        output.to_str().unwrap(),
        "--puncturing",
        "1,1,0",
    ])
    .run()
    .unwrap();
    let out = std::fs::read(&output).unwrap();
    std::fs::remove_dir_all(&dir).ok();
    // pattern 1,1,0 keeps 4 of 6 bits per codeword: 2 words -> 8 bytes
    assert_eq!(out.len(), 8, "encode wrote {} bytes for two punctured codewords of 4 bits", out.len());
}
