//! C18 canaries: name <-> built type agreement.
macro_rules! fam {
    ($m:ident, $hlfoo_sched:ident, $hlfoo_arith:ident) => {
        pub mod $m {
            pub struct Foo;
            pub struct Bar;
            pub mod flooding {
                pub struct Dec<A>(pub A);
                impl<A> Dec<A> { pub fn new(a: A) -> Self { Dec(a) } }
                impl<A> super::D for Dec<A> {}
            }
            pub mod layered {
                pub struct Dec<A>(pub A);
                impl<A> Dec<A> { pub fn new(a: A) -> Self { Dec(a) } }
                impl<A> super::D for Dec<A> {}
            }
            pub trait D {}
            pub enum Impl { Foo, Bar, HLFoo }
            pub trait Factory { fn build(&self) -> Box<dyn D>; }
            impl Factory for Impl {
                fn build(&self) -> Box<dyn D> {
                    match self {
                        Impl::Foo => Box::new(flooding::Dec::new(Foo)),
                        Impl::Bar => Box::new(flooding::Dec::new(Bar)),
                        Impl::HLFoo => Box::new($hlfoo_sched::Dec::new($hlfoo_arith)),
                    }
                }
            }
        }
    };
}
fam!(good, layered, Foo);
fam!(bad, flooding, Bar);
