//! Canary crate: conforming and violating miniatures for each rule family.
#![allow(dead_code, unused)]

pub mod c18;
pub mod zero;
