//! Positive examples for rules whose expected number of matches on the analysed tree is zero: each scan must find these.
use std::collections::HashMap;

/// ambient sources of nondeterminism (C16-Q1 must find every one of them)
pub fn ambient() -> usize {
    let t0 = std::time::Instant::now();
    let t1 = std::time::SystemTime::now();
    let m: HashMap<u8, u8> = HashMap::new();
    let s = std::collections::hash_map::RandomState::new();
    let hs: std::collections::HashSet<u8> = std::collections::HashSet::new();
    let md: HashMap<u8, u8> = Default::default();
    let hd: std::collections::HashSet<u8> = Default::default();
    let rs: std::collections::hash_map::RandomState = Default::default();
    let _ = (t0, t1, s, rs);
    m.len() + hs.len() + md.len() + hd.len()
}

/// unwrap / expect on fallible results (C08-P1 and C20-L5 must find both)
pub fn unwraps(s: &str) -> usize {
    let a: usize = s.parse().unwrap();
    let b: usize = s.parse().expect("a number");
    a + b
}
