//! ldpcv-extract: rustc_private fact extractor.
//!
//! Used as RUSTC_WORKSPACE_WRAPPER: argv = [self, rustc, rustc-args...].
//! For every workspace crate compiled, dumps one JSON fact file into
//! $LDPCV_FACTS_DIR/<crate_name>-<crate_type>.json containing, per body owner:
//! a typed, resolved HIR expression tree and the (unoptimised) MIR; plus items.
#![feature(rustc_private)]
#![allow(clippy::all)]

extern crate rustc_abi;
extern crate rustc_ast;
extern crate rustc_driver;
extern crate rustc_hir;
extern crate rustc_interface;
extern crate rustc_middle;
extern crate rustc_session;
extern crate rustc_span;

mod hirdump;
mod items;
mod json;
mod mirdump;

use json::J;
use rustc_driver::Compilation;
use rustc_middle::ty::TyCtxt;
use rustc_span::Span;

pub struct Cx<'tcx> {
    pub tcx: TyCtxt<'tcx>,
}

impl<'tcx> Cx<'tcx> {
    pub fn span(&self, sp: Span) -> J {
        let sm = self.tcx.sess.source_map();
        // Use the outermost call site for code from expansion so that reports
        // point at repository source.
        let root = sp.source_callsite();
        let loc = sm.lookup_char_pos(root.lo());
        let name = format!("{}", loc.file.name.prefer_local_unconditionally());
        J::s(format!("{}:{}:{}", name, loc.line, loc.col.0 + 1))
    }
    /// end position "line:col" of the (call-site) span
    pub fn span_end(&self, sp: Span) -> J {
        let sm = self.tcx.sess.source_map();
        let root = sp.source_callsite();
        let loc = sm.lookup_char_pos(root.hi());
        J::s(format!("{}:{}", loc.line, loc.col.0 + 1))
    }
    pub fn expn(&self, sp: Span) -> Option<String> {
        if sp.from_expansion() {
            let mut data = sp.ctxt().outer_expn_data();
            // walk to the outermost macro
            loop {
                let cs = data.call_site;
                if cs.from_expansion() {
                    data = cs.ctxt().outer_expn_data();
                } else {
                    break;
                }
            }
            Some(format!("{}", data.kind.descr()))
        } else {
            None
        }
    }
    /// innermost expansion name
    pub fn expn_inner(&self, sp: Span) -> Option<String> {
        if sp.from_expansion() {
            let data = sp.ctxt().outer_expn_data();
            Some(format!("{}", data.kind.descr()))
        } else {
            None
        }
    }
}

struct Cb;

impl rustc_driver::Callbacks for Cb {
    fn after_analysis<'tcx>(
        &mut self,
        _compiler: &rustc_interface::interface::Compiler,
        tcx: TyCtxt<'tcx>,
    ) -> Compilation {
        let dir = match std::env::var("LDPCV_FACTS_DIR") {
            Ok(d) => d,
            Err(_) => return Compilation::Continue,
        };
        let cx = Cx { tcx };
        let crate_name = tcx.crate_name(rustc_hir::def_id::LOCAL_CRATE).to_string();
        let crate_types: Vec<String> =
            tcx.crate_types().iter().map(|t| format!("{:?}", t)).collect();
        let is_test = tcx.sess.opts.test;
        let mut root = J::obj();
        root.put("crate", J::s(crate_name.clone()));
        root.put("crate_types", J::Arr(crate_types.iter().map(|s| J::s(s.clone())).collect()));
        root.put("test_harness", J::Bool(is_test));
        root.put("overflow_checks", J::Bool(tcx.sess.overflow_checks()));
        rustc_middle::ty::print::with_no_trimmed_paths!({
            root.put("items", items::dump_items(&cx));
            root.put("bodies", dump_bodies(&cx));
        });
        let mut out = String::new();
        root.write(&mut out);
        let kind = if crate_types.iter().any(|t| t == "Executable") { "bin" } else { "lib" };
        let fname = format!(
            "{}/{}-{}{}.json",
            dir,
            crate_name,
            kind,
            if is_test { "-test" } else { "" }
        );
        std::fs::write(&fname, out).expect("cannot write facts");
        Compilation::Continue
    }
}

fn dump_bodies<'tcx>(cx: &Cx<'tcx>) -> J {
    let tcx = cx.tcx;
    let mut arr = Vec::new();
    for def_id in tcx.hir_body_owners() {
        let dk = tcx.def_kind(def_id);
        use rustc_hir::def::DefKind;
        match dk {
            DefKind::AnonConst | DefKind::InlineConst => continue,
            _ => {}
        }
        let mut o = J::obj();
        o.put("path", J::s(tcx.def_path_str(def_id.to_def_id())));
        o.put("def_kind", J::s(format!("{:?}", dk)));
        o.put("span", cx.span(tcx.def_span(def_id)));
        if let Some(e) = cx.expn(tcx.def_span(def_id)) {
            o.put("expn", J::s(e));
        }
        // parent (for closures: the enclosing fn)
        let parent = tcx.local_parent(def_id);
        o.put("parent", J::s(tcx.def_path_str(parent.to_def_id())));
        if matches!(dk, DefKind::Fn | DefKind::AssocFn) {
            o.put("vis", J::s(format!("{:?}", tcx.visibility(def_id))));
            let sig = tcx.fn_sig(def_id).instantiate_identity().skip_norm_wip();
            let sig = sig.skip_binder();
            o.put(
                "sig_inputs",
                J::Arr(sig.inputs().iter().map(|t| J::s(t.to_string())).collect()),
            );
            o.put("sig_output", J::s(sig.output().to_string()));
            o.put("abi", J::s(format!("{:?}", sig.abi())));
            o.put("constness", J::Bool(tcx.is_const_fn(def_id.to_def_id())));
            let attrs = tcx.codegen_fn_attrs(def_id);
            o.put(
                "no_mangle",
                J::Bool(attrs.flags.contains(
                    rustc_middle::middle::codegen_fn_attrs::CodegenFnAttrFlags::NO_MANGLE,
                )),
            );
            if let Some(name) = attrs.symbol_name {
                o.put("symbol_name", J::s(name.to_string()));
            }
        }
        o.put("hir", hirdump::dump_body(cx, def_id));
        o.put("mir", mirdump::dump_mir(cx, def_id));
        arr.push(o);
    }
    J::Arr(arr)
}

fn main() {
    let mut args: Vec<String> = std::env::args().collect();
    // RUSTC_WORKSPACE_WRAPPER: argv[1] is the real rustc path; drop it.
    if args.len() > 1 && (args[1].ends_with("rustc") || args[1].contains("/rustc")) {
        args.remove(1);
    }
    let mut cb = Cb;
    rustc_driver::run_compiler(&args, &mut cb);
}
