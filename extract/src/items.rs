//! Item-level facts: ADTs, impls, type aliases, traits.
use crate::json::J;
use crate::Cx;
use rustc_hir as hir;
use rustc_hir::def::DefKind;
use rustc_middle::ty::{self, TypingEnv};

fn docs<'tcx>(cx: &Cx<'tcx>, hir_id: hir::HirId) -> J {
    let mut s = String::new();
    for a in cx.tcx.hir_attrs(hir_id) {
        if let Some(d) = a.doc_str() {
            s.push_str(d.as_str());
            s.push('\n');
        }
    }
    J::s(s)
}

pub fn dump_items<'tcx>(cx: &Cx<'tcx>) -> J {
    let tcx = cx.tcx;
    let mut adts = Vec::new();
    let mut impls = Vec::new();
    let mut aliases = Vec::new();
    let mut traits = Vec::new();
    let mut consts = Vec::new();
    for id in tcx.hir_free_items() {
        let item = tcx.hir_item(id);
        let def_id = item.owner_id.def_id;
        let dk = tcx.def_kind(def_id);
        match dk {
            DefKind::Struct | DefKind::Enum | DefKind::Union => {
                let adt = tcx.adt_def(def_id);
                let mut o = J::obj();
                o.put("path", J::s(tcx.def_path_str(def_id.to_def_id())));
                o.put("kind", J::s(format!("{:?}", dk)));
                o.put("vis", J::s(format!("{:?}", tcx.visibility(def_id))));
                o.put("span", cx.span(item.span));
                o.put("docs", docs(cx, item.hir_id()));
                let mut vars = Vec::new();
                for (vi, v) in adt.variants().iter_enumerated() {
                    let mut vo = J::obj();
                    vo.put("name", J::s(v.name.to_string()));
                    vo.put("idx", J::Int(vi.as_usize() as i128));
                    if adt.is_enum() {
                        let d = adt.discriminant_for_variant(tcx, vi);
                        vo.put("discr", J::Int(d.val as i128));
                    }
                    vo.put("ctor_kind", J::s(format!("{:?}", v.ctor_kind())));
                    if let Some(ldid) = v.def_id.as_local() {
                        vo.put("docs", docs(cx, tcx.local_def_id_to_hir_id(ldid)));
                    }
                    let mut fields = Vec::new();
                    for f in v.fields.iter() {
                        let mut fo = J::obj();
                        fo.put("name", J::s(f.name.to_string()));
                        fo.put("vis", J::s(format!("{:?}", f.vis)));
                        fo.put(
                            "ty",
                            J::s(tcx.type_of(f.did).instantiate_identity().skip_norm_wip().to_string()),
                        );
                        fields.push(fo);
                    }
                    vo.put("fields", J::Arr(fields));
                    vars.push(vo);
                }
                o.put("variants", J::Arr(vars));
                adts.push(o);
            }
            DefKind::Impl { .. } => {
                let mut o = J::obj();
                o.put("span", cx.span(item.span));
                if let Some(e) = cx.expn(item.span) {
                    o.put("expn", J::s(e));
                }
                let self_ty = tcx.type_of(def_id).instantiate_identity().skip_norm_wip();
                o.put("self_ty", J::s(self_ty.to_string()));
                if let Some(tr) = tcx.impl_opt_trait_ref(def_id) {
                    let tr = tr.instantiate_identity().skip_norm_wip();
                    o.put("trait", J::s(tcx.def_path_str(tr.def_id)));
                    o.put("trait_ref", J::s(tr.to_string()));
                }
                let mut members = Vec::new();
                for ai in tcx.associated_items(def_id).in_definition_order() {
                    let mut mo = J::obj();
                    mo.put("name", J::s(ai.name().to_string()));
                    mo.put("kind", J::s(format!("{:?}", ai.kind)));
                    mo.put("path", J::s(tcx.def_path_str(ai.def_id)));
                    match ai.kind {
                        ty::AssocKind::Type { .. } => {
                            mo.put(
                                "ty",
                                J::s(tcx
                                    .type_of(ai.def_id)
                                    .instantiate_identity()
                                    .skip_norm_wip()
                                    .to_string()),
                            );
                        }
                        ty::AssocKind::Const { .. } => {
                            let env = TypingEnv::post_analysis(tcx, def_id);
                            if let Ok(v) = tcx.const_eval_poly(ai.def_id) {
                                let cty =
                                    tcx.type_of(ai.def_id).instantiate_identity().skip_norm_wip();
                                let _ = env;
                                mo.put("ty", J::s(cty.to_string()));
                                if let Some(si) = v.try_to_scalar_int() {
                                    let size = si.size();
                                    let bits = si.to_bits(size);
                                    match cty.kind() {
                                        ty::TyKind::Float(ty::FloatTy::F64) => {
                                            mo.put(
                                                "float",
                                                J::s(format!("{:?}", f64::from_bits(bits as u64))),
                                            );
                                        }
                                        ty::TyKind::Float(ty::FloatTy::F32) => {
                                            mo.put(
                                                "float",
                                                J::s(format!("{:?}", f32::from_bits(bits as u32))),
                                            );
                                        }
                                        ty::TyKind::Int(_) => {
                                            mo.put("int", J::Int(size.sign_extend(bits) as i128));
                                        }
                                        _ => {
                                            mo.put("int", J::Int(bits as i128));
                                        }
                                    }
                                }
                            }
                        }
                        _ => {}
                    }
                    members.push(mo);
                }
                o.put("members", J::Arr(members));
                impls.push(o);
            }
            DefKind::TyAlias => {
                let mut o = J::obj();
                o.put("path", J::s(tcx.def_path_str(def_id.to_def_id())));
                o.put(
                    "ty",
                    J::s(tcx.type_of(def_id).instantiate_identity().skip_norm_wip().to_string()),
                );
                aliases.push(o);
            }
            DefKind::Trait => {
                let mut o = J::obj();
                o.put("path", J::s(tcx.def_path_str(def_id.to_def_id())));
                o.put("vis", J::s(format!("{:?}", tcx.visibility(def_id))));
                let preds = tcx.explicit_super_predicates_of(def_id);
                let mut sup = Vec::new();
                for (p, _) in preds.iter_identity_copied().map(|x| x.skip_norm_wip()) {
                    sup.push(J::s(p.to_string()));
                }
                o.put("supers", J::Arr(sup));
                traits.push(o);
            }
            DefKind::Const { .. } | DefKind::Static { .. } => {
                let mut o = J::obj();
                o.put("path", J::s(tcx.def_path_str(def_id.to_def_id())));
                o.put("kind", J::s(format!("{:?}", dk)));
                o.put(
                    "ty",
                    J::s(tcx.type_of(def_id).instantiate_identity().skip_norm_wip().to_string()),
                );
                o.put("vis", J::s(format!("{:?}", tcx.visibility(def_id))));
                consts.push(o);
            }
            _ => {}
        }
    }
    // module visibility (for encapsulation rules)
    let mut mods = Vec::new();
    for id in tcx.hir_free_items() {
        let item = tcx.hir_item(id);
        let def_id = item.owner_id.def_id;
        if tcx.def_kind(def_id) == DefKind::Mod {
            mods.push(
                J::obj()
                    .with("path", J::s(tcx.def_path_str(def_id.to_def_id())))
                    .with("vis", J::s(format!("{:?}", tcx.visibility(def_id)))),
            );
        }
    }
    J::obj()
        .with("adts", J::Arr(adts))
        .with("impls", J::Arr(impls))
        .with("aliases", J::Arr(aliases))
        .with("traits", J::Arr(traits))
        .with("consts", J::Arr(consts))
        .with("mods", J::Arr(mods))
}
