//! Structured MIR dump (unoptimised: run with -Zmir-opt-level=0).
use crate::json::J;
use crate::Cx;
use rustc_hir::def::DefKind;
use rustc_hir::def_id::LocalDefId;
use rustc_middle::mir::{
    self, AggregateKind, AssertKind, BasicBlock, Body, Const, Operand, Place, ProjectionElem,
    Rvalue, StatementKind, TerminatorKind,
};
use rustc_middle::ty::{self, TyKind, TypingEnv};

pub fn dump_mir<'tcx>(cx: &Cx<'tcx>, def_id: LocalDefId) -> J {
    let tcx = cx.tcx;
    let dk = tcx.def_kind(def_id);
    let body: &Body<'tcx> = match dk {
        DefKind::Fn | DefKind::AssocFn | DefKind::Closure => {
            if !tcx.is_mir_available(def_id.to_def_id()) {
                return J::Null;
            }
            if tcx.is_const_fn(def_id.to_def_id()) {
                tcx.mir_for_ctfe(def_id)
            } else {
                tcx.optimized_mir(def_id)
            }
        }
        DefKind::Const { .. } | DefKind::AssocConst { .. } | DefKind::Static { .. } => {
            tcx.mir_for_ctfe(def_id)
        }
        _ => return J::Null,
    };
    let m = M { cx, body, owner: def_id };
    m.dump()
}

struct M<'a, 'tcx> {
    cx: &'a Cx<'tcx>,
    body: &'a Body<'tcx>,
    owner: LocalDefId,
}

impl<'a, 'tcx> M<'a, 'tcx> {
    fn bb(&self, b: BasicBlock) -> J {
        J::Int(b.as_usize() as i128)
    }

    fn place(&self, p: &Place<'tcx>) -> J {
        let mut o = J::obj();
        o.put("l", J::Int(p.local.as_usize() as i128));
        if !p.projection.is_empty() {
            let mut proj = Vec::new();
            let mut pty = mir::PlaceTy::from_ty(self.body.local_decls[p.local].ty);
            for elem in p.projection.iter() {
                let j = match elem {
                    ProjectionElem::Deref => J::Arr(vec![J::s("deref")]),
                    ProjectionElem::Field(f, _) => {
                        // field name when the base is an ADT
                        let name = match pty.ty.kind() {
                            TyKind::Adt(adt, _) => {
                                let v = pty.variant_index.unwrap_or(rustc_abi::FIRST_VARIANT);
                                if adt.is_enum() || adt.is_struct() || adt.is_union() {
                                    adt.variant(v)
                                        .fields
                                        .get(f)
                                        .map(|fd| fd.name.to_string())
                                        .unwrap_or_default()
                                } else {
                                    String::new()
                                }
                            }
                            _ => String::new(),
                        };
                        J::Arr(vec![J::s("field"), J::Int(f.as_usize() as i128), J::s(name)])
                    }
                    ProjectionElem::Index(l) => {
                        J::Arr(vec![J::s("index"), J::Int(l.as_usize() as i128)])
                    }
                    ProjectionElem::ConstantIndex { offset, min_length, from_end } => J::Arr(vec![
                        J::s("constindex"),
                        J::Int(offset as i128),
                        J::Int(min_length as i128),
                        J::Bool(from_end),
                    ]),
                    ProjectionElem::Subslice { from, to, from_end } => J::Arr(vec![
                        J::s("subslice"),
                        J::Int(from as i128),
                        J::Int(to as i128),
                        J::Bool(from_end),
                    ]),
                    ProjectionElem::Downcast(name, v) => J::Arr(vec![
                        J::s("downcast"),
                        J::Int(v.as_usize() as i128),
                        J::s(name.map(|s| s.to_string()).unwrap_or_default()),
                    ]),
                    ProjectionElem::OpaqueCast(_) => J::Arr(vec![J::s("opaquecast")]),
                    ProjectionElem::UnwrapUnsafeBinder(_) => J::Arr(vec![J::s("unwrapbinder")]),
                };
                proj.push(j);
                pty = pty.projection_ty(self.cx.tcx, elem);
            }
            o.put("proj", J::Arr(proj));
        }
        o
    }

    fn constant(&self, c: &mir::ConstOperand<'tcx>) -> J {
        let tcx = self.cx.tcx;
        let mut o = J::k("const");
        let ty = c.const_.ty();
        o.put("ty", J::s(ty.to_string()));
        if let TyKind::FnDef(did, args) = ty.kind() {
            o.put("fn", J::s(tcx.def_path_str(*did)));
            if !args.is_empty() {
                o.put("gargs", J::Arr(args.iter().map(|a| J::s(a.to_string())).collect()));
            }
            let env = TypingEnv::post_analysis(tcx, self.owner);
            if let Ok(Some(inst)) = ty::Instance::try_resolve(tcx, env, *did, args) {
                o.put("inst", J::s(tcx.def_path_str(inst.def_id())));
                if let Some(impl_did) = tcx.impl_of_assoc(inst.def_id()) {
                    let self_ty = tcx.type_of(impl_did).instantiate_identity().skip_norm_wip();
                    o.put("inst_self", J::s(self_ty.to_string()));
                }
            }
            return o;
        }
        // scalar values
        let env = TypingEnv::post_analysis(tcx, self.owner);
        match c.const_ {
            Const::Val(..) | Const::Ty(..) | Const::Unevaluated(..) => {
                if let Some(si) = c.const_.try_eval_scalar_int(tcx, env) {
                    let size = si.size();
                    let bits = si.to_bits(size);
                    match ty.kind() {
                        TyKind::Int(_) => {
                            let v = size.sign_extend(bits);
                            o.put("int", J::Int(v as i128));
                        }
                        TyKind::Uint(_) => {
                            o.put("int", J::s(bits.to_string()));
                            if bits <= i128::MAX as u128 {
                                o.put("int", J::Int(bits as i128));
                            }
                        }
                        TyKind::Bool => {
                            o.put("bool", J::Bool(bits != 0));
                        }
                        TyKind::Float(ft) => {
                            let f = match ft {
                                ty::FloatTy::F32 => f32::from_bits(bits as u32) as f64,
                                ty::FloatTy::F64 => f64::from_bits(bits as u64),
                                _ => f64::NAN,
                            };
                            o.put("float", J::s(format!("{:?}", f)));
                        }
                        TyKind::Char => {
                            o.put("int", J::Int(bits as i128));
                        }
                        _ => {
                            o.put("bits", J::s(bits.to_string()));
                        }
                    }
                }
            }
        }
        o.put("dbg", J::s(format!("{}", c.const_)));
        if let Const::Unevaluated(u, _) = c.const_ {
            o.put("uneval", J::s(tcx.def_path_str(u.def)));
        }
        o
    }

    fn operand(&self, op: &Operand<'tcx>) -> J {
        match op {
            Operand::Copy(p) => J::k("copy").with("p", self.place(p)),
            Operand::Move(p) => J::k("move").with("p", self.place(p)),
            Operand::Constant(c) => self.constant(c),
            other => J::k("otherop").with("dbg", J::s(format!("{:?}", other))),
        }
    }

    fn rvalue(&self, rv: &Rvalue<'tcx>) -> J {
        let tcx = self.cx.tcx;
        match rv {
            Rvalue::Use(op, ..) => J::k("use").with("op", self.operand(op)),
            Rvalue::Repeat(op, n) => {
                J::k("repeat").with("op", self.operand(op)).with("n", J::s(n.to_string()))
            }
            Rvalue::Ref(_, bk, p) => J::k("ref")
                .with("mut", J::Bool(matches!(bk, mir::BorrowKind::Mut { .. })))
                .with("p", self.place(p)),
            Rvalue::RawPtr(kind, p) => J::k("rawptr")
                .with("mut", J::Bool(matches!(kind, mir::RawPtrKind::Mut)))
                .with("p", self.place(p)),
            Rvalue::Cast(kind, op, ty) => J::k("cast")
                .with("ck", J::s(format!("{:?}", kind)))
                .with("op", self.operand(op))
                .with("to", J::s(ty.to_string())),
            Rvalue::BinaryOp(op, ops) => J::k("binop")
                .with("op", J::s(format!("{:?}", op)))
                .with("l", self.operand(&ops.0))
                .with("r", self.operand(&ops.1)),
            Rvalue::UnaryOp(op, x) => {
                J::k("unop").with("op", J::s(format!("{:?}", op))).with("x", self.operand(x))
            }
            Rvalue::Discriminant(p) => J::k("discr").with("p", self.place(p)),
            Rvalue::Aggregate(kind, ops) => {
                let mut o = J::k("aggr");
                match &**kind {
                    AggregateKind::Array(_) => {
                        o.put("ak", J::s("array"));
                    }
                    AggregateKind::Tuple => {
                        o.put("ak", J::s("tuple"));
                    }
                    AggregateKind::Adt(did, vidx, _, _, _) => {
                        o.put("ak", J::s("adt"));
                        o.put("adt", J::s(tcx.def_path_str(*did)));
                        let adt = tcx.adt_def(*did);
                        let v = adt.variant(*vidx);
                        o.put("variant", J::s(v.name.to_string()));
                        o.put(
                            "fields",
                            J::Arr(v.fields.iter().map(|f| J::s(f.name.to_string())).collect()),
                        );
                    }
                    AggregateKind::Closure(did, _) => {
                        o.put("ak", J::s("closure"));
                        o.put("closure", J::s(tcx.def_path_str(*did)));
                    }
                    other => {
                        o.put("ak", J::s(format!("{:?}", other)));
                    }
                }
                o.put("ops", J::Arr(ops.iter().map(|x| self.operand(x)).collect()));
                o
            }
            Rvalue::CopyForDeref(p) => J::k("copyforderef").with("p", self.place(p)),
            other => J::k("otherrv").with("dbg", J::s(format!("{:?}", other))),
        }
    }

    fn dump(&self) -> J {
        let body = self.body;
        let mut o = J::obj();
        o.put("arg_count", J::Int(body.arg_count as i128));
        // locals
        let mut names: Vec<Option<String>> = vec![None; body.local_decls.len()];
        let mut dbg = Vec::new();
        for vdi in &body.var_debug_info {
            if let mir::VarDebugInfoContents::Place(p) = &vdi.value {
                if p.projection.is_empty() {
                    names[p.local.as_usize()] = Some(vdi.name.to_string());
                }
                dbg.push(
                    J::obj().with("name", J::s(vdi.name.to_string())).with("p", self.place(p)),
                );
            }
        }
        o.put("debug", J::Arr(dbg));
        let mut locals = Vec::new();
        for (i, d) in body.local_decls.iter_enumerated() {
            let mut lo = J::obj();
            lo.put("ty", J::s(d.ty.to_string()));
            if let Some(n) = &names[i.as_usize()] {
                lo.put("name", J::s(n.clone()));
            }
            if d.mutability.is_mut() {
                lo.put("mut", J::Bool(true));
            }
            locals.push(lo);
        }
        o.put("locals", J::Arr(locals));
        let mut blocks = Vec::new();
        for (_bb, data) in body.basic_blocks.iter_enumerated() {
            let mut bo = J::obj();
            if data.is_cleanup {
                bo.put("cleanup", J::Bool(true));
            }
            let mut stmts = Vec::new();
            for st in &data.statements {
                let mut so = match &st.kind {
                    StatementKind::Assign(b) => {
                        let (p, rv) = &**b;
                        J::k("assign").with("p", self.place(p)).with("rv", self.rvalue(rv))
                    }
                    StatementKind::SetDiscriminant { place, variant_index } => J::k("setdiscr")
                        .with("p", self.place(place))
                        .with("v", J::Int(variant_index.as_usize() as i128)),
                    StatementKind::StorageLive(_)
                    | StatementKind::StorageDead(_)
                    | StatementKind::FakeRead(..)
                    | StatementKind::PlaceMention(..)
                    | StatementKind::AscribeUserType(..)
                    | StatementKind::Coverage(..)
                    | StatementKind::ConstEvalCounter
                    | StatementKind::Nop
                    | StatementKind::BackwardIncompatibleDropHint { .. } => continue,
                    other => J::k("otherstmt").with("dbg", J::s(format!("{:?}", other))),
                };
                so.put("sp", self.cx.span(st.source_info.span));
                so.put("se", self.cx.span_end(st.source_info.span));
                if let Some(x) = self.cx.expn_inner(st.source_info.span) {
                    so.put("exp", J::s(x));
                }
                stmts.push(so);
            }
            bo.put("stmts", J::Arr(stmts));
            let term = data.terminator();
            let mut to = match &term.kind {
                TerminatorKind::Goto { target } => J::k("goto").with("target", self.bb(*target)),
                TerminatorKind::SwitchInt { discr, targets } => {
                    let mut o = J::k("switch");
                    o.put("discr", self.operand(discr));
                    o.put(
                        "targets",
                        J::Arr(
                            targets
                                .iter()
                                .map(|(v, t)| J::Arr(vec![J::Int(v as i128), self.bb(t)]))
                                .collect(),
                        ),
                    );
                    o.put("otherwise", self.bb(targets.otherwise()));
                    o
                }
                TerminatorKind::Return => J::k("return"),
                TerminatorKind::Unreachable => J::k("unreachable"),
                TerminatorKind::UnwindResume => J::k("resume"),
                TerminatorKind::UnwindTerminate(_) => J::k("terminate"),
                TerminatorKind::Drop { place, target, .. } => {
                    J::k("drop").with("p", self.place(place)).with("target", self.bb(*target))
                }
                TerminatorKind::Call { func, args, destination, target, .. } => {
                    let mut o = J::k("call");
                    o.put("func", self.operand(func));
                    o.put("args", J::Arr(args.iter().map(|a| self.operand(&a.node)).collect()));
                    o.put("dest", self.place(destination));
                    if let Some(t) = target {
                        o.put("target", self.bb(*t));
                    }
                    o
                }
                TerminatorKind::Assert { cond, expected, msg, target, .. } => {
                    let mut o = J::k("assert");
                    o.put("cond", self.operand(cond));
                    o.put("expected", J::Bool(*expected));
                    let (kind, ops): (String, Vec<J>) = match &**msg {
                        AssertKind::BoundsCheck { len, index } => {
                            ("BoundsCheck".into(), vec![self.operand(len), self.operand(index)])
                        }
                        AssertKind::Overflow(op, a, b) => {
                            (format!("Overflow({:?})", op), vec![self.operand(a), self.operand(b)])
                        }
                        AssertKind::OverflowNeg(a) => ("OverflowNeg".into(), vec![self.operand(a)]),
                        AssertKind::DivisionByZero(a) => {
                            ("DivisionByZero".into(), vec![self.operand(a)])
                        }
                        AssertKind::RemainderByZero(a) => {
                            ("RemainderByZero".into(), vec![self.operand(a)])
                        }
                        other => (format!("{:?}", other), vec![]),
                    };
                    o.put("ak", J::s(kind));
                    o.put("ops", J::Arr(ops));
                    o.put("target", self.bb(*target));
                    o
                }
                TerminatorKind::FalseEdge { real_target, .. } => {
                    J::k("goto").with("target", self.bb(*real_target))
                }
                TerminatorKind::FalseUnwind { real_target, .. } => {
                    J::k("goto").with("target", self.bb(*real_target))
                }
                other => J::k("otherterm").with("dbg", J::s(format!("{:?}", other))),
            };
            to.put("sp", self.cx.span(term.source_info.span));
            to.put("se", self.cx.span_end(term.source_info.span));
            if let Some(x) = self.cx.expn_inner(term.source_info.span) {
                to.put("exp", J::s(x));
            }
            bo.put("term", to);
            blocks.push(bo);
        }
        o.put("blocks", J::Arr(blocks));
        o
    }
}
