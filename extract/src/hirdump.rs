//! Typed, resolved HIR expression trees.
use crate::json::J;
use crate::Cx;
use rustc_ast::ast::LitKind;
use rustc_hir as hir;
use rustc_hir::def::{DefKind, Res};
use rustc_hir::def_id::{DefId, LocalDefId};
use rustc_hir::{Expr, ExprKind, Pat, PatExpr, PatExprKind, PatKind, QPath, StmtKind};
use rustc_middle::ty::{self, TypeckResults, TypingEnv};

pub struct H<'a, 'tcx> {
    cx: &'a Cx<'tcx>,
    tr: &'tcx TypeckResults<'tcx>,
    owner: LocalDefId,
}

pub fn dump_body<'tcx>(cx: &Cx<'tcx>, def_id: LocalDefId) -> J {
    let tcx = cx.tcx;
    if tcx.def_kind(def_id) == DefKind::Closure {
        // closures are inlined in their parent's tree
        return J::Null;
    }
    let body = tcx.hir_body_owned_by(def_id);
    let tr = tcx.typeck(def_id);
    let h = H { cx, tr, owner: def_id };
    let mut o = J::obj();
    o.put("params", J::Arr(body.params.iter().map(|p| h.pat(p.pat)).collect()));
    o.put("value", h.expr(body.value));
    o
}

impl<'a, 'tcx> H<'a, 'tcx> {
    fn local_id(&self, id: hir::HirId) -> String {
        format!("{}#{}", self.cx.tcx.hir_name(id), id.local_id.as_u32())
    }

    fn lit(&self, l: &hir::Lit, negated: bool) -> J {
        let mut o = J::k("lit");
        match &l.node {
            LitKind::Str(s, _) => {
                o.put("lt", J::s("str"));
                o.put("v", J::s(s.as_str()));
            }
            LitKind::Int(v, _) => {
                o.put("lt", J::s("int"));
                let v = v.get() as i128;
                o.put("v", J::Int(if negated { -v } else { v }));
            }
            LitKind::Float(s, _) => {
                o.put("lt", J::s("float"));
                let t = if negated { format!("-{}", s.as_str()) } else { s.as_str().to_string() };
                o.put("v", J::s(t));
            }
            LitKind::Bool(b) => {
                o.put("lt", J::s("bool"));
                o.put("v", J::Bool(*b));
            }
            LitKind::Char(c) => {
                o.put("lt", J::s("char"));
                o.put("v", J::s(c.to_string()));
            }
            LitKind::Byte(b) => {
                o.put("lt", J::s("int"));
                o.put("v", J::Int(*b as i128));
            }
            other => {
                o.put("lt", J::s("other"));
                o.put("v", J::s(format!("{:?}", other)));
            }
        }
        o
    }

    fn def_path(&self, d: DefId) -> String {
        self.cx.tcx.def_path_str(d)
    }

    fn res_json(&self, res: Res, hir_id: hir::HirId, o: &mut J) {
        let tcx = self.cx.tcx;
        match res {
            Res::Local(id) => {
                o.put("res", J::s("local"));
                o.put("name", J::s(self.local_id(id)));
            }
            Res::Def(dk, did) => {
                o.put("res", J::s("def"));
                o.put("dk", J::s(format!("{:?}", dk)));
                o.put("def", J::s(self.def_path(did)));
                if let DefKind::Ctor(..) = dk {
                    // name the variant / struct
                    let parent = tcx.parent(did);
                    o.put("ctor_of", J::s(self.def_path(parent)));
                }
                if let Some(args) = self.tr.node_args_opt(hir_id) {
                    if !args.is_empty() {
                        o.put("gargs", J::Arr(args.iter().map(|a| J::s(a.to_string())).collect()));
                    }
                    if matches!(dk, DefKind::Fn | DefKind::AssocFn) {
                        self.resolve(did, args, o);
                    }
                }
            }
            Res::SelfCtor(did) => {
                o.put("res", J::s("selfctor"));
                o.put("def", J::s(self.def_path(did)));
            }
            other => {
                o.put("res", J::s(format!("{:?}", other)));
            }
        }
    }

    fn resolve(&self, did: DefId, args: ty::GenericArgsRef<'tcx>, o: &mut J) {
        let tcx = self.cx.tcx;
        let env = TypingEnv::post_analysis(tcx, self.owner);
        // Only try when no inference/escaping placeholders can trip the resolver.
        if let Ok(Some(inst)) = ty::Instance::try_resolve(tcx, env, did, args) {
            let idef = inst.def_id();
            o.put("inst", J::s(self.def_path(idef)));
            if !inst.args.is_empty() {
                o.put(
                    "inst_args",
                    J::Arr(inst.args.iter().map(|a| J::s(a.to_string())).collect()),
                );
            }
            if let Some(impl_did) = tcx.impl_of_assoc(idef) {
                let self_ty = tcx.type_of(impl_did).instantiate_identity().skip_norm_wip();
                o.put("inst_self", J::s(self_ty.to_string()));
            }
        }
    }

    fn qpath(&self, q: &QPath<'tcx>, hir_id: hir::HirId, o: &mut J) {
        let res = self.tr.qpath_res(q, hir_id);
        self.res_json(res, hir_id, o);
    }

    pub fn pat(&self, p: &Pat<'tcx>) -> J {
        let mut o = match &p.kind {
            PatKind::Wild | PatKind::Missing => J::k("wild"),
            PatKind::Binding(mode, id, ident, sub) => {
                let mut o = J::k("bind");
                o.put("name", J::s(self.local_id(*id)));
                o.put("ident", J::s(ident.as_str()));
                o.put("mode", J::s(format!("{:?}", mode)));
                if let Some(s) = sub {
                    o.put("sub", self.pat(s));
                }
                o
            }
            PatKind::Struct(q, fields, _) => {
                let mut o = J::k("pstruct");
                self.qpath(q, p.hir_id, &mut o);
                o.put(
                    "fields",
                    J::Arr(
                        fields
                            .iter()
                            .map(|f| {
                                J::obj()
                                    .with("name", J::s(f.ident.as_str()))
                                    .with("pat", self.pat(f.pat))
                            })
                            .collect(),
                    ),
                );
                o
            }
            PatKind::TupleStruct(q, ps, _) => {
                let mut o = J::k("ptstruct");
                self.qpath(q, p.hir_id, &mut o);
                o.put("ps", J::Arr(ps.iter().map(|x| self.pat(x)).collect()));
                o
            }
            PatKind::Or(ps) => J::k("por").with("ps", J::Arr(ps.iter().map(|x| self.pat(x)).collect())),
            PatKind::Tuple(ps, ddpos) => {
                let mut o = J::k("ptuple");
                o.put("ps", J::Arr(ps.iter().map(|x| self.pat(x)).collect()));
                if let Some(i) = ddpos.as_opt_usize() {
                    o.put("dotdot", J::Int(i as i128));
                }
                o
            }
            PatKind::Box(s) | PatKind::Deref(s) => J::k("pderef").with("p", self.pat(s)),
            PatKind::Ref(s, _, m) => {
                J::k("pref").with("p", self.pat(s)).with("mut", J::Bool(m.is_mut()))
            }
            PatKind::Expr(e) => self.pat_expr(e),
            PatKind::Range(lo, hi, end) => {
                let mut o = J::k("prange");
                if let Some(l) = lo {
                    o.put("lo", self.pat_expr(l));
                }
                if let Some(h) = hi {
                    o.put("hi", self.pat_expr(h));
                }
                o.put("end", J::s(format!("{:?}", end)));
                o
            }
            PatKind::Guard(s, g) => {
                J::k("pguard").with("p", self.pat(s)).with("guard", self.expr(g))
            }
            PatKind::Slice(a, m, b) => {
                let mut o = J::k("pslice");
                o.put("before", J::Arr(a.iter().map(|x| self.pat(x)).collect()));
                if let Some(m) = m {
                    o.put("mid", self.pat(m));
                }
                o.put("after", J::Arr(b.iter().map(|x| self.pat(x)).collect()));
                o
            }
            PatKind::Never | PatKind::Err(_) => J::k("pother"),
        };
        o.put("ty", J::s(self.tr.pat_ty(p).to_string()));
        o
    }

    fn pat_expr(&self, e: &PatExpr<'tcx>) -> J {
        match &e.kind {
            PatExprKind::Lit { lit, negated } => {
                let mut o = self.lit(lit, *negated);
                if let J::Obj(v) = &mut o {
                    v[0].1 = J::s("plit");
                }
                o
            }
            PatExprKind::Path(q) => {
                let mut o = J::k("ppath");
                self.qpath(q, e.hir_id, &mut o);
                o
            }
        }
    }

    fn block(&self, b: &hir::Block<'tcx>) -> J {
        let mut o = J::k("block");
        let mut stmts = Vec::new();
        for s in b.stmts {
            match &s.kind {
                StmtKind::Let(l) => {
                    let mut so = J::k("let");
                    so.put("pat", self.pat(l.pat));
                    if let Some(i) = l.init {
                        so.put("init", self.expr(i));
                    }
                    if let Some(e) = l.els {
                        so.put("els", self.block(e));
                    }
                    so.put("sp", self.cx.span(s.span));
                    stmts.push(so);
                }
                StmtKind::Item(_) => {}
                StmtKind::Expr(e) | StmtKind::Semi(e) => {
                    let mut so = J::k("semi");
                    so.put("e", self.expr(e));
                    stmts.push(so);
                }
            }
        }
        o.put("stmts", J::Arr(stmts));
        if let Some(e) = b.expr {
            o.put("e", self.expr(e));
        }
        if !matches!(b.rules, hir::BlockCheckMode::DefaultBlock) {
            o.put("unsafe", J::Bool(true));
        }
        o
    }

    pub fn expr(&self, e: &Expr<'tcx>) -> J {
        let tcx = self.cx.tcx;
        let mut o = match &e.kind {
            ExprKind::DropTemps(inner) | ExprKind::Use(inner, _) => return self.expr(inner),
            ExprKind::Type(inner, _) => return self.expr(inner),
            ExprKind::Lit(l) => self.lit(l, false),
            ExprKind::ConstBlock(_) => J::k("constblock"),
            ExprKind::Array(es) => {
                J::k("array").with("es", J::Arr(es.iter().map(|x| self.expr(x)).collect()))
            }
            ExprKind::Tup(es) => {
                J::k("tup").with("es", J::Arr(es.iter().map(|x| self.expr(x)).collect()))
            }
            ExprKind::Call(f, args) => {
                let mut o = J::k("call");
                o.put("f", self.expr(f));
                o.put("args", J::Arr(args.iter().map(|x| self.expr(x)).collect()));
                o
            }
            ExprKind::MethodCall(seg, recv, args, _) => {
                let mut o = J::k("mcall");
                o.put("m", J::s(seg.ident.as_str()));
                if let Some(did) = self.tr.type_dependent_def_id(e.hir_id) {
                    o.put("def", J::s(self.def_path(did)));
                    let gargs = self.tr.node_args(e.hir_id);
                    if !gargs.is_empty() {
                        o.put("gargs", J::Arr(gargs.iter().map(|a| J::s(a.to_string())).collect()));
                    }
                    self.resolve(did, gargs, &mut o);
                }
                o.put("recv", self.expr(recv));
                o.put("recv_adj", J::s(self.tr.expr_ty_adjusted(recv).to_string()));
                o.put("args", J::Arr(args.iter().map(|x| self.expr(x)).collect()));
                o
            }
            ExprKind::Binary(op, l, r) => {
                let mut o = J::k("bin");
                o.put("op", J::s(format!("{:?}", op.node)));
                o.put("l", self.expr(l));
                o.put("r", self.expr(r));
                if self.tr.is_method_call(e) {
                    o.put("ovl", J::Bool(true));
                    if let Some(did) = self.tr.type_dependent_def_id(e.hir_id) {
                        o.put("def", J::s(self.def_path(did)));
                        self.resolve(did, self.tr.node_args(e.hir_id), &mut o);
                    }
                }
                o
            }
            ExprKind::Unary(op, x) => {
                let mut o = J::k("un");
                o.put("op", J::s(format!("{:?}", op)));
                o.put("e", self.expr(x));
                if self.tr.is_method_call(e) {
                    o.put("ovl", J::Bool(true));
                    if let Some(did) = self.tr.type_dependent_def_id(e.hir_id) {
                        o.put("def", J::s(self.def_path(did)));
                        self.resolve(did, self.tr.node_args(e.hir_id), &mut o);
                    }
                }
                o
            }
            ExprKind::Cast(x, _) => J::k("cast").with("e", self.expr(x)),
            ExprKind::Let(l) => {
                J::k("letx").with("pat", self.pat(l.pat)).with("e", self.expr(l.init))
            }
            ExprKind::If(c, t, el) => {
                let mut o = J::k("if");
                o.put("c", self.expr(c));
                o.put("t", self.expr(t));
                if let Some(el) = el {
                    o.put("e", self.expr(el));
                }
                o
            }
            ExprKind::Loop(b, label, src, _) => {
                let mut o = J::k("loop");
                o.put("src", J::s(format!("{:?}", src)));
                if let Some(l) = label {
                    o.put("label", J::s(l.ident.as_str()));
                }
                o.put("id", J::Int(e.hir_id.local_id.as_u32() as i128));
                o.put("body", self.block(b));
                o
            }
            ExprKind::Match(s, arms, src) => {
                let mut o = J::k("match");
                o.put("src", J::s(format!("{:?}", src)));
                o.put("e", self.expr(s));
                o.put(
                    "arms",
                    J::Arr(
                        arms.iter()
                            .map(|a| {
                                let mut ao = J::obj();
                                ao.put("pat", self.pat(a.pat));
                                if let Some(g) = a.guard {
                                    ao.put("guard", self.expr(g));
                                }
                                ao.put("body", self.expr(a.body));
                                ao.put("sp", self.cx.span(a.span));
                                ao
                            })
                            .collect(),
                    ),
                );
                o
            }
            ExprKind::Closure(c) => {
                let mut o = J::k("closure");
                o.put("def", J::s(self.def_path(c.def_id.to_def_id())));
                o.put("move", J::Bool(matches!(c.capture_clause, hir::CaptureBy::Value { .. })));
                let body = tcx.hir_body(c.body);
                o.put("params", J::Arr(body.params.iter().map(|p| self.pat(p.pat)).collect()));
                o.put("body", self.expr(body.value));
                // captures
                let caps = self.tr.closure_min_captures_flattened(c.def_id);
                o.put(
                    "captures",
                    J::Arr(
                        caps.map(|cp| {
                            let mut co = J::obj();
                            co.put("place", J::s(cp.to_string(tcx)));
                            co.put("by", J::s(format!("{:?}", cp.info.capture_kind)));
                            co
                        })
                        .collect(),
                    ),
                );
                o
            }
            ExprKind::Block(b, label) => {
                let mut o = self.block(b);
                if let Some(l) = label {
                    o.put("label", J::s(l.ident.as_str()));
                }
                o
            }
            ExprKind::Assign(l, r, _) => {
                J::k("assign").with("l", self.expr(l)).with("r", self.expr(r))
            }
            ExprKind::AssignOp(op, l, r) => {
                let mut o = J::k("assignop");
                o.put("op", J::s(format!("{:?}", op.node)));
                o.put("l", self.expr(l));
                o.put("r", self.expr(r));
                if self.tr.is_method_call(e) {
                    o.put("ovl", J::Bool(true));
                    if let Some(did) = self.tr.type_dependent_def_id(e.hir_id) {
                        o.put("def", J::s(self.def_path(did)));
                        self.resolve(did, self.tr.node_args(e.hir_id), &mut o);
                    }
                }
                o
            }
            ExprKind::Field(x, ident) => {
                J::k("field").with("e", self.expr(x)).with("f", J::s(ident.as_str()))
            }
            ExprKind::Index(x, i, _) => {
                let mut o = J::k("index");
                o.put("e", self.expr(x));
                o.put("i", self.expr(i));
                o.put("base_adj", J::s(self.tr.expr_ty_adjusted(x).to_string()));
                if self.tr.is_method_call(e) {
                    o.put("ovl", J::Bool(true));
                    if let Some(did) = self.tr.type_dependent_def_id(e.hir_id) {
                        o.put("def", J::s(self.def_path(did)));
                        self.resolve(did, self.tr.node_args(e.hir_id), &mut o);
                    }
                }
                o
            }
            ExprKind::Path(q) => {
                let mut o = J::k("path");
                self.qpath(q, e.hir_id, &mut o);
                o
            }
            ExprKind::AddrOf(_, m, x) => {
                J::k("ref").with("mut", J::Bool(m.is_mut())).with("e", self.expr(x))
            }
            ExprKind::Break(dest, x) => {
                let mut o = J::k("break");
                if let Ok(t) = dest.target_id {
                    o.put("target", J::Int(t.local_id.as_u32() as i128));
                }
                if let Some(x) = x {
                    o.put("e", self.expr(x));
                }
                o
            }
            ExprKind::Continue(dest) => {
                let mut o = J::k("continue");
                if let Ok(t) = dest.target_id {
                    o.put("target", J::Int(t.local_id.as_u32() as i128));
                }
                o
            }
            ExprKind::Ret(x) => {
                let mut o = J::k("ret");
                if let Some(x) = x {
                    o.put("e", self.expr(x));
                }
                o
            }
            ExprKind::Struct(q, fields, tail) => {
                let mut o = J::k("struct");
                self.qpath(q, e.hir_id, &mut o);
                o.put(
                    "fields",
                    J::Arr(
                        fields
                            .iter()
                            .map(|f| {
                                J::obj()
                                    .with("name", J::s(f.ident.as_str()))
                                    .with("e", self.expr(f.expr))
                            })
                            .collect(),
                    ),
                );
                if let hir::StructTailExpr::Base(b) = tail {
                    o.put("base", self.expr(b));
                }
                o
            }
            ExprKind::Repeat(x, _) => J::k("repeat").with("e", self.expr(x)),
            ExprKind::Become(_)
            | ExprKind::InlineAsm(_)
            | ExprKind::OffsetOf(..)
            | ExprKind::Yield(..)
            | ExprKind::UnsafeBinderCast(..)
            | ExprKind::Err(_) => J::k("other"),
        };
        o.put("ty", J::s(self.tr.expr_ty(e).to_string()));
        o.put("sp", self.cx.span(e.span));
        o.put("se", self.cx.span_end(e.span));
        if let Some(x) = self.cx.expn_inner(e.span) {
            o.put("exp", J::s(x));
        }
        // explicit adjustments (auto-deref / auto-ref) count, so that readers can tell
        // `x` used as `*x` or `&x`
        let adj = self.tr.expr_adjustments(e);
        if !adj.is_empty() {
            o.put(
                "adj",
                J::Arr(adj.iter().map(|a| J::s(format!("{:?}", a.kind))).collect()),
            );
            o.put("ty_adj", J::s(self.tr.expr_ty_adjusted(e).to_string()));
        }
        o
    }
}
