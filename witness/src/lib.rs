//! Compile-fail witnesses (type-level remainder of the C17 / C12 / C02 rules).
//!
//! Each witness is a `compile_fail,E0xxx` doctest written as an external user of the crate would write it, paired with a
//! compile-only (`no_run`) twin that differs only in the offending line (a witness whose path is merely wrong also "fails to compile").
//! Run with `cargo +nightly test --doc --offline` (stable ignores the error code).

/// W1 (C17-X4): the mirrored lists of a `SparseMatrix` cannot be touched from outside the module.
/// ```compile_fail,E0616
/// let mut h = ldpc_toolbox::sparse::SparseMatrix::new(2, 3);
/// h.rows.push(vec![]); // private field
/// ```
/// ```compile_fail,E0616
/// let mut h = ldpc_toolbox::sparse::SparseMatrix::new(2, 3);
/// h.cols.clear(); // private field
/// ```
/// Twin: the public mutators are the only way in.
/// ```no_run
/// let mut h = ldpc_toolbox::sparse::SparseMatrix::new(2, 3);
/// h.insert(1, 2);
/// assert!(h.contains(1, 2));
/// ```
pub struct W1SparseMatrixFieldsArePrivate;

/// W2 (C02/C12/C14): a `GF2` holding anything but 0 or 1 cannot be forged.
/// ```compile_fail,E0603
/// let x = ldpc_toolbox::gf2::GF2(2); // private tuple-struct constructor
/// ```
/// Twin: values come from `Zero`/`One`/arithmetic only.
/// ```no_run
/// use num_traits::{One, Zero};
/// let x = ldpc_toolbox::gf2::GF2::one() + ldpc_toolbox::gf2::GF2::one();
/// assert!(x.is_zero());
/// ```
pub struct W2Gf2CannotBeForged;

/// W3 (C12-B4): the channel noise types are sealed: no third `ChannelType` can be added from outside.
/// ```compile_fail,E0277
/// use ldpc_toolbox::simulation::channel::{AwgnChannel, ChannelType};
/// #[derive(Clone, Copy)]
/// struct Mine(f64);
/// impl std::ops::AddAssign for Mine { fn add_assign(&mut self, o: Mine) { self.0 += o.0 } }
/// impl ChannelType for Mine {
///     fn noise<R: rand::Rng>(_: &AwgnChannel, _: &mut R) -> Mine { Mine(0.0) }
/// }
/// ```
/// Twin: the two sealed implementations are usable.
/// ```no_run
/// use ldpc_toolbox::simulation::channel::{AwgnChannel, Channel};
/// let ch = AwgnChannel::new(0.0);
/// let mut x = [1.0f64, -1.0];
/// ch.add_noise(&mut rand::rng(), &mut x);
/// assert_eq!(x, [1.0, -1.0]);
/// ```
pub struct W3ChannelTypeIsSealed;
