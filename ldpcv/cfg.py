"""A1: CFG utilities over the MIR dump: successors, dominators, reachability."""


def successors(blocks, i):
    t = blocks[i]["term"]
    k = t["k"]
    out = []
    if k in ("goto", "drop", "assert"):
        out.append(t["target"])
    elif k == "call":
        if "target" in t:
            out.append(t["target"])
    elif k == "switch":
        out += [x[1] for x in t["targets"]] + [t["otherwise"]]
    return out


def dominators(blocks):
    n = len(blocks)
    preds = {i: [] for i in range(n)}
    for i in range(n):
        for s in successors(blocks, i):
            preds[s].append(i)
    dom = {i: set(range(n)) for i in range(n)}
    dom[0] = {0}
    changed = True
    while changed:
        changed = False
        for i in range(1, n):
            ps = [dom[p] for p in preds[i]]
            new = (set.intersection(*ps) if ps else set()) | {i}
            if new != dom[i]:
                dom[i] = new
                changed = True
    return dom, preds


def reachable_from(blocks, start, avoid=()):
    seen = set()
    work = [start]
    while work:
        b = work.pop()
        if b in seen or b in avoid:
            continue
        seen.add(b)
        work += successors(blocks, b)
    return seen
