"""ldpcv: static-analysis checks for ldpc-toolbox properties C01..C20.

usage: python3 -m ldpcv <property id> [--tier quick|thorough]
exit 0 = property's decided clauses hold; exit 1 + VIOLATION line = a rule instance failed;
exit 2 + ANALYSIS-ERROR line = the tree could not be analysed (fail closed, no verdict).
"""
import argparse
import importlib
import os
import sys
import time
import traceback

from .extract import AnalysisError, canary_facts, repo_facts
from .facts import Facts
from .report import Check, write_error_evidence


def main():
    ap = argparse.ArgumentParser()
    ap.add_argument("pid")
    ap.add_argument("--tier", default=os.environ.get("VERIF_TIER", "quick"))
    args = ap.parse_args()
    tier = args.tier if args.tier in ("quick", "thorough") else "quick"
    pid = args.pid.upper()
    try:
        seed = int(os.environ.get("VERIF_SEED", "0"))
    except ValueError:
        seed = 0
    t0 = time.time()
    try:
        mod = importlib.import_module("ldpcv.rules." + pid.lower())
    except ImportError as e:
        print("no rule module for %s: %s" % (pid, e))
        return 2
    level = getattr(mod, "LEVEL", "other")
    try:
        fdir, key, fresh, secs = repo_facts()
        print("facts: %s (%s, %.1fs)" % (fdir, "extracted now" if fresh else "cache hit: same tree contents", secs))
        F = Facts(fdir)
        cdir, ckey, cfresh, csecs = canary_facts()
        C = Facts(cdir, files=("ldpcv_canary-lib.json",))
        ck = Check(pid, tier, level, seed)
        ck.t0 = t0
        ck.extra["facts_key"] = key
        ck.extra["bodies_in_lib"] = len(F.by_crate["ldpc_toolbox-lib"])
        if hasattr(mod, "selftest"):
            mod.selftest(C)
        mod.run(ck, F, tier)
        return ck.finish()
    except AnalysisError as e:
        msg = str(e)
        print("ANALYSIS-ERROR property=%s %s" % (pid, msg))
        write_error_evidence(pid, tier, level, seed, msg, t0)
        return 2
    except Exception as e:  # a crash of the checker is not a verdict either
        traceback.print_exc()
        msg = "checker crashed: %r" % (e,)
        pend = getattr(locals().get("ck"), "pending_floors", None)
        if pend:
            msg = pend[0] + " [then: %r]" % (e,)
        print("ANALYSIS-ERROR property=%s %s" % (pid, msg))
        write_error_evidence(pid, tier, level, seed, msg, t0)
        return 2


if __name__ == "__main__":
    sys.exit(main())
