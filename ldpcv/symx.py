"""A6/A7: symbolic evaluation of straight-line HIR into polynomial / rational normal forms.

Values
  Poly   multivariate polynomial with Fraction coefficients over hashable *atoms*
  Rat    quotient of two Polys (real-mode division); equality by cross-multiplication
  other  ('tuple', [...]), ('closure', node, env), ('struct', name, {field: value}),
         ('variant', name), ('str', s), ('bool', b), ('array', [...])
Atoms are tuples: ('v', name) variables / parameters, ('f', fname, arg_key...) uninterpreted
applications (includes idiv, mod, sqrt, ...). No solver is involved: two expressions are
"the same" iff their normal forms are identical.
"""
from fractions import Fraction

from .extract import AnalysisError
from .facts import callee, callee_inst, strip, walk


class Unsupported(Exception):
    pass


_INTERN = {}


def order_of(x):
    """Small integer identifying a hashable value up to structural equality (first-seen order).
    Used instead of repr() for canonical ordering: cheap even for deeply nested symbolic values."""
    i = _INTERN.get(x)
    if i is None:
        i = len(_INTERN)
        _INTERN[x] = i
    return i


class Poly:
    __slots__ = ("t", "_key", "_hash", "_repr")

    def __init__(self, terms=None):
        self.t = {k: v for k, v in (terms or {}).items() if v != 0}
        self._key = None
        self._hash = None
        self._repr = None

    @staticmethod
    def const(c):
        c = Fraction(c)
        return Poly({(): c})

    @staticmethod
    def atom(a):
        return Poly({((a, 1),): Fraction(1)})

    def is_const(self):
        return all(k == () for k in self.t)

    def const_value(self):
        return self.t.get((), Fraction(0)) if self.is_const() else None

    def __add__(self, o):
        r = dict(self.t)
        for k, v in o.t.items():
            r[k] = r.get(k, 0) + v
        return Poly(r)

    def __neg__(self):
        return Poly({k: -v for k, v in self.t.items()})

    def __sub__(self, o):
        return self + (-o)

    def __mul__(self, o):
        r = {}
        for k1, v1 in self.t.items():
            for k2, v2 in o.t.items():
                d = dict(k1)
                for a, e in k2:
                    d[a] = d.get(a, 0) + e
                k = tuple(sorted(d.items(), key=lambda it: order_of(it[0])))
                r[k] = r.get(k, 0) + v1 * v2
        return Poly(r)

    def key(self):
        if self._key is None:
            self._key = tuple(sorted(((k, v) for k, v in self.t.items()), key=lambda it: tuple(order_of(a) for a, _ in it[0])))
        return self._key

    def __eq__(self, o):
        return isinstance(o, Poly) and (self is o or self.key() == o.key())

    def __hash__(self):
        if self._hash is None:
            self._hash = hash(self.key())
        return self._hash

    def atoms(self):
        s = set()
        for k in self.t:
            for a, _ in k:
                s.add(a)
        return s

    def atoms_deep(self):
        """all atoms, including those inside the arguments of other atoms"""
        out = set()
        stack = [self]
        while stack:
            x = stack.pop()
            if isinstance(x, Poly):
                for k in x.t:
                    for a, _ in k:
                        if a not in out:
                            out.add(a)
                            if a[0] == "f":
                                stack.extend(a[2:])
            elif isinstance(x, tuple):
                if len(x) == 2 and x[0] == "P" and isinstance(x[1], Poly):
                    stack.append(x[1])
                else:
                    stack.extend(y for y in x if isinstance(y, (tuple, Poly)))
        return out

    def __repr__(self):
        if self._repr is None:
            self._repr = self._mkrepr()
        return self._repr

    def _mkrepr(self):
        if not self.t:
            return "0"
        parts = []
        for k, v in sorted(self.t.items(), key=lambda it: tuple(fmt_atom(a) for a, _ in it[0])):
            mon = "*".join((fmt_atom(a) + ("^%d" % e if e != 1 else "")) for a, e in k)
            if mon == "":
                parts.append(str(v))
            elif v == 1:
                parts.append(mon)
            elif v == -1:
                parts.append("-" + mon)
            else:
                parts.append("%s*%s" % (v, mon))
        return " + ".join(parts)


_FMT = {}


def fmt_atom(a):
    r = _FMT.get(a)
    if r is None:
        if a[0] == "v":
            r = a[1]
        elif a[0] == "f":
            r = "%s(%s)" % (a[1], ", ".join(fmt_key(x) for x in a[2:]))
        else:
            r = repr(a)
        _FMT[a] = r
    return r


def fmt_key(k):
    if isinstance(k, tuple) and k and k[0] == "P":
        return repr(k[1])
    return repr(k)


class Rat:
    __slots__ = ("n", "d")

    def __init__(self, n, d=None):
        self.n = n
        self.d = d if d is not None else Poly.const(1)

    def __eq__(self, o):
        if isinstance(o, Poly):
            o = Rat(o)
        return isinstance(o, Rat) and (self.n * o.d) == (o.n * self.d)

    def __hash__(self):
        return 0

    def __repr__(self):
        return "(%r)/(%r)" % (self.n, self.d)


def to_rat(v):
    if isinstance(v, Rat):
        return v
    if isinstance(v, Poly):
        return Rat(v)
    raise Unsupported("not numeric: %r" % (v,))


def vkey(v):
    """Hashable key of a value, used as argument of uninterpreted applications."""
    if isinstance(v, Poly):
        return ("P", v)
    if isinstance(v, Rat):
        return ("R", v.n, v.d)
    if isinstance(v, tuple):
        if v and v[0] == "closure" and isinstance(v[1], dict):
            return ("closure", v[1].get("def"))
        return tuple(vkey(x) if not isinstance(x, (str, int, bool, type(None))) else x for x in v)
    if isinstance(v, list):
        return tuple(vkey(x) for x in v)
    if isinstance(v, dict):
        return tuple(sorted((k, vkey(x)) for k, x in v.items()))
    return v


def unkey(k):
    """inverse of vkey for the value kinds that are read back out of atoms (polynomials, tuples, arrays, constructors, structs)"""
    if isinstance(k, tuple):
        if len(k) == 2 and k[0] == "P" and isinstance(k[1], Poly):
            return k[1]
        if len(k) == 3 and k[0] == "R" and isinstance(k[1], Poly):
            return Rat(k[1], k[2])
        if len(k) == 2 and k[0] in ("tuple", "array") and isinstance(k[1], tuple):
            return (k[0], [unkey(x) for x in k[1]])
        if len(k) == 3 and k[0] == "ctor" and isinstance(k[2], tuple):
            return ("ctor", k[1], [unkey(x) for x in k[2]])
        if len(k) == 3 and k[0] == "struct" and isinstance(k[2], tuple):
            return ("struct", k[1], {f: unkey(x) for f, x in k[2]})
    return k


def app(fname, *args):
    return Poly.atom(("f", fname) + tuple(vkey(a) for a in args))


def var(name):
    return Poly.atom(("v", name))


def num(v):
    return Poly.const(v)


IDENTITY_CALLS = {
    "std::convert::From::from", "std::convert::Into::into", "std::clone::Clone::clone",
    "std::borrow::Borrow::borrow", "std::convert::identity", "std::borrow::ToOwned::to_owned",
    # views of the same string / slice / vector contents
    "std::string::String::as_str", "std::ops::Deref::deref", "std::convert::AsRef::as_ref", "std::convert::AsMut::as_mut", "std::vec::Vec::<T, A>::as_slice",
    "std::vec::Vec::<T>::as_slice", "std::string::String::as_mut_str", "std::ops::DerefMut::deref_mut",
    # borrowed views of an Option: the same optional value
    "std::option::Option::<T>::as_ref", "std::option::Option::<T>::as_mut", "std::option::Option::<T>::as_deref",
    "std::option::Option::<T>::as_deref_mut",
    # Option<&T> -> Option<T>: the same optional value for a Copy/Clone payload
    "std::option::Option::<&T>::copied", "std::option::Option::<&T>::cloned",
    "std::option::Option::<&mut T>::copied", "std::option::Option::<&mut T>::cloned",
}
REAL_FUNCS = {"sqrt", "exp", "ln", "ln_1p", "tanh", "atanh", "abs", "round", "floor", "powf", "powi",
              "max", "min", "clamp", "unsigned_abs", "saturating_add", "saturating_sub"}


def const_key(v):
    """Key of a fully constant value as produced by tables.pat_key, else None."""
    if isinstance(v, tuple) and v:
        if v[0] in ("variant", "bool", "str"):
            return v[1]
        if v[0] == "tuple":
            ks = [const_key(x) for x in v[1]]
            return None if any(k is None for k in ks) else tuple(ks)
        if v[0] == "ctor" and len(v) == 3:
            # a constructor applied to (possibly symbolic) payloads: the variant is known, the payloads only match catch-alls
            return (v[1],) + tuple(const_key(x) if const_key(x) is not None else ANY_PAYLOAD for x in v[2])
        return None
    if isinstance(v, Poly):
        c = v.const_value()
        if c is not None and c.denominator == 1:
            return int(c)
    return None


ANY_PAYLOAD = "<?>"


def key_matches(pk, ck):
    if pk == "_":
        return True
    if ck == ANY_PAYLOAD:
        raise Unsupported("pattern inspects a symbolic payload")
    if isinstance(pk, tuple) and isinstance(ck, tuple) and len(pk) == len(ck) and (not pk or pk[0] not in ("|", "?", "range")):
        return all(key_matches(a, b) for a, b in zip(pk, ck))
    return pk == ck


PANIC_RX = ("core::panicking::", "std::rt::begin_panic", "std::rt::panic_fmt", "core::panicking::assert_failed")


def _panics(n):
    """n is a block/expression that unconditionally ends in a call to a panic entry point."""
    n = strip(n)
    if n.get("k") in ("call", "mcall"):
        return (callee(n) or "").startswith(PANIC_RX)
    if n.get("k") == "block":
        last = n.get("e")
        if last is None and n.get("stmts"):
            st = n["stmts"][-1]
            last = st.get("e") if st.get("k") == "semi" else None
        pre = n.get("stmts", [])[:-1] if n.get("e") is None else n.get("stmts", [])
        if any(st.get("k") != "let" for st in pre):
            return False
        return last is not None and _panics(last)
    return False


def is_assert(e):
    """`assert!`/`assert_eq!`-like statement: `if c { panic }` (possibly under a single-arm match / block)."""
    e = strip(e)
    k = e.get("k")
    if k == "if" and "e" not in e:
        return _panics(e["t"])
    if k == "match" and len(e.get("arms", [])) == 1 and "guard" not in e["arms"][0]:
        return is_assert(e["arms"][0]["body"])
    if k == "block" and not e.get("stmts") and e.get("e") is not None:
        return is_assert(e["e"])
    if k == "block" and len(e.get("stmts", [])) == 1 and e.get("e") is None and e["stmts"][0].get("k") == "semi":
        return is_assert(e["stmts"][0]["e"])
    return False


import re as _re
STD_NUM_RX = _re.compile(r"(?:std|core)::(?:f32|f64|num)::<impl (\w+)>::(\w+)$")


def single_atom(v):
    """The atom a when v == 1*a, else None."""
    if isinstance(v, Poly) and len(v.t) == 1:
        (mono, c), = v.t.items()
        if c == 1 and len(mono) == 1 and mono[0][1] == 1:
            return mono[0][0]
    return None


def atom_fn(a):
    return a[1] if a and a[0] == "f" else None


def atom_args(a):
    """Arguments of an application atom, with ('P', poly) keys unwrapped to the Poly."""
    out = []
    for k in a[2:]:
        out.append(k[1] if isinstance(k, tuple) and len(k) == 2 and k[0] == "P" else k)
    return out


def contains_atom(v, pred):
    """does value v (Poly / nested keys) contain an atom satisfying pred (recursively through arguments)?"""
    if isinstance(v, Poly):
        for mono in v.t:
            for a, _ in mono:
                if pred(a):
                    return True
                if a[0] == "f" and any(contains_atom(k, pred) for k in a[2:]):
                    return True
        return False
    if isinstance(v, Rat):
        return contains_atom(v.n, pred) or contains_atom(v.d, pred)
    if isinstance(v, (tuple, list)):
        return any(contains_atom(x, pred) for x in v)
    return False


def num_call(name, *args):
    """canonical application of a std numeric method (f64::min, i8::abs, ..): commutative min/max with ordered operands, |p| = |-p|"""
    args = list(args)
    if name in ("max", "min") and len(args) == 2 and order_of(vkey(args[0])) > order_of(vkey(args[1])):
        args = [args[1], args[0]]
    if name == "abs" and len(args) == 1 and isinstance(args[0], Poly) and len(args[0].t) > 1:
        # one spelling: the sign that makes the first term (in a fixed order) positive
        first = min(args[0].t.items(), key=lambda kv: repr(kv[0]))
        if first[1] < 0:
            args = [-args[0]]
    return app(name, *args)


def cmp_atom(op, a, b):
    """the canonical comparison value SymEval produces for `a op b` (op in eq, ne, lt, le, gt, ge)"""
    return SymEval(None).arith(op.capitalize(), a, b)


def mk_minmax(name, a, b):
    """min/max of two values, one spelling for a.min(b), b.min(a), std::cmp::min(a, b) and the integer inherent methods"""
    if order_of(vkey(a)) > order_of(vkey(b)):
        a, b = b, a
    return app(name, a, b)


def mk_ite(c, t, e):
    """if c {t} else {e} with the condition in canonical polarity (if !c {a} else {b} == if c {b} else {a})"""
    if isinstance(c, tuple) and c and c[0] == "bool":
        return t if c[1] else e
    if isinstance(c, Poly):
        c2, pol = canon_cond(c, True)
        if not pol:
            c, t, e = c2, e, t
    if vkey(t) == vkey(e):
        return t
    ca_ = single_atom(c) if isinstance(c, Poly) else None
    if ca_ is not None and atom_fn(ca_) == "std::cmp::Ordering::is_eq" and isinstance(e, Poly) and atom_args(ca_)[0] == e:
        # if o.is_eq() { x } else { o }  is  o.then(x)
        return app("ordering_then", e, t)
    if ca_ is not None and atom_fn(ca_) == "std::cmp::Ordering::is_ne" and isinstance(t, Poly) and atom_args(ca_)[0] == t:
        return app("ordering_then", t, e)
    return app("ite", c, t, e)


def build_match(s, arms, guarded=False):
    """normal form of `match s { pat_i => v_i }` for an opaque scrutinee (arms: [(pattern key text, value)]):
    - arms that are tuples of equal length distribute: match s {p => (a, b)} = (match s {p => a}, match s {p => b});
    - when every arm computes the same function of its own payload (match r { Ok(o) => f(o), Err(o) => f(o) }) the result is
      f(either_payload(s));
    - match opt { Some(v) => v, None => d } is opt.unwrap_or(d)."""
    arms = list(arms)
    vals = [v for _, v in arms]
    if not guarded and arms and all(isinstance(v, tuple) and len(v) == 2 and v[0] == "tuple" for v in vals) and len({len(v[1]) for v in vals}) == 1 \
            and len(vals[0][1]) > 0:
        return ("tuple", [build_match(s, [(k, v[1][i]) for k, v in arms]) for i in range(len(vals[0][1]))])
    if not guarded and len(arms) == 2 and isinstance(s, Poly) and arms[0][0] == "'Equal'" and arms[1][0] == "'_'" and arms[1][1] == s \
            and "Ordering" in repr(s):
        return app("ordering_then", s, arms[0][1])
    if not guarded and len(arms) == 2 and isinstance(s, Poly) and {k for k, _ in arms} in ({"True", "False"}, {"True", "'_'"}, {"False", "'_'"}):
        # match b { true => A, false => B } is if b { A } else { B }
        by = dict(arms)
        tv = by.get("True", by.get("'_'"))
        fv = by.get("False", by.get("'_'"))
        return mk_ite(s, tv, fv)
    if not guarded and len(arms) == 2 and isinstance(s, Poly):
        sa_ = single_atom(s)
        if sa_ is not None and atom_fn(sa_) == "bool_to_option":
            # match c.then_some(..)-like option { Some(_) => x, None => y } is if c { x } else { y }
            by_ = dict(arms)
            some_ = [k for k in by_ if k.startswith("('Some'")]
            none_ = [k for k in by_ if k not in some_]
            if len(some_) == 1 and len(none_) == 1:
                return mk_ite(unkey(atom_args(sa_)[0]), by_[some_[0]], by_[none_[0]])
    if not guarded and len(arms) == 2 and isinstance(s, Poly):
        by = {k.split(",")[0]: v for k, v in arms}
        if set(by) == {"('Ok'", "('Err'"} and all(isinstance(v, tuple) and len(v) == 2 and v[0] == "bool" for v in by.values()) \
                and by["('Ok'"][1] != by["('Err'"][1]:
            # match r { Ok(_) => true, Err(_) => false } is r.is_ok()
            t = app("std::result::Result::<T, E>::is_ok", s)
            return t if by["('Ok'"][1] else app("not", t)
    if not guarded and len(arms) >= 2 and isinstance(s, Poly) and all(k.startswith("('") for k, _ in arms):
        p0 = single_atom(app("payload0", s))
        ep = app("either_payload", s)
        try:
            reps = [replace_atom(v, p0, ep) if isinstance(v, (Poly, tuple, list)) else v for v in vals]
            if all(vkey(r) == vkey(reps[0]) for r in reps[1:]):
                return reps[0]
        except Exception:
            pass
    if not guarded and len(arms) == 2 and isinstance(s, Poly):
        by = {k: v for k, v in arms}
        some = [k for k in by if k.startswith("('Some'")]
        none = [k for k in by if "None" in k and not k.startswith("('Some'")]
        if len(some) == 1 and len(none) == 1 and by[some[0]] == app("payload0", s):
            return app("std::option::Option::<T>::unwrap_or", s, by[none[0]])
    return app("match", s, tuple(arms))


def canon_cond(c, pol=True, total=False):
    """canonical (condition, polarity): not(x) unfolds, ne -> eq with flipped polarity (also for overloaded ==/!=), and for
    totally ordered operands (total=True: integers) le(a,b) -> lt(b,a) with flipped polarity"""
    while isinstance(c, Poly):
        a = single_atom(c)
        if a is None:
            break
        fn = atom_fn(a)
        if fn == "not" and isinstance(atom_args(a)[0], Poly):
            c, pol = atom_args(a)[0], not pol
            continue
        if fn in ("ne", "op_ne"):
            x, y = atom_args(a)
            if order_of(vkey(x)) > order_of(vkey(y)):
                x, y = y, x
            c, pol = app("eq" if fn == "ne" else "op_eq", x, y), not pol
            continue
        if fn == "op_eq":
            x, y = atom_args(a)
            if order_of(vkey(x)) > order_of(vkey(y)):
                c = app("op_eq", y, x)
            break
        if fn == "le" and total:
            x, y = atom_args(a)
            c, pol = app("lt", y, x), not pol
            continue
        break
    return c, pol


def guard_holds(guards, c, pol=True, total=False):
    """is condition c (with polarity pol) one of the path conditions, up to the canonical reading of canon_cond?"""
    want = canon_cond(c, pol, total)
    return any(canon_cond(g, p, total) == want for g, p in guards if isinstance(g, Poly))


def split_signed(v):
    """v == sum of +-1 * atom terms -> (plus atoms, minus atoms) or None"""
    if not isinstance(v, Poly):
        return None
    plus, minus = [], []
    for mono, c in v.t.items():
        if len(mono) != 1 or mono[0][1] != 1 or c not in (1, -1):
            return None
        (plus if c == 1 else minus).append(mono[0][0])
    return plus, minus


def decode_fmt_template(bs):
    """core::fmt template bytes -> (string with {} / {:opts} placeholders, [arg indices])"""
    out = ""
    idxs = []
    i = 0
    nxt = 0
    while i < len(bs):
        b = bs[i]
        i += 1
        if b == 0:
            break
        if b < 0x80:
            out += bytes(bs[i:i + b]).decode("utf-8", "replace")
            i += b
        elif b == 0x80:
            ln = bs[i] | (bs[i + 1] << 8)
            i += 2
            out += bytes(bs[i:i + ln]).decode("utf-8", "replace")
            i += ln
        else:
            opts = []
            if b & 1:
                opts.append("f%x" % int.from_bytes(bytes(bs[i:i + 4]), "little"))
                i += 4
            if b & 2:
                opts.append("w%d" % (bs[i] | (bs[i + 1] << 8)))
                i += 2
            if b & 4:
                opts.append("p%d" % (bs[i] | (bs[i + 1] << 8)))
                i += 2
            if b & 8:
                ai = bs[i] | (bs[i + 1] << 8)
                i += 2
            else:
                ai = nxt
            nxt = ai + 1
            idxs.append(ai)
            out += "{}" if not opts else "{:%s}" % ",".join(opts)
    return out, idxs


def parse_fmt_block(n):
    """HIR of a `format_args!` lowering -> (template, [argument expression nodes]) or None"""
    if not n.get("ty", "").startswith("std::fmt::Arguments"):
        return None
    calls = [c for c in walk(n) if c.get("k") == "call" and (callee(c) or "").startswith("std::fmt::Arguments::<'a>::")]
    if len(calls) != 1:
        return None
    c = calls[0]
    name = callee(c).rsplit("::", 1)[-1]
    if name in ("from_str", "new_const"):
        a = strip(c["args"][0])
        if a.get("k") == "lit":
            return str(a["v"]), []
        return None
    if name == "new":
        a = strip(c["args"][0])
        if a.get("k") != "lit" or "ByteStr" not in str(a["v"]):
            return None
        import re as _r
        bs = [int(x) for x in _r.findall(r"\d+", str(a["v"]).split("]")[0])]
        tmpl, idxs = decode_fmt_template(bs)
        # the user arguments: the first `let args = (&a, &b, ..)` tuple
        tup = None
        for st in n.get("stmts", []):
            if st.get("k") == "let" and st.get("init", {}).get("k") == "tup":
                tup = st["init"]["es"]
                break
        # argument array: Argument::new_xxx(args.N)
        arr = None
        for st in n.get("stmts", []):
            if st.get("k") == "let" and st.get("init", {}).get("k") == "array":
                arr = st["init"]["es"]
        if tup is None or arr is None:
            return None
        argn = []
        for ai in idxs:
            el = arr[ai]
            f = [x for x in walk(el) if x.get("k") == "field"]
            if not f:
                return None
            argn.append(tup[int(f[0]["f"])])
        return tmpl, argn
    return None


class SymEval:
    """Evaluates HIR expressions symbolically.

    mode 'int': `/` and `%` are uninterpreted idiv/mod; mode 'real': `/` builds quotients.
    `inline(callee_path) -> Body|None` decides which local callees are expanded.
    """

    def __init__(self, F, mode="int", inline=None, self_name="self", max_depth=6, inline_statics=False):
        self.F = F
        self.inline_statics = inline_statics
        self.mode = mode
        self.inline = inline or (lambda p: None)
        self.self_name = self_name
        self.max_depth = max_depth
        self.depth = 0
        self.asserts = []

    # ---- patterns --------------------------------------------------------
    def bind(self, pat, val, env):
        k = pat.get("k")
        if k == "bind":
            env[pat["name"]] = val
            if "sub" in pat:
                self.bind(pat["sub"], val, env)
        elif k == "wild":
            pass
        elif k in ("pref", "pderef"):
            self.bind(pat["p"], val, env)
        elif k == "ptuple":
            if isinstance(val, tuple) and val and val[0] == "tuple" and len(val[1]) == len(pat["ps"]):
                for p, v in zip(pat["ps"], val[1]):
                    self.bind(p, v, env)
            else:
                for i, p in enumerate(pat["ps"]):
                    self.bind(p, app("proj%d" % i, val), env)
        elif k == "ptstruct":
            if isinstance(val, tuple) and val and val[0] == "ctor" and len(val[2]) == len(pat["ps"]):
                for p, v in zip(pat["ps"], val[2]):
                    self.bind(p, v, env)
            else:
                for i, p in enumerate(pat["ps"]):
                    self.bind(p, app("payload%d" % i, val), env)
        elif k == "pstruct":
            for f in pat["fields"]:
                self.bind(f["pat"], self.field(val, f["name"]), env)
        elif k == "por":
            # all alternatives bind the same names: bind through the first one, tagging the payload as "either arm"
            alts = pat["ps"]
            if all(a.get("k") == "ptstruct" and len(a["ps"]) == 1 for a in alts):
                self.bind(alts[0]["ps"][0], app("either_payload", val), env)
            else:
                self.bind(alts[0], val, env)
        elif k in ("plit", "ppath", "prange"):
            pass
        elif k == "pslice" and "mid" not in pat:
            # let [a, b, c] = array
            ps = list(pat.get("before", [])) + list(pat.get("after", []))
            if isinstance(val, tuple) and len(val) == 2 and val[0] == "array" and len(val[1]) == len(ps):
                for p_, v_ in zip(ps, val[1]):
                    self.bind(p_, unkey(v_) if isinstance(v_, tuple) and len(v_) == 2 and v_[0] == "P" else v_, env)
            else:
                for i, p_ in enumerate(ps):
                    self.bind(p_, app("index", val, num(i)), env)
        else:
            raise Unsupported("pattern " + str(k))

    def field(self, base, name):
        if isinstance(base, tuple) and base and base[0] == "struct" and name in base[2]:
            return base[2][name]
        if isinstance(base, tuple) and base and base[0] == "tuple" and name.isdigit():
            return base[1][int(name)]
        if isinstance(base, Poly) and len(base.t) == 1:
            (k, c), = base.t.items()
            if c == 1 and len(k) == 1 and k[0][1] == 1 and k[0][0][0] == "v":
                return var(k[0][0][1] + "." + name)
            # a field of `match s {..}` / `o.unwrap_or(d)` / `if c {a} else {b}` is the same selection of that field of the alternatives
            if c == 1 and len(k) == 1 and k[0][1] == 1 and k[0][0][0] == "f":
                a = k[0][0]
                fn = a[1]
                if fn == "match" and isinstance(a[2], tuple) and len(a[2]) == 2 and a[2][0] == "P":
                    return build_match(a[2][1], [(key, self.field(unkey(v), name)) for key, v in a[3]])
                if fn == "std::option::Option::<T>::unwrap_or" and len(a) == 4 and isinstance(a[2], tuple) and a[2][0] == "P":
                    o = a[2][1]
                    return build_match(o, [(self.SOME_KEY, self.field(app("payload0", o), name)), (repr("None"), self.field(unkey(a[3]), name))])
                if fn == "ite" and len(a) == 5:
                    return mk_ite(unkey(a[2]), self.field(unkey(a[3]), name), self.field(unkey(a[4]), name))
        return app("." + name, base)

    # ---- expressions -----------------------------------------------------
    def eval(self, n, env):
        k = n.get("k")
        if k == "block" and n.get("ty", "").startswith("std::fmt::Arguments"):
            pf = parse_fmt_block(n)
            if pf is not None:
                return ("fmt", pf[0], [self.eval(a, env) for a in pf[1]])
        m = getattr(self, "e_" + k, None)
        if m is None:
            raise Unsupported("expression kind %s at %s" % (k, n.get("sp")))
        return m(n, env)

    def e_lit(self, n, env):
        lt = n["lt"]
        if lt == "int":
            return num(n["v"])
        if lt == "float":
            return num(Fraction(n["v"].replace("_", "")))
        if lt == "bool":
            return ("bool", n["v"])
        if lt in ("str", "char"):
            return ("str", n["v"])
        return ("str", repr(n.get("v")))

    def e_path(self, n, env):
        if n.get("res") == "local":
            if n["name"] in env:
                return env[n["name"]]
            return var(n["name"].split("#")[0])
        if n.get("res") == "def":
            dk = n.get("dk", "")
            d = n["def"]
            if dk.startswith("Ctor"):
                return ("variant", d.rsplit("::", 1)[-1])
            if d == "std::f64::consts::FRAC_1_SQRT_2" and self.mode == "real":
                return app("sqrt", num(Fraction(1, 2)))      # the f64 constant is the correctly rounded sqrt(0.5) (the f32 one is not)
            if dk.startswith("AssocConst") or dk.startswith("Const") or dk.startswith("Static"):
                b = self.F.bodies.get(d)
                if b is not None and b.hir and self.depth < self.max_depth and \
                        (self.inline_statics or not dk.startswith("Static")):
                    self.depth += 1
                    try:
                        return self.eval(b.value, {})
                    except Unsupported:
                        return var(d)
                    finally:
                        self.depth -= 1
                return var(d)
            return ("fn", d)
        raise Unsupported("path res %s" % n.get("res"))

    def e_ref(self, n, env):
        v = self.eval(n["e"], env)
        if n.get("mut"):
            self.mutated(n["e"], env)
        return v

    def mutated(self, place, env):
        """the local at the root of `place` is borrowed mutably: its contents are unknown from here on
        (its shape-level facts survive inside the `mutated(..)` wrapper)."""
        from .facts import access_path
        ap = access_path(place)
        if not ap:
            return
        name = ap[0]
        if name in env:
            old = env[name]
            a = single_atom(old) if isinstance(old, Poly) else None
            if a and atom_fn(a) == "mutated":
                return
            if isinstance(old, tuple) and old and old[0] in ("closure", "iterdesc"):
                return
            if a and a[0] == "v":
                return   # an opaque parameter stays the same opaque object (its contents were unknown anyway)
            env[name] = app("mutated", old)

    def e_cast(self, n, env):
        v = self.eval(n["e"], env)
        src = n["e"].get("ty", "")
        dst = n.get("ty", "")
        isf = lambda t: t in ("f64", "f32")
        if isf(src) and not isf(dst):
            return app("cast_" + dst, v)
        return v

    def e_un(self, n, env):
        v = self.eval(n["e"], env)
        op = n["op"]
        if op == "Deref":
            return v
        if op == "Neg":
            if isinstance(v, Rat):
                return Rat(-v.n, v.d)
            if isinstance(v, Poly):
                return -v
            return app("neg", v)
        if op == "Not":
            if isinstance(v, tuple) and v and v[0] == "bool":
                return ("bool", not v[1])
            return app("not", v)
        raise Unsupported("unary " + op)

    INT_TYPES = {"usize", "isize", "u8", "u16", "u32", "u64", "u128", "i8", "i16", "i32", "i64", "i128"}

    def arith(self, op, a, b, integer=False):
        isb_ = lambda x: isinstance(x, tuple) and len(x) == 2 and x[0] == "bool"
        if op in ("BitOr", "BitAnd", "BitXor", "Add", "Mul", "Shl") and (isb_(a) != isb_(b)) and (isinstance(a, Poly) or isinstance(b, Poly)):
            # usize::from(flag) | x : a known flag used as 0 / 1
            a = num(int(a[1])) if isb_(a) else a
            b = num(int(b[1])) if isb_(b) else b
        if op in ("BitOr", "BitAnd", "BitXor", "Shl", "Shr") and isinstance(a, Poly) and isinstance(b, Poly):
            ca_, cb_ = a.const_value(), b.const_value()
            if ca_ is not None and cb_ is not None and ca_.denominator == 1 and cb_.denominator == 1 and ca_ >= 0 and cb_ >= 0:
                x_, y_ = int(ca_), int(cb_)
                return num({"BitOr": x_ | y_, "BitAnd": x_ & y_, "BitXor": x_ ^ y_, "Shl": x_ << y_ if y_ < 64 else 0, "Shr": x_ >> y_}[op])
        if op in ("Add", "Sub", "Mul") and isinstance(a, Poly) and isinstance(b, Poly):
            return a + b if op == "Add" else (a - b if op == "Sub" else a * b)
        if op in ("Add", "Sub", "Mul", "Div") and self.mode == "real" and not (integer and op == "Div") and \
                isinstance(a, (Poly, Rat)) and isinstance(b, (Poly, Rat)):
            a, b = to_rat(a), to_rat(b)
            if op == "Add":
                r = Rat(a.n * b.d + b.n * a.d, a.d * b.d)
            elif op == "Sub":
                r = Rat(a.n * b.d - b.n * a.d, a.d * b.d)
            elif op == "Mul":
                r = Rat(a.n * b.n, a.d * b.d)
            else:
                r = Rat(a.n * b.d, a.d * b.n)
            if r.d.is_const() and r.d.const_value() != 0:
                return r.n * Poly.const(1 / r.d.const_value())
            return r
        if op == "Div":
            if isinstance(a, Poly) and isinstance(b, Poly):
                ca, cb = a.const_value(), b.const_value()
                if ca is not None and cb is not None and cb != 0 and ca.denominator == 1 and cb.denominator == 1 \
                        and ca >= 0 and cb > 0:
                    return num(int(ca) // int(cb))
            return app("idiv", a, b)
        if op == "Rem":
            if isinstance(a, Poly) and isinstance(b, Poly):
                ca, cb = a.const_value(), b.const_value()
                if ca is not None and cb is not None and cb > 0 and ca >= 0 and ca.denominator == 1 and cb.denominator == 1:
                    return num(int(ca) % int(cb))
            return app("mod", a, b)
        if op == "Shl" and isinstance(a, Poly) and isinstance(b, Poly):
            if b.const_value() is not None:
                return a * num(2 ** int(b.const_value()))
            return a * app("pow2", b)
        if op == "BitAnd" and isinstance(a, Poly) and isinstance(b, Poly):
            # x & (2^c - 1) == x mod 2^c
            for x, mask in ((a, b), (b, a)):
                mp = mask + num(1)
                c = mp.const_value()
                if c is not None and c.denominator == 1 and c > 0 and (int(c) & (int(c) - 1)) == 0:
                    return self.arith("Rem", x, mp)
                if len(mp.t) == 1:
                    (mono, coef), = mp.t.items()
                    if len(mono) == 1 and mono[0][1] == 1 and mono[0][0][:2] == ("f", "pow2") and \
                            coef.denominator == 1 and coef > 0 and (int(coef) & (int(coef) - 1)) == 0:
                        return self.arith("Rem", x, mp)
        if op in ("Eq", "Ne", "Lt", "Le", "Gt", "Ge"):
            flip = {"Gt": "Lt", "Ge": "Le"}
            if op in flip:
                op, a, b = flip[op], b, a
            if isinstance(a, Poly) and isinstance(b, Poly):
                dc = (a - b).const_value()
                if dc is not None:
                    # both sides differ by a known constant: the comparison is decided
                    return ("bool", {"Eq": dc == 0, "Ne": dc != 0, "Lt": dc < 0, "Le": dc <= 0}[op])
            if op in ("Eq", "Ne") and order_of(vkey(a)) > order_of(vkey(b)):
                a, b = b, a
            return app(op.lower(), a, b)
        if op in ("And", "Or"):
            isb = lambda x: isinstance(x, tuple) and len(x) == 2 and x[0] == "bool"
            if isb(a) and isb(b):
                return ("bool", (a[1] and b[1]) if op == "And" else (a[1] or b[1]))
            for x, y in ((a, b), (b, a)):
                if isb(x):
                    if op == "And":
                        return y if x[1] else ("bool", False)
                    return ("bool", True) if x[1] else y
            return app(op.lower(), a, b)
        if op in ("BitAnd", "BitOr", "BitXor"):
            if order_of(vkey(a)) > order_of(vkey(b)):
                a, b = b, a
            return app(op.lower(), a, b)
        return app(op.lower(), a, b)

    def e_bin(self, n, env):
        a = self.eval(n["l"], env)
        b = self.eval(n["r"], env)
        if n["op"] in ("Eq", "Ne") and not (isinstance(a, Poly) and isinstance(b, Poly)):
            ka, kb = const_key(a), const_key(b)
            if ka is not None and kb is not None and ANY_PAYLOAD not in repr(ka) + repr(kb):
                return ("bool", (ka == kb) == (n["op"] == "Eq"))       # two known constants (strings, variants, tuples of them)
        if n.get("ovl") and not (isinstance(a, (Poly, Rat)) and isinstance(b, (Poly, Rat))):
            return app("op_" + n["op"].lower(), a, b)
        # `/` on integer operands truncates, whatever the evaluation mode (a later `as f64` does not undo it)
        return self.arith(n["op"], a, b, integer=(n.get("ty") or "").lstrip("&") in self.INT_TYPES)

    def e_field(self, n, env):
        return self.field(self.eval(n["e"], env), n["f"])

    def e_index(self, n, env):
        base = self.eval(n["e"], env)
        idx = self.eval(n["i"], env)
        if isinstance(base, tuple) and base and base[0] == "array" and isinstance(idx, Poly) and idx.const_value() is not None:
            return base[1][int(idx.const_value())]
        return app("index", base, idx)

    def e_tup(self, n, env):
        return ("tuple", [self.eval(x, env) for x in n["es"]])

    def e_array(self, n, env):
        return ("array", [self.eval(x, env) for x in n["es"]])

    def e_struct(self, n, env):
        return ("struct", n.get("def", "?").rsplit("::", 1)[-1], {f["name"]: self.eval(f["e"], env) for f in n["fields"]})

    def e_closure(self, n, env):
        if not hasattr(self, "closure_envs"):
            self.closure_envs = {}
            self.closure_nodes = {}
        if self.depth > 0:
            # a closure created inside an expanded helper: one instance per expansion (its captured arguments differ)
            self._clo_inst = getattr(self, "_clo_inst", 0) + 1
            n = dict(n)
            n["def"] = "%s@%d" % (n.get("def"), self._clo_inst)
        self.closure_envs[n.get("def")] = dict(env)
        self.closure_nodes[n.get("def")] = n
        return ("closure", n, dict(env))

    def e_block(self, n, env):
        self._blk = getattr(self, "_blk", 0) + 1
        try:
            return self._e_block(n, env)
        finally:
            self._blk -= 1

    @staticmethod
    def _guard_return(e):
        """`if c { return X; }` without else -> (c node, X node)"""
        from .facts import strip
        e = strip(e)
        if e.get("k") != "if" or "e" in e:
            return None
        t = strip(e["t"])
        while t.get("k") == "block" and not t.get("stmts") and t.get("e") is not None:
            t = strip(t["e"])
        if t.get("k") == "block" and len(t.get("stmts", [])) == 1 and t.get("e") is None and t["stmts"][0]["k"] != "let":
            t = strip(t["stmts"][0]["e"])
        if t.get("k") == "ret" and t.get("e") is not None:
            return e["c"], t["e"]
        return None

    def _e_block(self, n, env):
        env = dict(env) if n.get("stmts") else env
        stmts = n.get("stmts", [])
        for i, s in enumerate(stmts):
            if s["k"] != "let" and self._blk == 1:
                gr = self._guard_return(s["e"])
                if gr is not None:
                    # function-level guard clause: value = if c { X } else { rest of the body }
                    c = self.eval(gr[0], env)
                    x = self.eval(gr[1], env)
                    rest = self._e_block({"k": "block", "stmts": stmts[i + 1:] or [], "e": n.get("e")}, env) if (stmts[i + 1:] or n.get("e") is not None) else ("tuple", [])
                    if isinstance(c, tuple) and c and c[0] == "bool":
                        return x if c[1] else rest
                    if vkey(x) == vkey(rest):
                        return x
                    return app("ite", c, x, rest)
            if s["k"] == "let":
                if "init" in s:
                    self.bind(s["pat"], self.eval(s["init"], env), env)
            else:
                e = s["e"]
                if e.get("k") in ("assign", "assignop"):
                    from .facts import plain_local
                    nm = plain_local(e["l"])
                    if nm is not None:
                        r = self.eval(e["r"], env)
                        if e["k"] == "assignop":
                            r = self.arith(e["op"].replace("Assign", ""), self.eval(e["l"], env), r)
                        env[nm] = r
                        continue
                if is_assert(e):
                    self.asserts.append(e)
                    continue
                if _panics(e):
                    return ("panic",)
                raise Unsupported("statement with effect at %s" % e.get("sp"))
        if n.get("e") is not None:
            return self.eval(n["e"], env)
        return ("tuple", [])

    def e_if(self, n, env):
        c = self.eval(n["c"], env)
        if isinstance(c, tuple) and len(c) == 2 and c[0] == "bool":
            # decided condition: only the taken branch is evaluated
            if c[1]:
                return self.eval(n["t"], env)
            return self.eval(n["e"], env) if "e" in n else ("tuple", [])
        self._sym = getattr(self, "_sym", 0) + 1
        try:
            t = self.eval(n["t"], env)
            e = self.eval(n["e"], env) if "e" in n else ("tuple", [])
        finally:
            self._sym -= 1
        return mk_ite(c, t, e)

    def opt_arms(self, s, arms_nodes, env, evalfn):
        """match / if-let over an ("opt", o, v) value: arms [(pattern node, body node)] -> normal form over o, or None"""
        from .tables import pat_key
        src, val = s[1], s[2]
        out = {}
        for pat, body in arms_nodes:
            key = pat_key(pat)
            e2 = dict(env)
            if isinstance(key, tuple) and len(key) == 2 and key[0] == "Some":
                inner = pat.get("ps", [None])[0] if pat.get("k") == "ptstruct" else None
                if inner is None:
                    return None
                self.bind(inner, val, e2)
                out["some"] = evalfn(body, e2, (app("matches", src, self.SOME_KEY), True))
            elif key == "None" or key == "_":
                out["none"] = evalfn(body, e2, (app("matches", src, self.SOME_KEY), False))
            else:
                return None
        if set(out) != {"some", "none"}:
            return None
        return build_match(src, [(self.SOME_KEY, out["some"]), (repr("None"), out["none"])])

    def e_match(self, n, env):
        s = self.eval(n["e"], env)
        if isinstance(s, tuple) and len(s) == 3 and s[0] == "opt" and not any("guard" in a for a in n["arms"]):
            r = self.opt_arms(s, [(a["pat"], a["body"]) for a in n["arms"]], env, lambda b, e2, g: self.eval(b, e2))
            if r is not None:
                return r
        # constant scrutinee: select the arm
        from .tables import pat_key, is_catch_all
        ck = const_key(s)
        if ck is not None:
            for a in n["arms"]:
                key = pat_key(a["pat"])
                keys = key[1:] if isinstance(key, tuple) and key and key[0] == "|" else (key,)
                for kk in keys:
                    if key_matches(kk, ck):
                        if "guard" in a:
                            raise Unsupported("guarded arm")
                        e2 = dict(env)
                        try:
                            self.bind(a["pat"], s, e2)
                        except Unsupported:
                            if a["pat"].get("k") == "bind":
                                raise
                        return self.eval(a["body"], e2)
            raise Unsupported("no arm matches %r" % (s,))
        arms = []
        self._sym = getattr(self, "_sym", 0) + 1
        try:
            for a in n["arms"]:
                e2 = dict(env)
                try:
                    self.bind(a["pat"], s, e2)
                except Unsupported:
                    pass
                arms.append((repr(pat_key(a["pat"])), self.eval(a["body"], e2)))
        finally:
            self._sym -= 1
        return build_match(s, arms, guarded=any("guard" in a for a in n["arms"]))

    def call_fn(self, path, inst, args, n, env):
        base = path.rsplit("::", 1)[-1] if path else "?"
        if path in IDENTITY_CALLS and len(args) == 1:
            return args[0]
        if path in ("std::cmp::min", "std::cmp::max", "std::cmp::Ord::min", "std::cmp::Ord::max") and len(args) == 2:
            return mk_minmax(path.rsplit("::", 1)[-1], args[0], args[1])
        if path in ("std::cmp::Ord::cmp", "std::cmp::PartialOrd::partial_cmp") and len(args) == 2 and \
                all(isinstance(x, tuple) and len(x) == 3 and x[0] == "ctor" and len(x[2]) == 1 for x in args) and args[0][1] == args[1][1]:
            # comparing two values of the same single-payload variant compares the payloads
            return self.call_fn(path, inst, [args[0][2][0], args[1][2][0]], n, env)
        if path in ("std::cmp::Ord::cmp", "std::cmp::PartialOrd::partial_cmp") and len(args) == 2:
            # decided comparisons: two booleans (false < true), None against None / Some (None < Some)
            rank = lambda x: (int(x[1]) if isinstance(x, tuple) and len(x) == 2 and x[0] == "bool" else
                              0 if x == ("variant", "None") else
                              1 if isinstance(x, tuple) and len(x) == 3 and x[0] == "ctor" and x[1] == "Some" else None)
            ra_, rb_ = rank(args[0]), rank(args[1])
            both_bool = all(isinstance(x, tuple) and len(x) == 2 and x[0] == "bool" for x in args)
            both_opt = not any(isinstance(x, tuple) and len(x) == 2 and x[0] == "bool" for x in args)
            if ra_ is not None and rb_ is not None and (both_bool or (both_opt and (ra_, rb_) != (1, 1))):
                o = ("variant", "Less" if ra_ < rb_ else "Greater" if ra_ > rb_ else "Equal")
                return o if path.endswith("::cmp") else ("ctor", "Some", [o])
        if path in ("std::cmp::Ordering::then_with", "std::cmp::Ordering::then") and len(args) == 2:
            first = args[0]
            if isinstance(first, tuple) and first and first[0] == "variant" and first[1] in ("Less", "Greater"):
                return first
            second = args[1]
            if isinstance(second, tuple) and second and second[0] in ("closure", "fn"):
                second = self.apply(second, [])
            if first == ("variant", "Equal"):
                return second
            return app("ordering_then", first, second)
        if path in ("std::cmp::Ordering::is_eq", "std::cmp::Ordering::is_ne") and len(args) == 1 and \
                isinstance(args[0], tuple) and args[0] and args[0][0] == "variant":
            return ("bool", (args[0][1] == "Equal") == path.endswith("is_eq"))
        if path == "std::cmp::Ordering::reverse" and len(args) == 1 and isinstance(args[0], tuple) and args[0] and args[0][0] == "variant":
            return ("variant", {"Less": "Greater", "Greater": "Less"}.get(args[0][1], args[0][1]))
        mm0 = STD_NUM_RX.match(path or "")
        if mm0 and mm0.group(2) == "checked_sub" and len(args) == 2 and isinstance(args[0], Poly) and isinstance(args[1], Poly) and "impl u" in path:
            # a.checked_sub(b) on unsigned integers: Some(a - b) exactly when b <= a
            return ("opt", app("bool_to_option", self.arith("Le", args[1], args[0])), args[0] - args[1])
        mm = STD_NUM_RX.match(path or "")
        if mm:
            return num_call(mm.group(2), *args)
        cs = self.const_search(path, args)
        if cs is not None:
            return cs
        if path and path.startswith(("core::array::", "std::array::")) and path.endswith("::map") and len(args) == 2:
            # [a, b, ..].map(f) = [f(a), f(b), ..]
            seq = self.const_seq(args[0])
            if seq is not None and isinstance(args[1], tuple) and args[1] and args[1][0] in ("closure", "fn"):
                try:
                    return ("array", [self.apply(args[1], [unkey(el)]) for el in seq])
                except Unsupported:
                    pass
        if path in ("core::bool::<impl bool>::then_some", "core::bool::<impl bool>::then") and len(args) == 2:
            v = args[1]
            if path.endswith("::then") and isinstance(v, tuple) and v and v[0] in ("closure", "fn"):
                try:
                    v = self.apply(v, [])
                except Unsupported:
                    v = None
            if v is not None:
                c = args[0]
                if isinstance(c, tuple) and c and c[0] == "bool":
                    return ("ctor", "Some", [v]) if c[1] else ("variant", "None")
                # Some(v) exactly when c holds
                return ("opt", app("bool_to_option", c), v)
        ov = self.option_call(path, args)
        if ov is not None:
            return ov
        body = self.inline(inst or path) or self.inline(path)
        if body is not None and self.depth < self.max_depth and body.hir:
            return self.inline_body(body, args)
        return self.call_opaque(path, args)

    def const_seq(self, v):
        """the elements of a literal array / slice of it / its iterator, else None"""
        for _ in range(5):
            if isinstance(v, tuple) and len(v) == 2 and v[0] == "array" and isinstance(v[1], (list, tuple)):
                return list(v[1])
            if isinstance(v, tuple) and len(v) == 2 and v[0] == "iterdesc" and v[1][0] == "elems":
                v = v[1][1]
                if isinstance(v, tuple) and len(v) == 2 and v[0] == "P":
                    v = v[1]
                continue
            a = single_atom(v) if isinstance(v, Poly) else None
            if a and (atom_fn(a) or "").rsplit("::", 1)[-1] in ("iter", "into_iter", "as_slice", "as_ref", "copied", "cloned") and len(atom_args(a)) == 1:
                v = atom_args(a)[0]
                continue
            return None
        return None

    def const_search(self, path, args):
        """find / position / any / all / find_map over a literal table with a predicate that folds to constants"""
        if path and path.endswith("Iterator::fold") and len(args) == 3:
            seq = self.const_seq(args[0])
            f = args[2]
            if seq is not None and isinstance(f, tuple) and f and f[0] in ("closure", "fn"):
                acc = args[1]
                try:
                    for el in seq:
                        acc = self.apply(f, [acc, unkey(el)])
                except Unsupported:
                    return None
                return acc
            return None
        if not path or not path.startswith(("std::iter::Iterator::", "core::iter::")) or len(args) != 2:
            return None
        base = path.rsplit("::", 1)[-1]
        if base not in ("find", "position", "any", "all", "find_map"):
            return None
        seq = self.const_seq(args[0])
        f = args[1]
        if seq is None or not (isinstance(f, tuple) and f and f[0] in ("closure", "fn")):
            return None
        unp = unkey
        try:
            for i, el in enumerate(seq):
                r = self.apply(f, [unp(el)])
                if base == "find_map":
                    if isinstance(r, tuple) and len(r) == 3 and r[0] == "ctor" and r[1] == "Some":
                        return r
                    if r == ("variant", "None"):
                        continue
                    return None
                if not (isinstance(r, tuple) and len(r) == 2 and r[0] == "bool"):
                    return None
                if base in ("find", "position") and r[1]:
                    return ("ctor", "Some", [unp(el) if base == "find" else num(i)])
                if base == "any" and r[1]:
                    return ("bool", True)
                if base == "all" and not r[1]:
                    return ("bool", False)
        except Unsupported:
            return None
        return {"find": ("variant", "None"), "position": ("variant", "None"), "find_map": ("variant", "None"), "any": ("bool", False), "all": ("bool", True)}[base]

    # -- Option algebra -------------------------------------------------------------------------------------------
    # ("opt", o, v): the optional value that is Some(v) exactly when the opaque option o is Some, and None otherwise.
    # It lets o.map(f).unwrap_or(d), `if let Some(x) = o.map(f) {x} else {d}`, o.map_or(d, f) and match o {Some(p) => f(p), None => d}
    # reach the same normal form  match(o, Some -> f(payload0 o), None -> d).
    SOME_KEY = repr(("Some", "_"))

    OK_KEY, ERR_KEY = repr(("Ok", "_")), repr(("Err", "_"))

    def result_call(self, path, args):
        """r.map_or(d, f) / r.map_or_else(g, f) on an opaque Result -> match(r, Ok -> f(payload), Err -> d)"""
        base = path.rsplit("::", 1)[-1]
        r = args[0]
        if not isinstance(r, Poly):
            return None
        fnlike = lambda x: isinstance(x, tuple) and x and (x[0] in ("closure", "fn") or (len(x) == 2 and x[0] == "variant" and x[1] in ("Some", "Ok", "Err")))
        try:
            if base == "map" and len(args) == 2 and fnlike(args[1]):
                # r.map(f) = match r { Ok(v) => Ok(f(v)), Err(e) => Err(e) }
                return build_match(r, [(self.OK_KEY, ("ctor", "Ok", [self.apply(args[1], [app("payload0", r)])])), (self.ERR_KEY, ("ctor", "Err", [app("payload0", r)]))])
            if base == "map_or" and len(args) == 3 and fnlike(args[2]):
                return build_match(r, [(self.OK_KEY, self.apply(args[2], [app("payload0", r)])), (self.ERR_KEY, args[1])])
            if base == "unwrap_or_else" and len(args) == 2 and fnlike(args[1]):
                return build_match(r, [(self.OK_KEY, app("payload0", r)), (self.ERR_KEY, self.apply(args[1], [app("payload0", r)]))])
            if base == "unwrap_or" and len(args) == 2:
                return build_match(r, [(self.OK_KEY, app("payload0", r)), (self.ERR_KEY, args[1])])
            if base == "map_or_else" and len(args) == 3 and fnlike(args[1]) and fnlike(args[2]):
                return build_match(r, [(self.OK_KEY, self.apply(args[2], [app("payload0", r)])), (self.ERR_KEY, self.apply(args[1], [app("payload0", r)]))])
        except Unsupported:
            return None
        return None

    def option_call(self, path, args):
        if path and path.startswith("std::option::Option::<std::result::Result<") and path.endswith("::transpose") and len(args) == 1:
            # Option<Result<T,E>>::transpose: Some(Ok(x)) -> Ok(Some(x)), Some(Err(e)) -> Err(e), None -> Ok(None)
            o = args[0]
            if isinstance(o, tuple) and len(o) == 3 and o[0] == "opt" and isinstance(o[2], Poly):
                r = o[2]
                inner = build_match(r, [(self.OK_KEY, ("ctor", "Ok", [("ctor", "Some", [app("payload0", r)])])), (self.ERR_KEY, ("ctor", "Err", [app("payload0", r)]))])
                return build_match(o[1], [(self.SOME_KEY, inner), (repr("None"), ("ctor", "Ok", [("variant", "None")]))])
            return None
        if path and path.startswith("std::result::Result::<") and args:
            return self.result_call(path, args)
        if not path or not path.startswith("std::option::Option::<") or not args:
            return None
        base = path.rsplit("::", 1)[-1]
        o = args[0]
        is_opt = isinstance(o, tuple) and len(o) == 3 and o[0] == "opt"
        if base in ("is_some", "is_none") and len(args) == 1:
            if o == ("variant", "None"):
                return ("bool", base == "is_none")
            if isinstance(o, tuple) and len(o) == 3 and o[0] == "ctor" and o[1] == "Some":
                return ("bool", base == "is_some")
        # constant options (a known Some(v) / None)
        k_some = isinstance(o, tuple) and len(o) == 3 and o[0] == "ctor" and o[1] == "Some" and len(o[2]) == 1
        k_none = o == ("variant", "None")
        if k_some or k_none:
            fnl = lambda x: isinstance(x, tuple) and x and x[0] in ("closure", "fn")
            pv = o[2][0] if k_some else None
            try:
                if base == "ok_or" and len(args) == 2:
                    return ("ctor", "Ok", [pv]) if k_some else ("ctor", "Err", [args[1]])
                if base == "ok_or_else" and len(args) == 2 and fnl(args[1]):
                    return ("ctor", "Ok", [pv]) if k_some else ("ctor", "Err", [self.apply(args[1], [])])
                if base == "unwrap_or" and len(args) == 2:
                    return pv if k_some else args[1]
                if base == "unwrap_or_else" and len(args) == 2 and fnl(args[1]):
                    return pv if k_some else self.apply(args[1], [])
                if base == "map" and len(args) == 2 and fnl(args[1]):
                    return ("ctor", "Some", [self.apply(args[1], [pv])]) if k_some else o
                if base == "map_or" and len(args) == 3 and fnl(args[2]):
                    return self.apply(args[2], [pv]) if k_some else args[1]
                if base in ("as_ref", "as_mut", "as_deref", "copied", "cloned") and len(args) == 1:
                    return o
                if base == "filter" and len(args) == 2 and fnl(args[1]):
                    if k_none:
                        return o
                    keep = self.apply(args[1], [pv])
                    if isinstance(keep, tuple) and len(keep) == 2 and keep[0] == "bool":
                        return o if keep[1] else ("variant", "None")
                    return None
            except Unsupported:
                return None
            return None
        if not is_opt and not isinstance(o, Poly):
            return None
        src, val = (o[1], o[2]) if is_opt else (o, app("payload0", o))
        fnlike = lambda x: isinstance(x, tuple) and x and x[0] in ("closure", "fn")
        try:
            if base in ("as_ref", "as_mut", "as_deref", "as_deref_mut", "copied", "cloned") and is_opt and len(args) == 1:
                return o
            if base == "map" and len(args) == 2 and fnlike(args[1]):
                return ("opt", src, self.apply(args[1], [val]))
            if base == "unwrap_or" and len(args) == 2:
                return build_match(src, [(self.SOME_KEY, val), (repr("None"), args[1])])
            if base == "unwrap_or_else" and len(args) == 2 and fnlike(args[1]):
                return build_match(src, [(self.SOME_KEY, val), (repr("None"), self.apply(args[1], []))])
            if base == "map_or" and len(args) == 3 and fnlike(args[2]):
                return build_match(src, [(self.SOME_KEY, self.apply(args[2], [val])), (repr("None"), args[1])])
            if base == "map_or_else" and len(args) == 3 and fnlike(args[1]) and fnlike(args[2]):
                return build_match(src, [(self.SOME_KEY, self.apply(args[2], [val])), (repr("None"), self.apply(args[1], []))])
            if base == "ok_or" and len(args) == 2:
                return build_match(src, [(self.SOME_KEY, ("ctor", "Ok", [val])), (repr("None"), ("ctor", "Err", [args[1]]))])
            if base == "ok_or_else" and len(args) == 2 and fnlike(args[1]):
                return build_match(src, [(self.SOME_KEY, ("ctor", "Ok", [val])), (repr("None"), ("ctor", "Err", [self.apply(args[1], [])]))])
            if base in ("is_some", "is_none") and is_opt and len(args) == 1:
                m = app("matches", src, self.SOME_KEY)
                return m if base == "is_some" else app("not", m)
        except Unsupported:
            return None
        return None

    def inline_body(self, body, args):
        e2 = {}
        if len(body.params) != len(args):
            raise Unsupported("arity mismatch inlining " + body.path)
        for p, a in zip(body.params, args):
            self.bind(p, a, e2)
        self.depth += 1
        saved, self._blk = getattr(self, "_blk", 0), 0
        try:
            if type(self).e_ret is SymEval.e_ret:
                return self.eval_fn(body, e2)
            return self.eval(body.value, e2)
        finally:
            self.depth -= 1
            self._blk = saved

    NDARRAY_DIM = "ndarray::impl_methods::<impl ndarray::ArrayBase<S, D>>::dim"

    def call_opaque(self, path, args):
        base = path.rsplit("::", 1)[-1] if path else "?"
        if base in ("Ok", "Some", "Err") and len(args) == 1 and path.startswith("std::prelude"):
            return ("ctor", base, args)
        if base in ("nrows", "ncols") and path.startswith("ndarray::") and len(args) == 1:
            # 2-D shape accessors are projections of dim(): one spelling for both
            d = self.call_opaque(self.NDARRAY_DIM, args)
            i = 0 if base == "nrows" else 1
            if isinstance(d, tuple) and d and d[0] == "tuple" and len(d[1]) == 2:
                return d[1][i]
            return app("proj%d" % i, d)
        return app(path, *args)

    def e_call(self, n, env):
        f = n["f"]
        args = [self.eval(a, env) for a in n["args"]]
        if f.get("k") == "path" and f.get("res") == "def":
            dk = f.get("dk", "")
            if dk.startswith("Ctor"):
                return ("ctor", f["def"].rsplit("::", 1)[-1], args)
            if f["def"].endswith("fmt::Arguments::<'a>::from_str") and args and isinstance(args[0], tuple) and args[0][0] == "str":
                return ("fmt", args[0][1], [])
            return self.call_fn(f["def"], f.get("inst"), args, n, env)
        fv = self.eval(f, env)
        return self.apply(fv, args)

    def apply(self, fv, args):
        if isinstance(fv, tuple) and fv and fv[0] == "closure":
            node, cenv = fv[1], dict(fv[2])
            for p, a in zip(node["params"], args):
                self.bind(p, a, cenv)
            return self.eval(node["body"], cenv)
        if isinstance(fv, tuple) and fv and fv[0] == "fn":
            return self.call_fn(fv[1], None, args, None, {})
        if isinstance(fv, tuple) and len(fv) == 2 and fv[0] == "variant" and fv[1] in ("Some", "Ok", "Err") and len(args) == 1:
            return ("ctor", fv[1], list(args))      # a tuple-variant constructor used as a function: .map(Some)
        return app("apply", fv, *args)

    def e_mcall(self, n, env):
        recv = self.eval(n["recv"], env)
        args = [recv] + [self.eval(a, env) for a in n["args"]]
        path = n.get("def") or ("?::" + n["m"])
        r = self.call_fn(path, n.get("inst"), args, n, env)
        if any("Ref(Mut" in a for a in n["recv"].get("adj", [])) or "&mut" in n.get("recv_adj", "")[:5]:
            self.mutated(n["recv"], env)
        return r

    def e_ret(self, n, env):
        # on a path decided by constants alone (no symbolic branch is open) a `return` simply ends the function with that value
        if getattr(self, "_sym", 0) == 0 and getattr(self, "_fn_depth", 0) > 0:
            raise FnReturn(self.eval(n["e"], env) if n.get("e") is not None else ("tuple", []))
        raise Unsupported("return at %s" % n.get("sp"))

    def eval_fn(self, body, env):
        """value of a function body (an early `return` on a constant-decided path is honoured)"""
        self._fn_depth = getattr(self, "_fn_depth", 0) + 1
        saved = getattr(self, "_sym", 0)
        self._sym = 0
        try:
            return self.eval(body.value, env)
        except FnReturn as r:
            return r.value
        finally:
            self._fn_depth -= 1
            self._sym = saved

    def e_try(self, n, env):
        v = self.eval(n["e"], env)
        # Ok(x)? is x (the value on the path that continues; which error type an Err is converted to does not matter here)
        if isinstance(v, tuple) and len(v) == 3 and v[0] == "ctor" and v[1] in ("Ok", "Some") and len(v[2]) == 1:
            return v[2][0]
        if getattr(self, "_sym", 0) == 0 and getattr(self, "_fn_depth", 0) > 0 and type(self).e_ret is SymEval.e_ret:
            # a known Err(e)? / None? on a constant-decided path ends the function
            if isinstance(v, tuple) and len(v) == 3 and v[0] == "ctor" and v[1] == "Err":
                raise FnReturn(v)
            if v == ("variant", "None"):
                raise FnReturn(v)
        return app("try", v)

    def e_letx(self, n, env):
        raise Unsupported("let-expression")


def subst(v, f):
    """Rebuild value v with every variable atom ('v', name) replaced by f(name) (a Poly) when f returns one."""
    if isinstance(v, Poly):
        out = Poly()
        for mono, c in v.t.items():
            term = Poly.const(c)
            for a, e in mono:
                if a[0] == "v":
                    r = f(a[1])
                    base = r if r is not None else Poly.atom(a)
                elif a[0] == "f":
                    base = Poly.atom(("f", a[1]) + tuple(_subst_key(x, f) for x in a[2:]))
                else:
                    base = Poly.atom(a)
                for _ in range(e):
                    term = term * base
            out = out + term
        return out
    if isinstance(v, Rat):
        return Rat(subst(v.n, f), subst(v.d, f))
    if isinstance(v, tuple):
        return tuple(subst(x, f) if isinstance(x, (Poly, Rat, tuple, list)) else x for x in v)
    if isinstance(v, list):
        return [subst(x, f) for x in v]
    return v


class NotEvaluable(Exception):
    pass


class FnReturn(Exception):
    def __init__(self, value):
        self.value = value


def evaluate(v, env):
    """Evaluate a symbolic value under an assignment of its variable / opaque atoms to integers (formula evaluation on a
    finite grid, used to read small predicates semantically instead of by shape). env maps atoms or variable names to ints."""
    if isinstance(v, tuple) and v and v[0] == "bool":
        return bool(v[1])
    if isinstance(v, tuple) and len(v) == 2 and v[0] == "P":
        return evaluate(v[1], env)
    if not isinstance(v, Poly):
        raise NotEvaluable(repr(v)[:80])
    total = Fraction(0)
    for mono, c in v.t.items():
        term = Fraction(c)
        for a, e in mono:
            term *= Fraction(_eval_atom(a, env)) ** e
        total += term
    return int(total) if total.denominator == 1 else total


def _eval_atom(a, env):
    if a in env:
        return env[a]
    if a[0] == "v":
        if a[1] in env:
            return env[a[1]]
        raise NotEvaluable("free variable " + a[1])
    fn = a[1]
    args = a[2:]
    ev = lambda k: evaluate(k, env)
    if fn in ("lt", "le", "eq", "ne"):
        x, y = ev(args[0]), ev(args[1])
        return int({"lt": x < y, "le": x <= y, "eq": x == y, "ne": x != y}[fn])
    if fn == "and":
        return int(bool(ev(args[0])) and bool(ev(args[1])))
    if fn == "or":
        return int(bool(ev(args[0])) or bool(ev(args[1])))
    if fn == "not":
        return int(not bool(ev(args[0])))
    if fn == "match":
        # match on an integer / boolean subject with literal and catch-all arms
        subj = ev(args[0])
        for key, val in args[1]:
            k = key.strip("'")
            if k == "_" or (k.lstrip("-").isdigit() and int(k) == subj) or (k in ("True", "False") and (k == "True") == bool(subj)):
                return ev(val)
        raise NotEvaluable("no arm for %r" % (subj,))
    if fn in ("bitxor", "bitand", "bitor"):
        x, y = int(ev(args[0])), int(ev(args[1]))
        return {"bitxor": x ^ y, "bitand": x & y, "bitor": x | y}[fn]
    if fn == "abs_diff":
        return abs(ev(args[0]) - ev(args[1]))
    if fn == "abs":
        return abs(ev(args[0]))
    if fn in ("min", "max"):
        return (min if fn == "min" else max)(ev(args[0]), ev(args[1]))
    if fn == "mod":
        return ev(args[0]) % ev(args[1])
    if fn == "idiv":
        return ev(args[0]) // ev(args[1])
    if fn == "ite":
        return ev(args[1]) if ev(args[0]) else ev(args[2])
    if fn in ("saturating_sub",):
        return max(ev(args[0]) - ev(args[1]), 0)
    if fn in ("wrapping_sub", "checked_sub"):
        raise NotEvaluable(fn)
    raise NotEvaluable("function " + fn)


def subst_atom(v, atom, value):
    """replace every top-level occurrence of `atom` in polynomial v by the polynomial `value`"""
    out = Poly()
    for mono, c in v.t.items():
        term = Poly.const(c)
        for a, e in mono:
            base = value if a == atom else Poly.atom(a)
            for _ in range(e):
                term = term * base
        out = out + term
    return out


def _subst_key(k, f):
    if isinstance(k, tuple) and len(k) == 2 and k[0] == "P" and isinstance(k[1], Poly):
        return ("P", subst(k[1], f))
    if isinstance(k, tuple):
        return tuple(_subst_key(x, f) for x in k)
    return k


def replace_atom(v, atom, value):
    """deep replacement of an atom (also inside the arguments of other atoms) by the polynomial `value`"""
    if isinstance(v, Poly):
        out = Poly()
        for mono, c in v.t.items():
            term = Poly.const(c)
            for a, e in mono:
                if a == atom:
                    base = value
                elif a[0] == "f":
                    base = Poly.atom(("f", a[1]) + tuple(_replace_key(x, atom, value) for x in a[2:]))
                else:
                    base = Poly.atom(a)
                for _ in range(e):
                    term = term * base
            out = out + term
        return out
    if isinstance(v, tuple):
        return tuple(replace_atom(x, atom, value) if isinstance(x, (Poly, tuple, list)) else x for x in v)
    if isinstance(v, list):
        return [replace_atom(x, atom, value) for x in v]
    return v


def _replace_key(k, atom, value):
    if isinstance(k, tuple) and len(k) == 2 and k[0] == "P" and isinstance(k[1], Poly):
        return ("P", replace_atom(k[1], atom, value))
    if isinstance(k, tuple):
        return tuple(_replace_key(x, atom, value) for x in k)
    return k
