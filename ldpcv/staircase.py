"""Shared by C02-S3 and C06-T5: the set of positions `is_staircase` accepts, read from its HIR."""
from .extract import AnalysisError
from .symx import Poly, app, var, num, subst, Unsupported, vkey
from .trace import Tracer

PATH = "encoder::staircase::is_staircase"


def _flatten_and(v):
    """and(and(a,b),c) -> [a,b,c] as atoms (each a Poly consisting of one atom)"""
    if isinstance(v, Poly) and len(v.t) == 1:
        (mono, c), = v.t.items()
        if c == 1 and len(mono) == 1 and mono[0][1] == 1:
            a = mono[0][0]
            if a[0] == "f" and a[1] == "and":
                return _flatten_and(a[2][1]) + _flatten_and(a[3][1])
            return [a]
    raise AnalysisError("is_staircase: unreadable condition %r" % (v,))


def accepted_set(F, ck=None, rule=None):
    """Returns {'first': {offsets accepted in row 0}, 'rest': {offsets accepted in row j != 0 (in terms of j)},
    'count_ok': bool} where offsets are relative to D = num_cols - num_rows, rendered as strings."""
    b = F.body(PATH)
    tr = Tracer(F, r"NONE", mode="int")
    env = {}
    tr.bind(b.params[0], var("h"), env)
    try:
        ret = tr.eval(b.value, env)
    except Unsupported as e:
        raise AnalysisError("is_staircase: unreadable shape: %s" % e)
    H = var("h")
    R = app("sparse::SparseMatrix::num_rows", H)
    Cc = app("sparse::SparseMatrix::num_cols", H)
    D = Cc - R
    rets = [e for e in tr.events if e.callee == "<return>"]
    from .symx import evaluate, NotEvaluable, single_atom, atom_fn, atom_args, unkey
    from .idioms import as_closure
    Rn, Cn = 9, 23
    Dn = Cn - Rn
    base = {single_atom(R): Rn, single_atom(Cc): Cn}
    count_ok = False
    rets_skip = []
    if rets:
        # form 1: a loop over iter_all() that returns false on an unexpected entry and counts the others
        for e in rets:
            if e.args != [("bool", False)]:
                raise AnalysisError("is_staircase: early return of something other than `false`")
            if not e.loops or e.loops[0][0] != "iter" or "iter_all" not in repr(e.loops[0][2]):
                # a reject that looks at the *storage order* of the entries (first / last / next / nth of a row or column list) makes the
                # answer depend on the order of insertion, not on the set of ones: a verdict, not an unreadable shape
                gtxt = " ".join(repr(g_) for g_, _ in e.guards)
                order_dep = any(x in gtxt for x in ("Iterator::last(", "Iterator::next(", "Iterator::nth(", "::first(", "::last(", "Iterator::max(", "Iterator::min(")) and \
                    any(x in gtxt for x in ("iter_row(", "iter_col(", "iter_all("))
                if order_dep and ck is not None and not any(x in gtxt for x in ("Iterator::max(", "Iterator::min(")):
                    ck.fail(rule, "is_staircase:order-dependent-reject", e.site,
                            "is_staircase returns false on a condition about the position of an entry in the stored list of a row / column "
                            "(first, last, next, nth): the same matrix built in another insertion order is judged differently")
                    rets_skip.append(e)
                    continue
                raise AnalysisError("is_staircase: rejecting return outside a loop over iter_all()")
        rets = [e for e in rets if e not in rets_skip]
        # (path conditions contributed by a reject already reported are left out of the evaluation of the rest)
        skipc = {repr(g_) for e_ in rets_skip for g_, _ in e_.guards}
        for e_ in rets:
            e_.guards = [(g_, p_) for g_, p_ in e_.guards if repr(g_) not in skipc]
        tr.assign_sites = [(nm_, v_, l_, [(g_, p_) for g_, p_ in gs_ if repr(g_) not in skipc]) for nm_, v_, l_, gs_ in tr.assign_sites]
        if not rets:
            raise AnalysisError("is_staircase: no rejecting loop left to read")
        jn, kn = rets[0].loops[0][1]

        def rejected(j, k):
            env = dict(base)
            env[jn] = j
            env[kn] = k
            for e in rets:
                try:
                    if all(bool(evaluate(g, env)) == pol for g, pol in e.guards):
                        return True
                except NotEvaluable as ex:
                    raise AnalysisError("is_staircase: condition not evaluable: %s" % ex)
            return False

        def counted(j, k):
            env = dict(base)
            env[jn] = j
            env[kn] = k
            n_ = 0
            for nm, val, loops, guards in tr.assign_sites:
                if loops and val == var(nm.split("#")[0] + "@loop") + num(1):
                    if all(bool(evaluate(g, env)) == pol for g, pol in guards):
                        n_ += 1
            return n_
        ctr = [nm.split("#")[0] for nm, val, loops, guards in tr.assign_sites if loops and val == var(nm.split("#")[0] + "@loop") + num(1)]
        if len(set(ctr)) == 1:
            X = var(ctr[0] + "@after")
            count_ok = ret in (app("eq", R * num(2) - num(1), X), app("eq", X, R * num(2) - num(1))) and \
                tr.carried_init.get([nm for nm, *_ in tr.assign_sites if nm.split("#")[0] == ctr[0]][0]) == num(0)
            # the counter advances exactly once per accepted entry of the parity part and never for the systematic part
            try:
                count_ok = count_ok and all(counted(j, k) == (0 if (k < Dn or rejected(j, k)) else 1) for j in range(Rn) for k in range(0, Cn))
            except NotEvaluable as ex:
                raise AnalysisError("is_staircase: counting condition not evaluable: %s" % ex)
    else:
        # form 2: iter_all().filter(in parity part).try_fold(0, |count, (j, k)| expected.then_some(count + 1)).is_some_and(|c| c == 2n-1)
        ra = single_atom(ret) if isinstance(ret, Poly) else None
        fin_direct = None
        if ra and atom_fn(ra) == "and":
            # normal form of o.is_some_and(f): matches(o, Some) && f(payload0 o)
            m_, f_ = atom_args(ra)
            ma_ = single_atom(m_) if isinstance(m_, Poly) else None
            if ma_ is not None and atom_fn(ma_) == "matches" and atom_args(ma_)[1] == repr(("Some", "_")) and isinstance(atom_args(ma_)[0], Poly) and isinstance(f_, Poly):
                from .symx import replace_atom
                o_ = atom_args(ma_)[0]
                fin_direct = replace_atom(f_, single_atom(app("payload0", o_)), var("count#g"))
                ra = ("f", "std::option::Option::<T>::is_some_and", ("P", o_), None)
        if not (ra and atom_fn(ra) == "std::option::Option::<T>::is_some_and"):
            raise AnalysisError("is_staircase: neither a rejecting loop nor a try_fold over the entries")
        tf = single_atom(atom_args(ra)[0]) if isinstance(atom_args(ra)[0], Poly) else None
        if not (tf and atom_fn(tf) == "std::iter::Iterator::try_fold" and isinstance(tf[2], tuple) and tf[2][0] == "iterdesc"):
            raise AnalysisError("is_staircase: the entries are not folded with try_fold")
        d = tf[2][1]
        filt = None
        if d[0] == "filter":
            filt, d = d[2], d[1]
        if "iter_all" not in repr(d) or d[0] != "elems":
            raise AnalysisError("is_staircase: try_fold does not run over iter_all()")
        J, K = var("j#g"), var("k#g")
        try:
            fval = tr.apply(as_closure(F, tr, filt), [("tuple", [J, K])]) if filt is not None else ("bool", True)
            step = tr.apply(as_closure(F, tr, tf[4]), [var("count#g"), ("tuple", [J, K])])
            fin = fin_direct if fin_direct is not None else tr.apply(as_closure(F, tr, atom_args(ra)[1]), [var("count#g")])
        except Unsupported as e:
            raise AnalysisError("is_staircase: closure unreadable: %s" % e)
        if not (isinstance(step, tuple) and len(step) == 3 and step[0] == "opt" and step[2] == var("count#g") + num(1)):
            raise AnalysisError("is_staircase: the fold step is not `expected.then_some(count + 1)`")
        sa = single_atom(step[1])
        acc_cond = unkey(atom_args(sa)[0]) if sa and atom_fn(sa) == "bool_to_option" else None
        if acc_cond is None:
            raise AnalysisError("is_staircase: acceptance condition unreadable")
        jn, kn = single_atom(J), single_atom(K)

        def ev_(v, j, k):
            env = dict(base)
            env[jn] = j
            env[kn] = k
            try:
                return bool(evaluate(v, env))
            except NotEvaluable as ex:
                raise AnalysisError("is_staircase: condition not evaluable: %s" % ex)

        def rejected(j, k):
            return ev_(fval, j, k) and not ev_(acc_cond, j, k)
        count_ok = fin in (app("eq", R * num(2) - num(1), var("count#g")), app("eq", var("count#g"), R * num(2) - num(1))) and tf[3] == ("P", num(0))
        # every entry of the parity part that is accepted is counted once: the count covers exactly the filtered entries
        if any(not ev_(fval, j, k) for j in range(Rn) for k in range(Dn, Cn)):
            count_ok = False
    first = {num(k - Dn) for k in range(Dn, Cn) if not rejected(0, k)}
    rest_by_j = []
    for j in range(1, Rn):
        rest_by_j.append({k - Dn - j for k in range(Dn, Cn) if not rejected(j, k)})
    if any(r != rest_by_j[0] for r in rest_by_j):
        rest = {var("j") + num(1000)}      # row-dependent acceptance: cannot be a staircase
    else:
        rest = {var("j") + num(d) for d in rest_by_j[0]}
    # entries left of the parity part must never be rejected
    if any(rejected(j, k) for j in range(Rn) for k in range(0, Dn)):
        first = first | {num(-1000)}
    return {"first": first, "rest": rest, "count_ok": count_ok, "site": b.span}
