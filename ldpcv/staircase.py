"""Shared by C02-S3 and C06-T5: the set of positions `is_staircase` accepts, read from its HIR."""
from .extract import AnalysisError
from .symx import Poly, app, var, num, subst, Unsupported, vkey
from .trace import Tracer

PATH = "encoder::staircase::is_staircase"


def _flatten_and(v):
    """and(and(a,b),c) -> [a,b,c] as atoms (each a Poly consisting of one atom)"""
    if isinstance(v, Poly) and len(v.t) == 1:
        (mono, c), = v.t.items()
        if c == 1 and len(mono) == 1 and mono[0][1] == 1:
            a = mono[0][0]
            if a[0] == "f" and a[1] == "and":
                return _flatten_and(a[2][1]) + _flatten_and(a[3][1])
            return [a]
    raise AnalysisError("is_staircase: unreadable condition %r" % (v,))


def accepted_set(F):
    """Returns {'first': {offsets accepted in row 0}, 'rest': {offsets accepted in row j != 0 (in terms of j)},
    'count_ok': bool} where offsets are relative to D = num_cols - num_rows, rendered as strings."""
    b = F.body(PATH)
    tr = Tracer(F, r"NONE", mode="int")
    env = {}
    tr.bind(b.params[0], var("h"), env)
    try:
        ret = tr.eval(b.value, env)
    except Unsupported as e:
        raise AnalysisError("is_staircase: unreadable shape: %s" % e)
    H = var("h")
    R = app("sparse::SparseMatrix::num_rows", H)
    Cc = app("sparse::SparseMatrix::num_cols", H)
    D = Cc - R
    rets = [e for e in tr.events if e.callee == "<return>"]
    first, rest = set(), set()
    n_counted_guard = None
    for e in rets:
        if e.args != [("bool", False)]:
            raise AnalysisError("is_staircase: early return of something other than `false`")
        if not e.loops or e.loops[0][0] != "iter" or "iter_all" not in repr(e.loops[0][2]):
            raise AnalysisError("is_staircase: rejecting return outside a loop over iter_all()")
        jn, kn = e.loops[0][1]
        J, K = var(jn), var(kn)
        gs = e.guards
        # outer guard: k >= D  (le(D, k))
        if not gs or gs[0] != (app("le", D, K), True):
            raise AnalysisError("is_staircase: parity-part guard is not `k >= cols - rows`")
        conj = []
        for g, pol in gs[1:]:
            if not pol:
                raise AnalysisError("is_staircase: negative guard")
            conj += _flatten_and(g)
        rowsel = None
        offs = set()
        for a in conj:
            x, y = a[2][1], a[3][1]
            if a[1] in ("eq", "ne") and ((x == num(0) and y == J) or (y == num(0) and x == J)):
                rowsel = a[1]
            elif a[1] == "ne":
                other = y if x == K else (x if y == K else None)
                if other is None:
                    raise AnalysisError("is_staircase: conjunct not about k: %r" % (a,))
                offs.add(other - D)
            else:
                raise AnalysisError("is_staircase: unreadable conjunct %r" % (a,))
        if rowsel == "eq":
            first |= offs
        elif rowsel == "ne":
            rest |= offs
        else:
            raise AnalysisError("is_staircase: reject condition without a row selector")
    # count: num_checked incremented once per parity entry, compared with 2*rows - 1
    count_ok = ret == app("eq", R * num(2) - num(1), var("num_checked@after")) or \
        ret == app("eq", var("num_checked@after"), R * num(2) - num(1))
    return {"first": first, "rest": rest, "count_ok": count_ok, "site": b.span}
