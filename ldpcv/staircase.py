"""Shared by C02-S3 and C06-T5: the set of positions `is_staircase` accepts, read from its HIR."""
from .extract import AnalysisError
from .symx import Poly, app, var, num, subst, Unsupported, vkey
from .trace import Tracer

PATH = "encoder::staircase::is_staircase"


def _flatten_and(v):
    """and(and(a,b),c) -> [a,b,c] as atoms (each a Poly consisting of one atom)"""
    if isinstance(v, Poly) and len(v.t) == 1:
        (mono, c), = v.t.items()
        if c == 1 and len(mono) == 1 and mono[0][1] == 1:
            a = mono[0][0]
            if a[0] == "f" and a[1] == "and":
                return _flatten_and(a[2][1]) + _flatten_and(a[3][1])
            return [a]
    raise AnalysisError("is_staircase: unreadable condition %r" % (v,))


def accepted_set(F):
    """Returns {'first': {offsets accepted in row 0}, 'rest': {offsets accepted in row j != 0 (in terms of j)},
    'count_ok': bool} where offsets are relative to D = num_cols - num_rows, rendered as strings."""
    b = F.body(PATH)
    tr = Tracer(F, r"NONE", mode="int")
    env = {}
    tr.bind(b.params[0], var("h"), env)
    try:
        ret = tr.eval(b.value, env)
    except Unsupported as e:
        raise AnalysisError("is_staircase: unreadable shape: %s" % e)
    H = var("h")
    R = app("sparse::SparseMatrix::num_rows", H)
    Cc = app("sparse::SparseMatrix::num_cols", H)
    D = Cc - R
    rets = [e for e in tr.events if e.callee == "<return>"]
    from .symx import evaluate, NotEvaluable, single_atom
    for e in rets:
        if e.args != [("bool", False)]:
            raise AnalysisError("is_staircase: early return of something other than `false`")
        if not e.loops or e.loops[0][0] != "iter" or "iter_all" not in repr(e.loops[0][2]):
            raise AnalysisError("is_staircase: rejecting return outside a loop over iter_all()")
    if not rets:
        raise AnalysisError("is_staircase: no rejecting return found")
    jn, kn = rets[0].loops[0][1]
    # The accepted set is read *semantically*: the rejecting path conditions are evaluated as formulas on a grid of
    # (row j, column k) around the diagonal of a representative shape; what is not rejected in the parity part is accepted.
    Rn, Cn = 9, 23
    Dn = Cn - Rn
    base = {single_atom(R): Rn, single_atom(Cc): Cn}

    def rejected(j, k):
        env = dict(base)
        env[jn] = j
        env[kn] = k
        for e in rets:
            try:
                if all(bool(evaluate(g, env)) == pol for g, pol in e.guards):
                    return True
            except NotEvaluable as ex:
                raise AnalysisError("is_staircase: condition not evaluable: %s" % ex)
        return False
    first = {num(k - Dn) for k in range(Dn, Cn) if not rejected(0, k)}
    rest_by_j = []
    for j in range(1, Rn):
        rest_by_j.append({k - Dn - j for k in range(Dn, Cn) if not rejected(j, k)})
    if any(r != rest_by_j[0] for r in rest_by_j):
        rest = {var("j") + num(1000)}      # row-dependent acceptance: cannot be a staircase
    else:
        rest = {var("j") + num(d) for d in rest_by_j[0]}
    # entries left of the parity part must never be rejected
    if any(rejected(j, k) for j in range(Rn) for k in range(0, Dn)):
        first = first | {num(-1000)}
    # count: num_checked incremented once per parity entry, compared with 2*rows - 1
    count_ok = ret == app("eq", R * num(2) - num(1), var("num_checked@after")) or \
        ret == app("eq", var("num_checked@after"), R * num(2) - num(1))
    return {"first": first, "rest": rest, "count_ok": count_ok, "site": b.span}
