"""Compile-fail witness crate runner (thorough tier): builds a scratch crate that path-depends on the analysed tree."""
import os
import re
import shutil
import subprocess

from .extract import VERIF, REPO, WORK, AnalysisError


def run_witnesses():
    """returns {doctest name: 'ok' | 'FAILED'}; raises AnalysisError when the crate cannot be built"""
    d = os.path.join(WORK, "witness-%d" % os.getpid())
    tgt = os.path.join(WORK, "witness-tgt-%d" % os.getpid())
    shutil.rmtree(d, ignore_errors=True)
    os.makedirs(os.path.join(d, "src"))
    shutil.copy(os.path.join(VERIF, "witness", "src", "lib.rs"), os.path.join(d, "src", "lib.rs"))
    with open(os.path.join(d, "Cargo.toml"), "w") as f:
        f.write('[package]\nname = "ldpcv_witness"\nversion = "0.0.0"\nedition = "2024"\n\n[dependencies]\n'
                'ldpc-toolbox = { path = "%s" }\nnum-traits = "0.2"\nrand = "0.9"\n\n[workspace]\n' % REPO)
    lock = os.path.join(REPO, "Cargo.lock")
    if os.path.exists(lock):
        shutil.copy(lock, os.path.join(d, "Cargo.lock"))
    env = dict(os.environ, CARGO_NET_OFFLINE="true", CARGO_TARGET_DIR=tgt)
    env.pop("RUSTC_WORKSPACE_WRAPPER", None)
    env.pop("RUSTFLAGS", None)
    try:
        r = subprocess.run(["cargo", "+nightly", "test", "--doc", "--offline"], cwd=d, env=env, stdout=subprocess.PIPE,
                           stderr=subprocess.STDOUT, text=True, timeout=1500)
        out = r.stdout
        res = {}
        for m in re.finditer(r"^test (src/lib\.rs - \S+ \(line \d+\)( - compile fail| - compile)?) \.\.\. (ok|FAILED)", out, re.M):
            res[m.group(1)] = m.group(3)
        if not res:
            raise AnalysisError("witness crate did not build/run:\n" + out[-3000:])
        return res
    finally:
        shutil.rmtree(d, ignore_errors=True)
        shutil.rmtree(tgt, ignore_errors=True)


EXPECT = {"W1": (2, 1, "SparseMatrix's mirrored lists are private: outside code cannot write them (E0616); the public mutators compile"),
          "W2": (1, 1, "a GF2 other than 0/1 cannot be constructed from outside (E0603); Zero/One/arithmetic compile"),
          "W3": (1, 1, "ChannelType is sealed: no outside noise type can be added (E0277); the two provided ones compile")}


def check_witnesses(ck, rule, which):
    """thorough tier: each named witness must have its compile_fail doctests failing with the stated error code and its
    compile-only twin building, against the analysed tree"""
    res = run_witnesses()
    for w in which:
        nfail, ntwin, what = EXPECT[w]
        mine = {k: v for k, v in res.items() if (" - " + w) in k}
        cf = [k for k in mine if k.endswith("compile fail")]
        tw = [k for k in mine if not k.endswith("compile fail")]
        ok = len(cf) == nfail and len(tw) == ntwin and all(v == "ok" for v in mine.values())
        ck.inst(rule, "witness:" + w, ok, "witness/src/lib.rs", "%s [%d compile_fail ok, %d twin ok%s]" % (
            what, sum(1 for k in cf if mine[k] == "ok"), sum(1 for k in tw if mine[k] == "ok"),
            "" if ok else "; results: %s" % mine))
