"""Compile-fail witness crate runner (thorough tier): builds a scratch crate that path-depends on the analysed tree."""
import os
import re
import shutil
import subprocess

from .extract import VERIF, REPO, WORK, AnalysisError


def run_witnesses():
    """returns {doctest name: 'ok' | 'FAILED'}; raises AnalysisError when the crate cannot be built"""
    d = os.path.join(WORK, "witness-%d" % os.getpid())
    tgt = os.path.join(WORK, "witness-tgt-%d" % os.getpid())
    shutil.rmtree(d, ignore_errors=True)
    os.makedirs(os.path.join(d, "src"))
    shutil.copy(os.path.join(VERIF, "witness", "src", "lib.rs"), os.path.join(d, "src", "lib.rs"))
    with open(os.path.join(d, "Cargo.toml"), "w") as f:
        f.write('[package]\nname = "ldpcv_witness"\nversion = "0.0.0"\nedition = "2024"\n\n[dependencies]\n'
                'ldpc-toolbox = { path = "%s" }\nnum-traits = "0.2"\nrand = "0.9"\n\n[workspace]\n' % REPO)
    lock = os.path.join(REPO, "Cargo.lock")
    if os.path.exists(lock):
        shutil.copy(lock, os.path.join(d, "Cargo.lock"))
    env = dict(os.environ, CARGO_NET_OFFLINE="true", CARGO_TARGET_DIR=tgt)
    env.pop("RUSTC_WORKSPACE_WRAPPER", None)
    env.pop("RUSTFLAGS", None)
    try:
        r = subprocess.run(["cargo", "+nightly", "test", "--doc", "--offline"], cwd=d, env=env, stdout=subprocess.PIPE,
                           stderr=subprocess.STDOUT, text=True, timeout=1500)
        out = r.stdout
        res = {}
        for m in re.finditer(r"^test (src/lib\.rs - \S+ \(line \d+\)( - compile fail)?) \.\.\. (ok|FAILED)", out, re.M):
            res[m.group(1)] = m.group(3)
        if not res:
            raise AnalysisError("witness crate did not build/run:\n" + out[-3000:])
        return res
    finally:
        shutil.rmtree(d, ignore_errors=True)
        shutil.rmtree(tgt, ignore_errors=True)
