"""A2 + A9: call graph over MIR and the panic-site engine.

Ground truth for "what can panic" is MIR: every `Assert` terminator (overflow, bounds, division)
and every call to a panic-capable library function in the bodies reachable from an entry point.
Each site is then discharged either automatically (a structural argument re-established on every
run from the symbolic path condition of the matching HIR construct) or by a reviewed ledger entry
keyed by (kind, operator/callee, symbolic operands) - never by line number.
"""
import re

from .extract import AnalysisError
from .facts import walk, strip, callee
from .symx import Poly, Unsupported, app, var, num, vkey, single_atom, atom_fn, atom_args
from .trace import Tracer, Event

PANICKY = [
    r"std::option::Option::<T>::(unwrap|expect)",
    r"std::result::Result::<T, E>::(unwrap|expect|unwrap_err|expect_err)",
    r"core::panicking::.*", r"std::rt::begin_panic.*", r"std::rt::panic_fmt", r"std::process::abort",
    r"std::ops::Index::index", r"std::ops::IndexMut::index_mut",
    r"core::slice::<impl \[T\]>::(copy_from_slice|clone_from_slice|split_at|split_at_mut|swap|chunks|chunks_exact|windows|rotate_left|rotate_right)",
    r"std::vec::Vec::<T>::(remove|insert|swap_remove|drain|split_off)", r"std::vec::Vec::<T, A>::(remove|insert|swap_remove|drain|split_off)",
    r"ndarray::.*::(slice|slice_mut|slice_move|swap|dot|assign|assign_to|index_axis|row|column)",
    r"ndarray::impl_constructors::<impl ndarray::ArrayBase<S, D>>::(zeros|uninit|from_elem)",
    r"std::iter::Iterator::step_by",
    r"std::thread::JoinHandle::<T>::join",
]
PANICKY_RX = re.compile("|".join("(?:%s)" % p for p in PANICKY))


def mir_callees(body):
    """(callee path, instance path or None, terminator, block index) for every call terminator."""
    out = []
    if not body.mir:
        return out
    for i, bb in enumerate(body.mir["blocks"]):
        if bb.get("cleanup"):
            continue
        t = bb["term"]
        if t["k"] == "call":
            f = t["func"]
            out.append((f.get("fn"), f.get("inst"), t, i))
    return out


def mir_fn_refs(body):
    """paths of fn items / closures referenced as values (passed as arguments, stored)."""
    refs = set()
    if not body.mir:
        return refs
    for bb in body.mir["blocks"]:
        if bb.get("cleanup"):
            continue

        def ops_of(x):
            if isinstance(x, dict):
                if x.get("k") == "const" and x.get("fn"):
                    refs.add(x.get("inst") or x["fn"])
                    refs.add(x["fn"])
                if x.get("k") == "aggr" and x.get("ak") == "closure":
                    refs.add(x["closure"])
                for v in x.values():
                    ops_of(v)
            elif isinstance(x, list):
                for v in x:
                    ops_of(v)
        for s in bb["stmts"]:
            ops_of(s)
        ops_of(bb["term"])
    return refs


def reachable(F, entries, stop=None):
    """Local bodies reachable from `entries` through resolved calls, fn references and closures."""
    seen = {}
    work = [F.body(e) for e in entries]
    while work:
        b = work.pop()
        if b.path in seen:
            continue
        seen[b.path] = b
        if stop and stop(b.path):
            continue
        for p in mir_fn_refs(b):
            nb = F.bodies.get(p)
            if nb is not None and nb.path not in seen:
                work.append(nb)
    return seen


def trait_impl_targets(F, callee_path):
    """Unresolved trait-method call (e.g. on a type parameter): all local impl methods of that name."""
    m = re.match(r"(.+)::(\w+)$", callee_path or "")
    if not m:
        return []
    trait, meth = m.groups()
    out = []
    for im in F.impls_of(trait):
        for mem in im["members"]:
            if mem["name"] == meth and mem["path"] in F.bodies:
                out.append(F.bodies[mem["path"]])
    return out


def mir_sites(body):
    """Panic-capable sites of one body from MIR."""
    out = []
    if not body.mir:
        return out
    for i, bb in enumerate(body.mir["blocks"]):
        if bb.get("cleanup"):
            continue
        t = bb["term"]
        if t["k"] == "assert":
            out.append({"body": body.path, "kind": t["ak"], "sp": t["sp"], "se": t.get("se"), "exp": t.get("exp"), "bb": i})
        elif t["k"] == "call":
            f = t["func"]
            c = f.get("fn") or ""
            if PANICKY_RX.fullmatch(c):
                out.append({"body": body.path, "kind": "call", "callee": c, "inst": f.get("inst"), "sp": t["sp"], "se": t.get("se"),
                            "exp": t.get("exp"), "bb": i, "fty": f.get("ty", "")})
    return out


# ---------------------------------------------------------------------------
# HIR side: a tracer that records every potentially panicking construct with its path condition
# ---------------------------------------------------------------------------

INT_TYS = {"usize", "u8", "u16", "u32", "u64", "u128", "isize", "i8", "i16", "i32", "i64", "i128"}


class SiteTracer(Tracer):
    """Tracer that (i) inlines local callees, (ii) records arithmetic / index / panicky-call sites and
    (iii) extends the path condition with the negation of early-exit conditions."""

    def __init__(self, F, contracts=r"NONE", no_inline=r"sparse::SparseMatrix::(num_rows|num_cols|iter_all)", **kw):
        self.contract_rx = re.compile(contracts)
        self.noinline_rx = re.compile(no_inline)
        super().__init__(F, contracts, inline=self._inline, **kw)
        self.sites = []
        self.explored = set()
        self.unreadable = []
        self.not_inlined = []
        self.max_depth = 8
        self.fn_stack = []

    def _inline(self, p):
        if p is None or self.noinline_rx.fullmatch(p) or self.contract_rx.fullmatch(p):
            return None
        b = self.F.bodies.get(p)
        if b is not None and b.hir:
            return b
        return None

    def site(self, kind, n, detail, vals):
        from .trace import next_seq
        self.sites.append({"seq": next_seq(), "kind": kind, "sp": n.get("sp"), "se": n.get("se"), "detail": detail, "vals": vals,
                           "loops": list(self.loops), "guards": list(self.guards), "node": n,
                           "fn": self.fn_stack[-1] if self.fn_stack else None})

    def call_fn(self, path, inst, args, n, env):
        from .symx import IDENTITY_CALLS, STD_NUM_RX
        if path and self.rx.fullmatch(path):
            self.site("contract", n or {}, path, list(args))
            for a in args:
                self.explore_closure(a)
            return app(path, *args)
        if path and PANICKY_RX.fullmatch(path) and n is not None:
            self.site("call", n, path, list(args))
        base = (path or "").rsplit("::", 1)[-1]
        if path and path.startswith(("std::iter::Iterator::", "core::iter::", "std::iter::")) and base in self.CONSUMERS and args:
            # a range used directly as an iterator: (a..b).find(..), (a..=b).any(..)
            r0 = args[0]
            if isinstance(r0, tuple) and len(r0) == 3 and r0[0] == "struct" and r0[1] in ("Range", "RangeInclusive"):
                f_ = r0[2] if isinstance(r0[2], dict) else dict(r0[2])
                args = [("iterdesc", ("range", f_.get("start"), f_.get("end"), r0[1] == "RangeInclusive"))] + list(args[1:])
            else:
                ra_ = single_atom(r0) if isinstance(r0, Poly) else None
                if ra_ and (atom_fn(ra_) or "").endswith("RangeInclusive::<Idx>::new"):
                    a_, b_ = atom_args(ra_)
                    args = [("iterdesc", ("range", a_, b_, True))] + list(args[1:])
        if path and path.startswith(("std::iter::Iterator::", "core::iter::", "std::iter::")) and base in self.CONSUMERS \
                and args and isinstance(args[0], tuple) and args[0] and args[0][0] == "iterdesc" \
                and base not in ("map", "filter", "filter_map", "take_while", "map_while", "flat_map", "next"):
            cl = [x for x in args[1:] if isinstance(x, tuple) and x and x[0] in ("closure", "fn")]
            res = []

            srch = {}

            def then(val, cl=cl, res=res):
                srch["loop"] = self.loops[-1]
                for c in cl:
                    if base in ("fold",):
                        res.append(self.apply_any(c, [var("acc@fold"), val]))
                    elif base in ("max_by", "min_by", "reduce"):
                        res.append(self.apply_any(c, [val, val]))
                    else:
                        res.append(self.apply_any(c, [val]))
            self.consume(args[0][1], then)
            out = self.call_opaque_noexplore(path, args)
            if base in ("find", "position", "any", "all", "find_map") and res and "loop" in srch:
                # a search over an iterator is a loop that is left at the first element satisfying the predicate: remember the loop
                # and the predicate value so that rules can read `match it.find(p) { Some(i) => A, None => B }` as such a loop
                if not hasattr(self, "searches"):
                    self.searches = {}
                self.searches[repr(vkey(out))] = {"kind": base, "loop": srch["loop"], "pred": res[0], "value": out}
            return out
        body = self._inline(inst or path) or self._inline(path)
        if body is not None:
            if body.path in self.fn_stack or self.depth >= self.max_depth:
                self.not_inlined.append(body.path)
                return self.call_opaque(path, args)
            self.fn_stack.append(body.path)
            try:
                return self.inline_body(body, args)
            finally:
                self.fn_stack.pop()
        if path in IDENTITY_CALLS and len(args) == 1:
            return args[0]
        if path in ("std::cmp::min", "std::cmp::max", "std::cmp::Ord::min", "std::cmp::Ord::max") and len(args) == 2:
            from .symx import mk_minmax
            return mk_minmax(path.rsplit("::", 1)[-1], args[0], args[1])
        ov = self.option_call(path, args)
        if ov is not None:
            return ov
        mm = STD_NUM_RX.match(path or "")
        if mm and mm.group(2) == "checked_sub" and len(args) == 2 and isinstance(args[0], Poly) and isinstance(args[1], Poly) and "impl u" in path:
            return ("opt", app("bool_to_option", self.arith("Le", args[1], args[0])), args[0] - args[1])
        if mm:
            if mm.group(2) in ("min", "max") and len(args) == 2:
                from .symx import mk_minmax
                return mk_minmax(mm.group(2), args[0], args[1])
            return app(mm.group(2), *args)
        return self.call_opaque(path, args)

    def call_opaque_noexplore(self, path, args):
        from .symx import SymEval
        return SymEval.call_opaque(self, path, args)

    def call_opaque(self, path, args):
        # ndarray shape model: dim()/raw_dim() of zeros(shape) is shape
        if path and path.endswith(("::dim", "::raw_dim")) and len(args) == 1:
            b0 = unwrap_mut(args[0])
            a = single_atom(b0) if isinstance(b0, Poly) else None
            if a and "zeros" in (atom_fn(a) or ""):
                sh = a[2]
                if isinstance(sh, tuple) and sh and sh[0] == "tuple":
                    return ("tuple", [k[1] if isinstance(k, tuple) and k and k[0] == "P" else k for k in sh[1]])
        # a closure handed to an opaque (library) function may be called: walk its body once with
        # opaque parameters so that the sites inside are audited
        for a in args:
            self.explore_closure(a)
        return super().call_opaque(path, args)

    CONSUMERS = {"any", "all", "for_each", "find_map", "find", "position", "fold", "sum", "product", "count", "collect",
                 "max", "min", "max_by", "min_by", "max_by_key", "min_by_key", "last", "next", "reduce", "take_while",
                 "map_while", "flat_map", "filter", "filter_map", "map", "unzip", "nth", "rposition"}

    def consume(self, desc, then=None):
        """Walk one generic element through an iterator pipeline inside a loop context, applying every closure
        of the pipeline (so that the sites inside them are audited with the right range facts), then `then`."""
        layers = []
        d = desc
        while isinstance(d, tuple) and d and d[0] in ("map", "filter", "filter_map", "enumerate", "rev", "skip", "step_by",
                                                      "take", "zip", "take_while", "map_while", "flat_map", "cloned", "copied"):
            layers.append(d)
            d = d[1]
        self.nloop = getattr(self, "nloop", 0) + 1
        hint = "it%d" % self.nloop
        if isinstance(d, tuple) and d and d[0] == "range":
            loop = ("range", hint, d[1], d[2], d[3])
            val = var(hint)
        elif isinstance(d, tuple) and d and d[0] == "elems":
            loop = ("iter", hint, d)
            val = app("elem", d[1], var(hint))
        elif isinstance(d, tuple) and d and d[0] in ("windows", "chunks_exact") and len(d) == 3:
            loop = ("iter", hint, d)
            val = app("window", d[1], d[2], var(hint))
        else:
            loop = ("iter", hint, d)
            val = app("elem?", var(hint))
        self.loops.append(loop)
        npush = 0
        try:
            for layer in reversed(layers):
                kind = layer[0]
                if kind in ("map", "filter", "filter_map", "take_while", "map_while", "flat_map") and len(layer) > 2:
                    r = self.apply_any(layer[2], [val])
                    if kind in ("filter", "take_while") and isinstance(r, Poly):
                        # elements that get past a filter satisfy its predicate
                        self.guards.append((r, True))
                        npush += 1
                    if kind == "map":
                        val = r
                    elif kind in ("filter_map", "map_while", "flat_map"):
                        val = app("payload0", r)
                elif kind == "enumerate":
                    val = ("tuple", [var(hint + "_idx"), val])
                elif kind == "zip":
                    other = layer[2] if len(layer) > 2 else None
                    if isinstance(other, tuple) and other and other[0] == "iterdesc":
                        oval = self.consume_inner(other[1], hint + "_z")
                    else:
                        oval = app("elem", other, var(hint + "_z"))
                    val = ("tuple", [val, oval])
            if then is not None:
                then(val)
            return val
        finally:
            for _ in range(npush):
                self.guards.pop()
            self.loops.pop()

    def consume_inner(self, desc, hint):
        try:
            return self.elem_value(desc, hint)
        except Unsupported:
            return app("elem?", var(hint))

    def apply_any(self, f, args):
        if isinstance(f, tuple) and f and f[0] == "closure" and isinstance(f[1], dict):
            self.explored.add(id(f[1]))
        try:
            return self.apply(f, args)
        except Unsupported as e:
            self.unreadable.append(str(e))
            return app("unreadable")

    def explore_closure(self, a):
        if isinstance(a, tuple) and a and a[0] == "closure" and isinstance(a[1], dict):
            node = a[1]
            if id(node) in self.explored:
                return
            self.explored.add(id(node))
            cenv = dict(a[2])
            for p in node["params"]:
                names = [x["name"].split("#")[0] for x in walk(p) if x.get("k") == "bind"]
                try:
                    self.bind(p, var((names[0] if names else "arg") + "@cl"), cenv)
                except Unsupported:
                    pass
                # tuple patterns: bind each name to its own opaque variable (a struct pattern keeps the field relation:
                # |SentMessage { dest, value }| gives arg.dest / arg.value of the one opaque argument)
                pk = p
                while pk.get("k") in ("pref", "pderef"):
                    pk = pk["p"]
                if pk.get("k") != "pstruct":
                    for x in walk(p):
                        if x.get("k") == "bind":
                            cenv[x["name"]] = var(x["name"].split("#")[0] + "@cl")
            self.loops.append(("closure", node.get("def")))
            try:
                self.eval(node["body"], cenv)
            except Unsupported:
                self.unreadable.append(node.get("sp"))
            finally:
                self.loops.pop()
        elif isinstance(a, tuple) and a and a[0] == "iterdesc":
            key = repr(vkey(a))[:400]
            if key in self.explored:
                return
            self.explored.add(key)
            try:
                self.consume(a[1])
            except Unsupported as e:
                self.unreadable.append(str(e))

    def e_bin(self, n, env):
        a = self.eval(n["l"], env)
        if n["op"] in ("And", "Or") and not n.get("ovl"):
            # short-circuit: the right operand is evaluated only when the left one is true (And) / false (Or)
            self.guards.append((a, n["op"] == "And"))
            try:
                b = self.eval(n["r"], env)
            finally:
                self.guards.pop()
            return self.arith(n["op"], a, b)
        b = self.eval(n["r"], env)
        ty = n["l"].get("ty", "").lstrip("&")
        if not n.get("ovl") and ty in INT_TYS and n["op"] in ("Add", "Sub", "Mul", "Div", "Rem", "Shl", "Shr"):
            self.site("arith", n, n["op"], [a, b])
        elif n.get("ovl") and n["op"] in ("Add", "Sub", "Mul", "Div", "Rem") and ty in INT_TYS:
            # &usize + usize etc. resolve to the primitive impls: same overflow semantics
            self.site("arith", n, n["op"], [a, b])
        elif n.get("ovl") and n["op"] in ("Div", "Rem"):
            self.site("ovl-div", n, n.get("inst") or n.get("def"), [a, b])
        if n.get("ovl") and not (isinstance(a, Poly) and isinstance(b, Poly)):
            return app("op_" + n["op"].lower(), a, b)
        return self.arith(n["op"], a, b)

    def e_un(self, n, env):
        v = super().e_un(n, env)
        if n["op"] == "Neg" and not n.get("ovl") and n.get("ty") in INT_TYS:
            self.site("arith", n, "Neg", [self.eval(n["e"], env)])
        return v

    def e_index(self, n, env):
        base = self.eval(n["e"], env)
        idx = self.eval(n["i"], env)
        self.site("index", n, n.get("base_adj", ""), [base, idx])
        if isinstance(base, tuple) and base and base[0] == "array" and isinstance(idx, Poly) and idx.const_value() is not None:
            return base[1][int(idx.const_value())]
        return app("index", base, idx)

    def e_assignop(self, n, env):
        l = self.eval(n["l"], env)          # the value read by the compound assignment (a tracked field: its current value)
        r = self.eval(n["r"], env)
        ty = n["l"].get("ty", "")
        op = n["op"].replace("Assign", "")
        if ty in INT_TYS and op in ("Add", "Sub", "Mul", "Div", "Rem", "Shl", "Shr"):
            self.site("arith", n, op, [l, r])
        if self.track_fields:
            l = self.eval_lhs(n["l"], env)
            new = self.store_field(l, r, op)
            self.events.append(Event("<assign>", [l, r] + ([new] if new is not None else []), self.loops, self.guards, n.get("sp"), n))
            return ("tuple", [])
        self.events.append(Event("<assign>", [l, r], self.loops, self.guards, n.get("sp"), n))
        return ("tuple", [])

    def e_block(self, n, env):
        env = dict(env) if n.get("stmts") else env
        pushed = 0
        try:
            for s in n.get("stmts", []):
                if s["k"] == "let":
                    if "init" in s:
                        v = self.eval(s["init"], env)
                        pushed += self._flushed()
                        if "els" in s:
                            from .tables import pat_key as _pk
                            self.guards.append((app("matches", v, repr(_pk(s["pat"]))), False))
                            try:
                                self.eval(s["els"], dict(env))
                            finally:
                                self.guards.pop()
                        self.bind(s["pat"], v, env)
                        if "els" in s:
                            # let PAT = v else { diverge }: afterwards PAT matched
                            from .tables import pat_key
                            self.guards.append((app("matches", v, repr(pat_key(s["pat"]))), True))
                            pushed += 1
                    continue
                e = s["e"]
                from .symx import is_assert, _panics
                if e.get("k") in ("assign", "assignop"):
                    from .facts import plain_local
                    nm_ = plain_local(e["l"])
                    if nm_ is not None:
                        tgt = {"name": nm_}
                        r = self.eval(e["r"], env)
                        pushed += self._flushed()
                        if e["k"] == "assignop":
                            lv = self.eval(e["l"], env)
                            op = e["op"].replace("Assign", "")
                            if e["l"].get("ty") in INT_TYS and op in ("Add", "Sub", "Mul"):
                                self.site("arith", e, op, [lv, r])
                            r = self.arith(op, lv, r)
                        env[tgt["name"]] = r
                        self.assign_sites.append((nm_, r, list(self.loops), list(self.guards)))
                        continue
                    self.eval(e, env)
                    pushed += self._flushed()
                    continue
                if is_assert(e):
                    c = self.assert_cond(e, env)
                    self.site("assert", e, "assert!", [c])
                    if c is not None:
                        self.guards.append((c, True))
                        pushed += 1
                    continue
                if _panics(e):
                    self.site("panic", e, "explicit panic", [])
                    return ("panic",)
                # early exit: `if c { return/break/continue }` without else => not c afterwards
                ee = strip(e)
                if ee.get("k") == "if" and "e" not in ee and diverges(ee["t"]):
                    c = self.eval(ee["c"], env)
                    if not (isinstance(c, tuple) and c and c[0] == "bool"):
                        self.guards.append((c, True))
                        try:
                            self.eval(ee["t"], dict(env))
                        finally:
                            self.guards.pop()
                        self.guards.append((c, False))
                        pushed += 1
                        continue
                if ee.get("k") == "if" and strip(ee["c"]).get("k") == "letx" and "e" not in ee and diverges(ee["t"]):
                    # `if let P = v { ..; return/break/continue }`: the rest of the block runs when P did not match
                    self._letx_guard = None
                    self.eval(e, env)
                    pushed += self._flushed()
                    if isinstance(self._letx_guard, Poly):
                        self.guards.append((self._letx_guard, False))
                        pushed += 1
                    continue
                v = self.eval(e, env)
                pushed += self._flushed()
            if n.get("e") is not None:
                return self.eval(n["e"], env)
            return ("tuple", [])
        finally:
            for _ in range(pushed):
                self.guards.pop()

    def _flushed(self):
        """number of guards established by `?` in the statement just read (see Tracer._flush_after_stmt)"""
        box = [0]
        self._flush_after_stmt(box)
        return box[0]

    def assert_cond(self, e, env):
        """condition asserted by an assert!-like statement, as a symbolic boolean (or None)."""
        e = strip(e)
        try:
            if e.get("k") == "if":
                c = self.eval(e["c"], env)
                a = single_atom(c) if isinstance(c, Poly) else None
                if a and atom_fn(a) == "not":
                    return atom_args(a)[0]
                return app("not", c)
            if e.get("k") == "match" and len(e["arms"]) == 1:
                # assert_eq!(a, b): match (&a, &b) { (l, r) => if !(*l == *r) {..} }
                s = self.eval(e["e"], env)
                e2 = dict(env)
                self.bind(e["arms"][0]["pat"], s, e2)
                return self.assert_cond(e["arms"][0]["body"], e2)
            if e.get("k") == "block":
                inner = e.get("e") if e.get("e") is not None else e["stmts"][0]["e"]
                return self.assert_cond(inner, env)
        except Unsupported:
            return None
        return None


from .trace import diverges  # noqa: E402  (shared with the plain Tracer)


# ---------------------------------------------------------------------------
# facts derivable from a path condition
# ---------------------------------------------------------------------------

def le_facts(guards, loops):
    """Set of (x, y, strict) meaning x <= y (or x < y) known on the path; x,y are Polys."""
    facts = []
    for g, pol in guards:
        a = single_atom(g) if isinstance(g, Poly) else None
        if not a:
            continue
        fn = atom_fn(a)
        args = atom_args(a)
        if fn in ("lt", "le") and len(args) == 2 and all(isinstance(x, Poly) for x in args):
            x, y = args
            if pol:
                facts.append((x, y, fn == "lt"))
            else:
                facts.append((y, x, fn == "le"))
        if fn == "ne" and pol and len(args) == 2:
            for x, y in ((args[0], args[1]), (args[1], args[0])):
                if isinstance(x, Poly) and x.const_value() == 0 and isinstance(y, Poly):
                    facts.append((num(0), y, True))
        if fn == "eq" and not pol and len(args) == 2:
            for x, y in ((args[0], args[1]), (args[1], args[0])):
                if isinstance(x, Poly) and x.const_value() == 0 and isinstance(y, Poly):
                    facts.append((num(0), y, True))
        if fn == "and" and pol:
            sub = [(atom_args(a)[0], True), (atom_args(a)[1], True)]
            facts += le_facts(sub, [])
        if fn == "matches" and not pol and len(args) == 2 and str(args[1]).strip("'") == "0" and isinstance(args[0], Poly):
            facts.append((num(0), args[0], True))      # `match x { 0 => .., _ => here }` on an unsigned x: x >= 1
    for l in loops:
        if l[0] == "range":
            v = var(l[1])
            facts.append((l[2], v, False))
            facts.append((v, l[3], not l[4]))
        if l[0] == "iter" and isinstance(l[1], tuple) and len(l[1]) == 2 and l[2][0] == "elems":
            sa = single_atom(l[2][1]) if isinstance(l[2][1], Poly) else None
            if sa and atom_fn(sa) == "sparse::SparseMatrix::iter_all":
                d = matrix_dims(atom_args(sa)[0])
                facts.append((var(l[1][0]), d[0], True))
                facts.append((var(l[1][1]), d[1], True))
    return facts


def nonneg(p):
    """polynomial over unsigned quantities with only non-negative coefficients (hence >= 0)"""
    return isinstance(p, Poly) and all(c >= 0 for c in p.t.values())


def pos(p):
    return nonneg(p) and p.t.get((), 0) > 0


def saturate(facts, rounds=2):
    facts = list(facts)
    for _ in range(rounds):
        new = []
        for (a, b, s1) in facts:
            for (c, d, s2) in facts:
                if isinstance(b, Poly) and isinstance(c, Poly) and b == c and not (a == c):
                    f = (a, d, s1 or s2)
                    if not any(f[0] == g[0] and f[1] == g[1] and f[2] == g[2] for g in facts + new):
                        new.append(f)
        if not new:
            break
        facts += new
    return facts


def proves_le(x, y, facts, strict=False):
    """x <= y (x < y when strict): from non-negativity of unsigned atoms, or from one known fact a <= b
    (after transitive saturation) such that (y - x) - (b - a) is non-negative."""
    if not (isinstance(x, Poly) and isinstance(y, Poly)):
        return False
    d = y - x
    if (pos(d) if strict else nonneg(d)):
        return True
    for (a, b, st) in saturate([f for f in facts if isinstance(f[0], Poly) and isinstance(f[1], Poly)]):
        rest = d - (b - a)          # y - x = rest + (b - a), and b - a >= (1 if st else 0)
        if st:
            if nonneg(rest) or (not strict and nonneg(rest + num(1))):
                return True
        else:
            if (pos(rest) if strict else nonneg(rest)):
                return True
    # two facts: y - x = rest2 + (b1 - a1) + (b2 - a2)
    fs = [f for f in facts if isinstance(f[0], Poly) and isinstance(f[1], Poly)]
    for i, (a1, b1, s1) in enumerate(fs):
        for (a2, b2, s2) in fs[i + 1:]:
            rest2 = d - (b1 - a1) - (b2 - a2)
            slack = (1 if s1 else 0) + (1 if s2 else 0)
            need = 1 if strict else 0
            if nonneg(rest2 + num(slack - need)) if slack >= need else (pos(rest2) if strict else nonneg(rest2)):
                return True
    return False


# ---------------------------------------------------------------------------
# the audit: classify every site of an entry point
# ---------------------------------------------------------------------------

SM = "sparse::SparseMatrix::"
SM_CONTRACT = SM + r"(new|insert|remove|toggle|contains|row_weight|col_weight|iter_row|iter_col|clear_row|clear_col|set_row|set_col|insert_row|insert_col)"
# argument roles of the contract callees (after the receiver): 'r' row index, 'c' column index, 'R'/'C' iterator of rows/cols
SM_ROLES = {"insert": "rc", "remove": "rc", "toggle": "rc", "contains": "rc", "row_weight": "r", "col_weight": "c",
            "iter_row": "r", "iter_col": "c", "clear_row": "r", "clear_col": "c", "set_row": "rC", "set_col": "cR",
            "insert_row": "rC", "insert_col": "cR"}


def unwrap_mut(v):
    while True:
        a = single_atom(v) if isinstance(v, Poly) else None
        if a and atom_fn(a) == "mutated":
            v = atom_args(a)[0]
        else:
            return v


def matrix_dims(h):
    """(rows, cols) Polys of a symbolic SparseMatrix value."""
    h0 = unwrap_mut(h)
    a = single_atom(h0) if isinstance(h0, Poly) else None
    if a and atom_fn(a) == SM + "new":
        r, c = atom_args(a)
        return r, c
    return app(SM + "num_rows", h0), app(SM + "num_cols", h0)


def upper_bounds(v, loops):
    """Polys B with v < B known from what v *is* (matrix iterator element, mod, loop variable of a matrix iterator)."""
    out = []
    a = single_atom(v) if isinstance(v, Poly) else None
    if a and atom_fn(a) == "elem":
        src = atom_args(a)[0]
        sa = single_atom(src) if isinstance(src, Poly) else None
        if sa and atom_fn(sa) == SM + "iter_col":
            out.append(matrix_dims(atom_args(sa)[0])[0])
        if sa and atom_fn(sa) == SM + "iter_row":
            out.append(matrix_dims(atom_args(sa)[0])[1])
    if a and atom_fn(a) == "mod":
        out.append(atom_args(a)[1])
    if a and a[0] == "v":
        for l in loops:
            if l[0] == "iter" and isinstance(l[1], tuple) and a[1] in l[1] and l[2][0] == "elems":
                src = l[2][1]
                sa = single_atom(src) if isinstance(src, Poly) else None
                if sa and atom_fn(sa) == SM + "iter_all":
                    d = matrix_dims(atom_args(sa)[0])
                    out.append(d[l[1].index(a[1])])
    return out


def proves_lt(v, bound, facts, loops):
    if not (isinstance(v, Poly) and isinstance(bound, Poly)):
        return False
    a = single_atom(v)
    if a and atom_fn(a) == "ite":
        c, x, y = atom_args(a)
        if isinstance(x, Poly) and isinstance(y, Poly):
            return proves_lt(x, bound, facts + le_facts([(c, True)], []), loops) and \
                proves_lt(y, bound, facts + le_facts([(c, False)], []), loops)
    if proves_le(v, bound, facts, strict=True):
        return True
    for b in upper_bounds(v, loops):
        if isinstance(b, Poly) and proves_le(b, bound, facts):
            return True
    return False


def array_dims(base):
    """dims of an ndarray value when visible: zeros((n, m)) (possibly mutated) or via (n, m) = base.dim()."""
    b0 = unwrap_mut(base)
    a = single_atom(b0) if isinstance(b0, Poly) else None
    if a and "zeros" in (atom_fn(a) or ""):
        sh = a[2]
        if isinstance(sh, tuple) and sh and sh[0] == "tuple":
            return [k[1] for k in sh[1]]
    dimv = None
    for name in ("ndarray::impl_methods::<impl ndarray::ArrayBase<S, D>>::dim",):
        dimv = app(name, b0)
    return [app("proj0", dimv), app("proj1", dimv)], [app("proj0", app(dimv_name, base)) for dimv_name in ()]


class Audit:
    def __init__(self, ck, F, rule, entry, names, reviewed, contracts=SM_CONTRACT, domain=(), no_inline="NONE",
                 entry_label=None, usize_ok=True):
        if no_inline == "NONE":
            no_inline = r"sparse::SparseMatrix::(num_rows|num_cols|iter_all)"
        self.ck, self.F, self.rule, self.entry = ck, F, rule, entry
        self.names = names
        self.reviewed = {k: list(v) for k, v in reviewed.items()}   # key -> [max count, reason]
        self.used = {}
        self.contracts = contracts
        self.domain = list(domain)
        self.no_inline = no_inline
        self.label = entry_label or entry.rsplit("::", 2)[-1]
        self.usize_ok = usize_ok
        self.tracer = None

    def run(self):
        F, ck = self.F, self.ck
        b = F.body(self.entry)
        t = SiteTracer(F, contracts=self.contracts, no_inline=self.no_inline)
        self.tracer = t
        env = {}
        self.params = {}
        for p, nm in zip(b.params, self.names):
            v = var(nm)
            t.bind(p, v, env)
            self.params[nm] = v
        t.fn_stack.append(b.path)
        try:
            self.ret = t.eval(b.value, env)
        except Unsupported as e:
            raise AnalysisError("%s: unreadable shape: %s" % (self.entry, e))
        # completeness against MIR
        rx = re.compile("(?:%s)|(?:%s)" % (self.contracts, self.no_inline))
        R = reachable(F, [self.entry], stop=lambda p: rx.fullmatch(p) is not None and p != self.entry)
        hir_idx = set()
        for s in t.sites:
            if s["sp"]:
                hir_idx.add((s["sp"].rsplit(":", 2)[0], s["se"]))
        missing = []
        nmir = 0
        for body in R.values():
            if rx.fullmatch(body.path) and body.path != self.entry:
                continue
            for ms in mir_sites(body):
                nmir += 1
                key = (ms["sp"].rsplit(":", 2)[0], ms["se"])
                if key not in hir_idx:
                    missing.append(ms)
        self.mir_count = nmir
        self.missing = missing
        for ms in missing:
            ck.fail(self.rule, "%s:unmatched-mir-site:%s:%s" % (self.label, ms["kind"], (ms.get("callee") or "").rsplit("::", 1)[-1]),
                    ms["sp"], "MIR has a panic-capable site (%s %s in %s) that the structured walk did not reach; cannot discharge it"
                    % (ms["kind"], ms.get("callee", ""), ms["body"]))
        # classify (a closure explored twice yields the same site twice: keep one)
        seen = set()
        for s in t.sites:
            k = (s["kind"], s["sp"], s["se"], s["detail"])
            if k in seen:
                continue
            seen.add(k)
            self.classify(s)
        for k, (mx, reason) in self.reviewed.items():
            n = self.used.get(k, 0)
            if n < mx:
                ck.note("ledger slack [%s] %s: %d reviewed slots, %d used" % (self.label, k, mx, n))
            if n:
                ck.trust("reviewed[%s] %s x%d: %s" % (self.label, k, n, reason))
        return self

    def facts_for(self, s):
        return le_facts(s["guards"], s["loops"]) + self.domain

    def classify(self, s):
        ck = self.ck
        kind, detail, vals = s["kind"], s["detail"], s["vals"]
        facts = self.facts_for(s)
        n = s["node"]
        auto = None
        key = None
        if kind == "arith":
            ty = (n.get("l") or n.get("e") or {}).get("ty", "").lstrip("&")
            key = "arith:%s:%s" % (detail, ty)
            if detail == "Sub" and len(vals) == 2 and isinstance(vals[0], Poly) and isinstance(vals[1], Poly) and ty.startswith("u"):
                if proves_le(vals[1], vals[0], facts):
                    auto = "subtrahend <= minuend on this path (%r <= %r)" % (vals[1], vals[0])
                else:
                    for b in upper_bounds(vals[1], s["loops"]):
                        if proves_le(b, vals[0], facts):
                            auto = "subtrahend < %r <= minuend" % (b,)
            elif detail in ("Add", "Mul", "Shl") and ty in ("usize", "u64") and self.usize_ok:
                auto = "usize index/size arithmetic: no overflow for sizes in the property's domain (assumption)"
            elif detail in ("Div", "Rem") and isinstance(vals[1], Poly):
                c = vals[1].const_value()
                if (c is not None and c != 0) or proves_le(num(0), vals[1], facts, strict=True):
                    auto = "divisor non-zero"
        elif kind == "index":
            bty = detail
            key = "index:%s" % re.sub(r"<.*", "", bty.lstrip("&").replace("mut ", ""))
            idx = vals[1]
            m = re.match(r"&?(?:mut )?\[[^;]+; (\d+)\]", bty)
            if m and isinstance(idx, Poly) and idx.const_value() is not None and 0 <= idx.const_value() < int(m.group(1)):
                auto = "constant index %s into array of length %s" % (idx.const_value(), m.group(1))
            elif isinstance(idx, tuple) and idx and idx[0] == "array" and len(idx[1]) == 2:
                dims = self.dims_of(vals[0])
                if dims and all(proves_lt(i, d, facts, s["loops"]) for i, d in zip(idx[1], dims)):
                    auto = "2-D index (%r, %r) within dims (%r, %r)" % (idx[1][0], idx[1][1], dims[0], dims[1])
            elif isinstance(idx, tuple) and idx and idx[0] == "struct" and idx[1] == "RangeFull":
                auto = "full range `[..]` cannot be out of bounds"
            elif isinstance(idx, Poly):
                ln = self.len_of(vals[0])
                wa = single_atom(unwrap_mut(vals[0])) if isinstance(vals[0], Poly) else None
                if wa and atom_fn(wa) == "window" and isinstance(atom_args(wa)[1], Poly) and atom_args(wa)[1].const_value() is not None \
                        and idx.const_value() is not None and 0 <= idx.const_value() < atom_args(wa)[1].const_value():
                    auto = "constant index %s into a window of %s elements" % (idx.const_value(), atom_args(wa)[1].const_value())
                elif any(proves_lt(idx, l, facts, s["loops"]) for l in ln):
                    auto = "index %r < len" % (idx,)
        elif kind == "contract":
            base = detail.rsplit("::", 1)[-1]
            key = "contract:" + base
            if base == "new":
                auto = "allocation of the declared size (no index involved)"
            else:
                roles = SM_ROLES.get(base, "")
                rows, cols = matrix_dims(vals[0])
                okall = True
                why = []
                for role, v in zip(roles, vals[1:]):
                    if role in "rc":
                        bound = rows if role == "r" else cols
                        if proves_lt(v, bound, facts, s["loops"]):
                            why.append("%s index %r < %r" % ("row" if role == "r" else "column", v, bound))
                        else:
                            okall = False
                            key = "contract:%s:%s" % (base, "row" if role == "r" else "col")
                            why.append("%s index %r NOT shown < %r" % ("row" if role == "r" else "column", v, bound))
                    else:
                        bound = rows if role == "R" else cols
                        if isinstance(v, tuple) and v and v[0] == "iterdesc":
                            try:
                                el = self.tracer.elem_value(v[1], "x")
                            except Unsupported:
                                el = None
                            if el is not None and proves_lt(el, bound, facts, s["loops"]):
                                why.append("every element %r < %r" % (el, bound))
                                continue
                        okall = False
                        key = "contract:%s:%s" % (base, "rows-iter" if role == "R" else "cols-iter")
                        why.append("elements of the iterator argument not shown < %r" % (bound,))
                if okall:
                    auto = "; ".join(why)
                else:
                    s["why"] = "; ".join(why)
        elif kind == "assert":
            key = "assert"
            c = vals[0]
            a = single_atom(c) if isinstance(c, Poly) else None
            if a and atom_fn(a) in ("lt", "le"):
                x, y = atom_args(a)
                if isinstance(x, Poly) and isinstance(y, Poly) and proves_le(x, y, facts, strict=atom_fn(a) == "lt"):
                    auto = "asserted condition follows from the path condition"
            if auto is None:
                key = "assert:" + ((atom_fn(a) if a and a[0] == "f" else None) or "cond")
        elif kind == "call":
            key = "call:" + re.sub(r"<.*?>", "", detail).rsplit("::", 1)[-1]
            if "Index" in detail:
                auto = "see the index site at the same position"
                s["dup"] = True
            if key in ("call:zeros", "call:uninit", "call:from_elem"):
                auto = "allocation of the declared size (no index involved)"
            if key in ("call:slice", "call:slice_mut", "call:multi_slice_mut") and len(vals) == 2 and auto is None:
                # s![..] specifications: an index must be below its dimension, an open range may start anywhere up to it
                from .linalg_rules import all_slice_specs
                specs = all_slice_specs(vals[1])
                dims = self.dims_of(vals[0])
                okall = bool(specs) and dims is not None and all(d is not None for d in dims)
                unp_ = lambda k: k[1] if isinstance(k, tuple) and len(k) == 2 and k[0] == "P" else k
                for sp_ in specs if okall else []:
                    if len(sp_) != len(dims):
                        okall = False
                        break
                    for ent, dim in zip(sp_, dims):
                        ent = unp_(ent)
                        if isinstance(ent, Poly):
                            okall = okall and proves_lt(ent, dim, facts, s["loops"])
                        elif isinstance(ent, tuple) and ent and ent[0] == "struct" and ent[1] == "RangeFull":
                            pass
                        elif isinstance(ent, tuple) and ent and ent[0] == "struct" and ent[1] == "RangeFrom":
                            st_ = unp_(dict(ent[2]).get("start"))
                            okall = okall and isinstance(st_, Poly) and (proves_le(st_, dim, facts) or proves_lt(st_, dim, facts, s["loops"]))
                        elif isinstance(ent, tuple) and ent and ent[0] == "struct" and ent[1] == "Range":
                            f_ = dict(ent[2])
                            a_, b_ = unp_(f_.get("start")), unp_(f_.get("end"))
                            okall = okall and isinstance(a_, Poly) and isinstance(b_, Poly) and proves_le(b_, dim, facts) and proves_le(a_, b_, facts)
                        else:
                            okall = False
                if okall:
                    auto = "every s![..] entry lies within the array's dimensions"
            if key in ("call:windows", "call:chunks", "call:chunks_exact") and len(vals) == 2 and isinstance(vals[1], Poly) and \
                    vals[1].const_value() is not None and vals[1].const_value() > 0:
                auto = "non-zero constant window/chunk size"
        elif kind == "panic":
            key = "panic"
        elif kind == "ovl-div":
            key = "ovl-div"
        if s.get("dup"):
            return
        site_fn = (s.get("fn") or "").rsplit("::", 1)[-1]
        if auto:
            ck.ok(self.rule, "%s:auto:%s:%s" % (self.label, key, s["sp"].split(":", 1)[1] if s["sp"] else "?"), s["sp"],
                  "%s in %s: %s" % (key, site_fn, auto), trivial=auto.startswith("usize index/size") or auto.startswith("allocation"))
            s["status"] = "auto"
            return
        ent = self.reviewed.get(key)
        self.used[key] = self.used.get(key, 0) + 1
        if ent and self.used[key] <= ent[0]:
            ck.ok(self.rule, "%s:reviewed:%s#%d" % (self.label, key, self.used[key]), s["sp"],
                  "%s in %s: reviewed - %s" % (key, site_fn, ent[1]))
            return
        ck.fail(self.rule, "%s:undischarged:%s" % (self.label, key), s["sp"],
                "%s in %s can panic and is neither guarded on this path nor covered by a reviewed argument%s: operands %s ; path condition %s"
                % (key, site_fn, (" (%d such sites, %d reviewed)" % (self.used[key], ent[0])) if ent else "",
                   [short(v) for v in vals], [(short(g), p) for g, p in s["guards"]][-4:]) + ((" ; " + s["why"]) if s.get("why") else ""))

    def dims_of(self, base):
        b0 = unwrap_mut(base)
        a = single_atom(b0) if isinstance(b0, Poly) else None
        if a and "zeros" in (atom_fn(a) or ""):
            sh = a[2]
            if isinstance(sh, tuple) and sh and sh[0] == "tuple":
                return [k[1] if isinstance(k, tuple) and k[0] == "P" else None for k in sh[1]]
        d = app("ndarray::impl_methods::<impl ndarray::ArrayBase<S, D>>::dim", b0)
        d2 = app("ndarray::impl_methods::<impl ndarray::ArrayBase<S, D>>::dim", base)
        return [app("proj0", d2), app("proj1", d2)] if base is not b0 else [app("proj0", d), app("proj1", d)]

    def len_of(self, base):
        b0 = unwrap_mut(base)
        outs = []
        for nm in ("std::vec::Vec::<T, A>::len", "core::slice::<impl [T]>::len", "len",
                   "ndarray::impl_methods::<impl ndarray::ArrayBase<S, D>>::len"):
            outs.append(app(nm, b0))
            outs.append(app(nm, base))
        return outs


def short(v, n=90):
    r = repr(v)
    r = r.replace("sparse::SparseMatrix::", "").replace("ndarray::impl_methods::<impl ndarray::ArrayBase<S, D>>::", "nd::")
    r = r.replace("ndarray::impl_constructors::<impl ndarray::ArrayBase<S, D>>::", "nd::")
    return r if len(r) <= n else r[:n] + "..."
