"""Step functions read as state transformers.

A `&mut self` step (MacKay-Neal's backtrack / retry_girth / try_insert_column, one iteration of run) is traced once into its effect
list (field stores, calls into other components, early exits, each with its path condition and position in program order).  The
reading is then *evaluated* on every point of a small finite grid of abstract states and call outcomes and compared with the step's
specification, a Python function of the same grid point.  Nothing of the repository is executed: what is evaluated is the symbolic
effect list extracted from the source.  Two spellings of one step (guard clause vs checked_sub().ok_or()?, min vs saturating_sub,
while vs loop+break, match arms vs a helper) evaluate alike, and any change of the transition is visible at some grid point.

Value domain of the evaluation: integers/booleans; Option as ("Some", v) / "None"; Result as ("Ok", v) / ("Err", v); enum unit variants
as their name; () as ().
"""
import ast
from fractions import Fraction

from .symx import Poly, Rat, NotEvaluable, evaluate, single_atom, atom_fn, atom_args, contains_atom, unkey, vkey
from .extract import AnalysisError


class _Any:
    """wildcard in a specified call: equal to any argument"""
    def __eq__(self, other):
        return True

    def __ne__(self, other):
        return False

    def __repr__(self):
        return "_"

    __hash__ = None


ANY = _Any()


class EarlyExit(Exception):
    def __init__(self, value):
        self.value = value


def pat_matches(k, v):
    if k == "_":
        return True
    if isinstance(k, tuple):
        return isinstance(v, tuple) and len(k) == len(v) and all(pat_matches(a, b) for a, b in zip(k, v))
    if isinstance(k, bool) or isinstance(v, bool):
        return bool(k) == bool(v) if isinstance(k, (bool, int)) and isinstance(v, (bool, int)) else False
    return k == v


def parse_key(text):
    try:
        return ast.literal_eval(text)
    except (ValueError, SyntaxError):
        return text


class Grid:
    """evaluation of symbolic values at one grid point: `vals` maps variable / access-path names to values, `hooks` maps the last path
    segment of an opaque function to a Python function of its evaluated arguments"""

    def __init__(self, vals, hooks=None):
        self.vals = dict(vals)
        self.hooks = dict(hooks or {})

    def value(self, v):
        if isinstance(v, tuple) and len(v) == 2 and v[0] == "P":
            v = v[1]
        if isinstance(v, (int, Fraction)) and not isinstance(v, bool):
            return v
        if isinstance(v, tuple) and v:
            if v[0] == "bool":
                return bool(v[1])
            if v[0] == "variant":
                return v[1]
            if v[0] == "str" and len(v) == 2:
                return v[1]
            if v[0] == "tuple":
                return tuple(self.value(x) for x in v[1])
            if v[0] == "ctor":
                xs = [self.value(x) for x in v[2]]
                return (v[1],) + tuple(xs) if xs else v[1]
            if v[0] == "never":
                raise NotEvaluable("never")
            if v[0] == "opt" and len(v) == 3:
                o = self.value(v[1])
                return ("Some", self.value(v[2])) if isinstance(o, tuple) and o and o[0] == "Some" else "None"
            if v[0] == "iterdesc" and isinstance(v[1], tuple) and len(v[1]) == 2 and v[1][0] == "elems":
                return ("elems", self.value(v[1][1]))
        if isinstance(v, Poly):
            if v.const_value() is not None:
                c = v.const_value()
                return int(c) if Fraction(c).denominator == 1 else c
            a = single_atom(v)
            if a is not None:
                return self.atom(a)
            total = Fraction(0)
            for mono, c in v.t.items():
                term = Fraction(c)
                for a, e in mono:
                    x = self.atom(a)
                    if isinstance(x, bool):
                        x = int(x)
                    if not isinstance(x, (int, Fraction)):
                        raise NotEvaluable("non-numeric %r in arithmetic" % (x,))
                    term *= Fraction(x) ** e
                total += term
            return int(total) if total.denominator == 1 else total
        raise NotEvaluable(repr(v)[:80])

    def atom(self, a):
        if a[0] == "v":
            if a[1] in self.vals:
                return self.vals[a[1]]
            raise NotEvaluable("free variable " + a[1])
        fn = a[1]
        args = a[2:]
        ev = self.value
        if fn in ("lt", "le", "eq", "ne", "op_eq", "op_ne"):
            x, y = ev(args[0]), ev(args[1])
            return {"lt": lambda: x < y, "le": lambda: x <= y, "eq": lambda: x == y, "ne": lambda: x != y,
                    "op_eq": lambda: x == y, "op_ne": lambda: x != y}[fn]()
        if fn == "and":
            return bool(ev(args[0])) and bool(ev(args[1]))
        if fn == "or":
            return bool(ev(args[0])) or bool(ev(args[1]))
        if fn == "not":
            return not bool(ev(args[0]))
        if fn == "ite":
            return ev(args[1]) if ev(args[0]) else ev(args[2])
        if fn == "bool_to_option":
            return ("Some", ()) if ev(args[0]) else "None"
        if fn == "matches":
            return pat_matches(parse_key(args[1]), ev(args[0]))
        if fn == "match":
            subj = ev(args[0])
            for key, val in args[1]:
                if pat_matches(parse_key(key), subj):
                    return ev(val)
            raise NotEvaluable("no arm for %r" % (subj,))
        if fn in ("payload0", "either_payload"):
            x = ev(args[0])
            if isinstance(x, tuple) and len(x) >= 2 and isinstance(x[0], str):
                return x[1]
            raise NotEvaluable("payload of %r" % (x,))
        if fn in ("proj0", "proj1", "proj2", ".0", ".1", ".2"):
            x = ev(args[0])
            i = int(fn[-1])
            if isinstance(x, tuple) and len(x) > i:
                return x[i]
            raise NotEvaluable("projection %s of %r" % (fn, x))
        if fn == "try":
            x = ev(args[0])
            if isinstance(x, tuple) and x and x[0] in ("Ok", "Some"):
                return x[1]
            raise EarlyExit(x)
        base = fn.rsplit("::", 1)[-1]
        if fn.startswith("std::option::Option::<") and base in ("is_some", "is_none"):
            x = ev(args[0])
            some = isinstance(x, tuple) and x[0] == "Some"
            return some if base == "is_some" else not some
        if fn.startswith("std::cmp::Ordering::") and base in ("is_eq", "is_ne"):
            return (ev(args[0]) == "Equal") == (base == "is_eq")
        if fn.startswith("std::result::Result::<") and base in ("is_ok", "is_err"):
            x = ev(args[0])
            ok = isinstance(x, tuple) and x[0] == "Ok"
            return ok if base == "is_ok" else not ok
        if fn in ("min", "max"):
            return (min if fn == "min" else max)(ev(args[0]), ev(args[1]))
        if fn == "saturating_sub":
            return max(ev(args[0]) - ev(args[1]), 0)
        if fn == "mod":
            return ev(args[0]) % ev(args[1])
        if fn == "idiv":
            return ev(args[0]) // ev(args[1])
        if base in self.hooks:
            return self.hooks[base](*[self.lenient(x) for x in args])
        raise NotEvaluable("function " + fn)

    def lenient(self, v):
        """value of v, or a printable symbolic stand-in when it has none (opaque state such as the matrix)"""
        try:
            return self.value(v)
        except NotEvaluable:
            return "<%s>" % (repr(unkey(v) if not isinstance(v, Poly) else v)[:120],)

    def holds(self, guards):
        return all(bool(self.value(g)) == bool(p) for g, p in guards)


class Outcome:
    def __init__(self, exit, writes, calls):
        self.exit, self.writes, self.calls = exit, writes, calls

    def __repr__(self):
        return "exit=%r writes=%r calls=%r" % (self.exit, self.writes, self.calls)


class StepReading:
    """effect list of one traced step, ready to be evaluated at grid points"""

    def __init__(self, tracer, ret, strip_loop=None, what="step", pure=(), ignore=None):
        self.what = what
        self.ret = ret
        self.loop_fields = dict(getattr(tracer, "loop_fields", {}))
        self.tracked = bool(getattr(tracer, "track_fields", False))
        items = []
        for e in tracer.events:
            if e.callee in ("<assign>", "<return>", "<try>", "<break>", "<continue>", "<panic>"):
                items.append({"seq": e.seq, "kind": e.callee, "args": list(e.args), "loops": list(e.loops), "guards": list(e.guards), "node": e.node})
            elif not e.callee.startswith("<") and e.callee.rsplit("::", 1)[-1] not in pure:
                # a call the tracer was asked to record (plain Tracer: the calls matching its pattern)
                items.append({"seq": e.seq, "kind": "call", "name": e.callee.rsplit("::", 1)[-1], "args": list(e.args), "loops": list(e.loops),
                              "guards": list(e.guards), "node": e.node})
        for s in getattr(tracer, "sites", []):
            if s["kind"] == "contract" and s["detail"].rsplit("::", 1)[-1] not in pure:   # pure queries are not effects
                items.append({"seq": s["seq"], "kind": "call", "name": s["detail"].rsplit("::", 1)[-1], "args": list(s["vals"]),
                              "loops": list(s["loops"]), "guards": list(s["guards"]), "node": s["node"]})
        items.sort(key=lambda x: x["seq"])
        if ignore is not None:
            items = [it for it in items if not ignore(it)]
        self.stripped = None
        if strip_loop is not None:
            # one iteration of the step's main loop: only what is inside that loop, with the loop level removed
            heads = [it["loops"][0] for it in items if it["loops"] and strip_loop(it["loops"][0])]
            self.stripped = heads[0] if heads else None
            kept = []
            for it in items:
                if it["loops"] and strip_loop(it["loops"][0]):
                    kept.append(dict(it, loops=it["loops"][1:]))
            self.outside = [it for it in items if not (it["loops"] and strip_loop(it["loops"][0]))]
            items = kept
        self.items = items
        self._hazards()

    def _hazards(self):
        """a field that is read after the step stored to it would be misread (values are in terms of the state on entry);
        not needed when the tracer tracked the stores (reads then see the stored values)"""
        if self.tracked:
            return
        for i, it in enumerate(self.items):
            if it["kind"] != "<assign>" or not isinstance(it["args"][0], Poly):
                continue
            fa = single_atom(it["args"][0])
            if fa is None:
                continue
            older = [g for prev in self.items[:i + 1] for g, _ in prev["guards"]]
            for later in self.items[i + 1:]:
                # path conditions that were already established when the store happened were evaluated before it
                vals = list(later["args"]) + [g for g, _ in later["guards"] if not any(g == o for o in older)]
                # a compound assignment reads its own target: that is the store itself
                if later["kind"] == "<assign>" and later["args"][0] == it["args"][0]:
                    vals = vals[1:]
                if any(contains_atom(vkey(x) if not isinstance(x, Poly) else x, lambda a: a == fa) for x in vals):
                    raise AnalysisError("%s: %s is read after it was stored to; the transformer reading does not cover this order" % (self.what, fa[1]))

    LOOP_BOUND = 16

    def run(self, grid):
        st = {"writes": {}, "calls": []}
        try:
            self._run_items(self.items, 0, self.iteration_vals(grid.vals), grid.hooks, st)
            exit_ = Grid(dict(grid.vals, **st.get("after", {})), grid.hooks).value(self.ret) if self.ret is not None else None
        except EarlyExit as e:
            exit_ = e.value
        return Outcome(exit_, st["writes"], st["calls"])

    def iteration_vals(self, vals):
        """grid values extended for a one-iteration reading: the loop-carried fields hold the given state at iteration start"""
        vals = dict(vals)
        if self.stripped is not None and len(self.stripped) == 3:
            for p_ in self.loop_fields.get(self.stripped[2], {}):
                if p_ in vals:
                    vals["%s@loop%d" % (p_, self.stripped[2])] = vals[p_]
        return vals

    def _run_items(self, items, depth, vals, hooks, st):
        i = 0
        while i < len(items):
            it = items[i]
            if len(it["loops"]) <= depth:
                self._exec(it, Grid(vals, hooks), st)
                i += 1
                continue
            head = it["loops"][depth]
            j = i
            while j < len(items) and len(items[j]["loops"]) > depth and items[j]["loops"][depth] == head:
                j += 1
            seg = items[i:j]
            i = j
            if head[0] == "range" and isinstance(head[1], str):
                _, v, lo, hi, incl = head[:5]
                g = Grid(vals, hooks)
                for x in range(g.value(lo), g.value(hi) + (1 if incl else 0)):
                    self._run_items(seg, depth + 1, dict(vals, **{v: x}), hooks, st)
            elif head[0] == "while" and len(head) == 3:
                self._run_while(head, seg, depth, vals, hooks, st)
            else:
                raise NotEvaluable("loop form %r" % (head[:2],))

    def _run_while(self, head, seg, depth, vals, hooks, st):
        """the loop body is a transformer of the fields it stores to; it is iterated from their values on loop entry"""
        _, cond, lid = head
        carried = self.loop_fields.get(lid, {})
        g0 = Grid(dict(vals, **st.get("after", {})), hooks)
        cur = {p_: st["writes"].get(p_, None) for p_ in carried}
        for p_, init in carried.items():
            if cur[p_] is None:
                cur[p_] = g0.value(init)
        for _ in range(self.LOOP_BOUND):
            v2 = dict(vals, **{"%s@loop%d" % (p_, lid): x for p_, x in cur.items()})
            v2.update(st.get("after", {}))
            if not bool(Grid(v2, hooks).value(cond)):
                break
            inner = {"writes": {}, "calls": st["calls"], "after": st.get("after", {})}
            try:
                self._run_items(seg, depth + 1, v2, hooks, inner)
            except EarlyExit as e:
                if e.value == ("<continue>",):
                    pass
                elif e.value == ("<break>",):
                    for p_, x in inner["writes"].items():
                        cur[p_] = x
                    break
                else:
                    raise
            for p_, x in inner["writes"].items():
                if p_ not in cur:
                    raise NotEvaluable("store to %s in a loop that does not carry it" % p_)
                cur[p_] = x
        else:
            raise NotEvaluable("loop still running after %d iterations at this grid point" % self.LOOP_BOUND)
        st.setdefault("after", {})
        for p_, x in cur.items():
            st["after"]["%s@after%d" % (p_, lid)] = x
            st["writes"][p_] = x

    def _exec(self, it, g, st):
        if st.get("after"):
            g = Grid(dict(g.vals, **st["after"]), g.hooks)
        if not g.holds(it["guards"]):
            return
        k = it["kind"]
        if k == "<assign>":
            path = single_atom(it["args"][0])
            name = path[1] if path is not None and path[0] == "v" else repr(it["args"][0])
            if len(it["args"]) == 3:
                r = g.value(it["args"][2])          # the tracer recorded the value held after the store
            else:
                r = g.value(it["args"][1])
                op = (it["node"] or {}).get("op", "") if (it["node"] or {}).get("k") == "assignop" else ""
                if op:
                    old = st["writes"].get(name, g.value(it["args"][0]))
                    r = {"Add": old + r, "Sub": old - r, "Mul": old * r}.get(op.replace("Assign", ""))
                    if r is None:
                        raise NotEvaluable("compound assignment " + op)
            st["writes"][name] = r
        elif k == "call":
            st["calls"].append((it["name"],) + tuple(g.lenient(a) for a in it["args"]))
        elif k == "<try>":
            g.value(it["args"][0])      # raises EarlyExit on Err / None
        elif k == "<return>":
            raise EarlyExit(g.value(it["args"][0]))
        elif k == "<break>":
            raise EarlyExit(("<break>",))
        elif k == "<continue>":
            raise EarlyExit(("<continue>",))
        elif k == "<panic>":
            raise EarlyExit(("<panic>",))


def compare(ck, rule, inst, reading, points, spec, span, what, unordered=False):
    """evaluate the reading at every grid point and compare with spec(point) -> (exit, {field: value}, [calls]);
    unwritten fields keep their entry value.  One instance; the first differing point is reported."""
    bad = None
    n = 0
    for vals, hooks in points:
        g = Grid(vals, hooks)
        try:
            got = reading.run(g)
        except NotEvaluable as e:
            raise AnalysisError("%s: the effect list cannot be evaluated (%s)" % (inst, e))
        want_exit, want_state, want_calls = spec(vals)
        state = {k: got.writes.get(k, vals.get(k)) for k in want_state}
        extra = {k: v for k, v in got.writes.items() if k not in want_state and v != vals.get(k)}
        n += 1
        calls_ok = list(want_calls) == list(got.calls)
        if unordered and not calls_ok:
            # the specified calls commute: the same multiset in any order
            calls_ok = sorted(map(repr, want_calls)) == sorted(map(repr, got.calls))
        if got.exit != want_exit or state != want_state or extra or not calls_ok:
            bad = (vals, got, (want_exit, want_state, want_calls), extra)
            break
    if bad is None:
        ck.inst(rule, inst, True, span, "%s [evaluated at %d grid points]" % (what, n))
    else:
        vals, got, want, extra = bad
        shown = {k: v for k, v in vals.items() if not callable(v)}
        ck.inst(rule, inst, False, span, "%s; at %r the step gives %r%s ; required exit=%r state=%r calls=%r" % (
            what, shown, got, (" and also writes %r" % extra) if extra else "", want[0], want[1], want[2]))
