"""A10: operator profiles of function bodies (multisets of semantically meaningful features) for sibling cross-checks."""
from collections import Counter

from .facts import walk, strip, callee, lit_value, access_path

CALLS = {"abs", "min", "max", "exp", "ln_1p", "ln", "tanh", "atanh", "clamp", "lookup", "saturating_add", "clip", "expect", "unwrap",
         "min_by", "min_by_key", "partial_cmp", "phi", "sum", "product", "resize", "filter", "filter_map", "enumerate", "zip", "map", "iter", "iter_mut"}


def role(n):
    """coarse role of a comparison operand"""
    n = strip(n)
    v = lit_value(n)
    if v is not None:
        return "lit:%s" % (float(v) if isinstance(v, float) else v)
    if n.get("k") == "field":
        return "field:" + n["f"]
    if n.get("k") == "path" and n.get("res") == "local":
        nm = n["name"].split("#")[0]
        ty = n.get("ty", "")
        if ty in ("usize", "&usize"):
            return "index"
        return "var:" + ty.lstrip("&")
    if n.get("k") in ("mcall", "call"):
        c = callee(n) or ""
        return "call:" + c.rsplit("::", 1)[-1]
    return n.get("k", "?")


def profile(body_value, skip_nodes=(), F=None, expand=None, _depth=0):
    """Counter of features below a body (closures included, nodes in skip_nodes and their subtrees excluded).
    With F and `expand` (a predicate on callee paths), calls of private helper functions contribute the features of their bodies,
    so that extracting or inlining a helper does not change the profile."""
    feats = Counter()
    skip = set(id(x) for s in skip_nodes for x in walk(s))
    for n in walk(body_value):
        if id(n) in skip:
            continue
        k = n.get("k")
        if F is not None and expand is not None and k in ("mcall", "call") and _depth < 4:
            cp = callee(n) or ""
            hb = F.bodies.get(cp)
            if hb is not None and hb.hir and expand(cp) and cp.rsplit("::", 1)[-1] not in CALLS:
                feats += profile(hb.value, (), F, expand, _depth + 1)
        if k == "bin":
            op = n["op"]
            if op in ("Lt", "Le", "Gt", "Ge", "Eq", "Ne"):
                feats[("cmp", op, role(n["l"]), role(n["r"]))] += 1
            elif op in ("BitXor", "BitAnd", "BitOr", "Rem", "Div", "Mul", "Add", "Sub"):
                feats[("bin", op)] += 1
        elif k == "assignop":
            feats[("assignop", n["op"])] += 1
        elif k == "un" and n.get("op") == "Neg" and lit_value(n) is None:
            feats[("neg",)] += 1
        elif k in ("mcall", "call"):
            c = (callee(n) or "").rsplit("::", 1)[-1]
            if c in CALLS:
                feats[("call", c)] += 1
        elif k == "lit" and n.get("lt") in ("int", "float"):
            v = lit_value(n)
            feats[("lit", float(v) if isinstance(v, float) else v)] += 1
    return feats


def diff(a, b):
    """(features only/more in a, features only/more in b)"""
    return a - b, b - a


def fmt(c):
    return ", ".join("%s x%d" % (":".join(str(x) for x in k), v) for k, v in sorted(c.items(), key=lambda kv: repr(kv[0])))
