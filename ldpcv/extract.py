"""Run the rustc_private fact extractor over /repo (or the canary crate) and cache
the resulting fact files by a content hash of the analysed tree.

Nothing from /repo is executed: `cargo +nightly check` type-checks the crate with
the extractor injected as RUSTC_WORKSPACE_WRAPPER; the extractor dumps HIR/MIR facts
in its `after_analysis` callback.
"""
import fcntl
import hashlib
import json
import os
import shutil
import subprocess
import sys
import time

VERIF = os.path.dirname(os.path.dirname(os.path.abspath(__file__)))
REPO = os.environ.get("LDPCV_REPO", "/repo")
WORK = os.path.join(VERIF, ".work")
EXTRACT_DIR = os.path.join(VERIF, "extract")
EXTRACT_BIN = os.path.join(EXTRACT_DIR, "target", "release", "ldpcv-extract")


class AnalysisError(Exception):
    """The tree could not be analysed (missing anchor, unreadable shape, build failure)."""


def _sysroot():
    return subprocess.check_output(["rustc", "+nightly", "--print", "sysroot"], text=True).strip()


def tree_hash(root, extra=()):
    h = hashlib.sha256()
    for dirpath, dirnames, filenames in os.walk(root):
        dirnames[:] = sorted(d for d in dirnames if d not in ("target", ".git"))
        for fn in sorted(filenames):
            p = os.path.join(dirpath, fn)
            if os.path.islink(p) or not os.path.isfile(p):
                continue
            h.update(os.path.relpath(p, root).encode())
            h.update(b"\0")
            with open(p, "rb") as f:
                h.update(f.read())
            h.update(b"\0")
    for e in extra:
        h.update(e.encode())
    return h.hexdigest()[:24]


def extractor_hash():
    return tree_hash(os.path.join(EXTRACT_DIR, "src"))


def ensure_extractor():
    """Build the extractor if the binary is missing or older than its sources."""
    stamp = os.path.join(EXTRACT_DIR, "target", "release", ".srchash")
    want = extractor_hash()
    if os.path.exists(EXTRACT_BIN) and os.path.exists(stamp) and open(stamp).read() == want:
        return
    env = dict(os.environ, CARGO_NET_OFFLINE="true")
    env.pop("RUSTC_WORKSPACE_WRAPPER", None)
    env.pop("RUSTFLAGS", None)
    r = subprocess.run(
        ["cargo", "+nightly", "build", "--release", "--offline"],
        cwd=EXTRACT_DIR, env=env, stdout=subprocess.PIPE, stderr=subprocess.STDOUT, text=True)
    if r.returncode != 0 or not os.path.exists(EXTRACT_BIN):
        raise AnalysisError("cannot build extractor:\n" + r.stdout[-4000:])
    with open(stamp, "w") as f:
        f.write(want)


def _run_extraction(crate_dir, outdir, targets):
    os.makedirs(outdir, exist_ok=True)
    tgt = os.path.join(WORK, "tgt-%d" % os.getpid())
    shutil.rmtree(tgt, ignore_errors=True)
    env = dict(os.environ)
    env.update({
        "LD_LIBRARY_PATH": _sysroot() + "/lib",
        "RUSTFLAGS": "-Zmir-opt-level=0 -Awarnings -Coverflow-checks=on",
        "LDPCV_FACTS_DIR": outdir,
        "RUSTC_WORKSPACE_WRAPPER": EXTRACT_BIN,
        "CARGO_NET_OFFLINE": "true",
        "CARGO_TARGET_DIR": tgt,
    })
    try:
        r = subprocess.run(["cargo", "+nightly", "check", "--offline"] + targets,
                           cwd=crate_dir, env=env, stdout=subprocess.PIPE,
                           stderr=subprocess.STDOUT, text=True)
        if r.returncode != 0:
            raise AnalysisError("cargo check of %s failed (the tree does not type-check):\n%s"
                                % (crate_dir, r.stdout[-6000:]))
    finally:
        shutil.rmtree(tgt, ignore_errors=True)


def _cached(kind, crate_dir, targets, expect):
    os.makedirs(WORK, exist_ok=True)
    ensure_extractor()
    key = tree_hash(crate_dir, extra=(extractor_hash(), " ".join(targets)))
    outdir = os.path.join(WORK, "facts", "%s-%s" % (kind, key))
    done = os.path.join(outdir, ".done")
    lock = open(os.path.join(WORK, "extract.lock"), "w")
    fcntl.flock(lock, fcntl.LOCK_EX)
    t0 = time.time()
    fresh = False
    try:
        if not os.path.exists(done):
            shutil.rmtree(outdir, ignore_errors=True)
            _run_extraction(crate_dir, outdir, targets)
            for e in expect:
                if not os.path.exists(os.path.join(outdir, e)):
                    raise AnalysisError("extractor produced no fact file %s" % e)
            with open(done, "w") as f:
                f.write(str(time.time()))
            fresh = True
            # garbage-collect older fact dirs of the same kind (keep the 3 newest)
            base = os.path.join(WORK, "facts")
            olds = sorted((d for d in os.listdir(base) if d.startswith(kind + "-")),
                          key=lambda d: os.path.getmtime(os.path.join(base, d)))
            for d in olds[:-3]:
                shutil.rmtree(os.path.join(base, d), ignore_errors=True)
    finally:
        fcntl.flock(lock, fcntl.LOCK_UN)
        lock.close()
    return outdir, key, fresh, time.time() - t0


def repo_facts():
    """Returns (dir, key, fresh, seconds) for /repo's lib, bin and example crates."""
    return _cached("repo", REPO, ["--lib", "--bins", "--examples"],
                   ["ldpc_toolbox-lib.json", "ldpc_toolbox-bin.json"])


def canary_facts():
    return _cached("canary", os.path.join(VERIF, "canary"), ["--lib"], ["ldpcv_canary-lib.json"])


if __name__ == "__main__":
    print(repo_facts())
