"""Idiom-independent readings of small functions: the same fact is established whichever of the equivalent surface forms
(iterator chain / explicit loop, any / all, filter_map / filter+map, guard clause / nested if) the source uses."""
from .extract import AnalysisError
from .facts import walk, strip
from .symx import SymEval, Poly, Unsupported, app, var, num, single_atom, atom_fn, atom_args, vkey, subst
from .trace import Tracer

PUSH_RX = r"std::vec::Vec::<T, A>::push|std::vec::Vec::<T>::push"
EMPTY_VEC = ("std::vec::Vec::<T>::new", "std::vec::Vec::<T>::with_capacity", "std::vec::Vec::<T, A>::with_capacity_in")


def _is_fresh_vec(v):
    from .panics import unwrap_mut
    v = unwrap_mut(v)
    a = single_atom(v) if isinstance(v, Poly) else None
    return a is not None and atom_fn(a) in EMPTY_VEC


def positional_map(F, body, names, src, inline=None, x="x"):
    """If the function returns, for the input sequence named `src`, a sequence with one element f(src[i]) per element in order
    (as `src.iter().map(f).collect()` or as an explicit loop pushing f(el) onto a fresh Vec, unconditionally), return f applied to
    the variable `x`; else None.  (length and order preservation are part of the idiom)"""
    t = Tracer(F, PUSH_RX, mode="int", inline=inline)
    env = {}
    for p, nm in zip(body.params, names):
        t.bind(p, var(nm), env)
    try:
        ret = t.eval(body.value, env)
    except Unsupported:
        return None
    S = var(src)
    a = single_atom(ret) if isinstance(ret, Poly) else None
    if a and atom_fn(a) == "std::iter::Iterator::collect":
        d = a[2]
        if isinstance(d, tuple) and d[0] == "iterdesc":
            d = d[1]
            fns = []
            while d[0] == "map":
                fns.append(d[2])
                d = d[1]
            while d[0] in ("copied", "cloned"):
                d = d[1]
            if d == ("elems", vkey(S)) or d == ("elems", S):
                v = var(x)
                for f in reversed(fns):
                    node = F.closures.get(f[1]) if isinstance(f, tuple) and f[0] == "closure" and isinstance(f[1], str) else None
                    if node is not None:
                        v = t.apply(("closure", node, dict(getattr(t, "closure_envs", {}).get(f[1], {}))), [v])
                    elif isinstance(f, tuple) and f[0] == "fn":
                        v = t.apply(f, [v])
                    else:
                        return None
                return v
        return None
    pushes = [e for e in t.events if e.callee.endswith("::push")]
    if _is_fresh_vec(ret) and len(pushes) == 1 and not pushes[0].guards and len(pushes[0].loops) == 1:
        e = pushes[0]
        lp = e.loops[0]
        if lp[0] == "iter" and lp[2] in (("elems", S), ("elems", vkey(S))) and isinstance(lp[1], str) and _is_fresh_vec(e.args[0]):
            el = app("elem", S, var(lp[1]))
            from .symx import replace_atom
            return replace_atom(e.args[1], single_atom(el), var(x))
    return None
