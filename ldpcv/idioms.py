"""Idiom-independent readings of small functions: the same fact is established whichever of the equivalent surface forms
(iterator chain / explicit loop, any / all, filter_map / filter+map, guard clause / nested if) the source uses."""
from .extract import AnalysisError
from .facts import walk, strip
from .symx import SymEval, Poly, Unsupported, app, var, num, single_atom, atom_fn, atom_args, vkey, subst, unkey, contains_atom
from .trace import Tracer

PUSH_RX = r"std::vec::Vec::<T, A>::push|std::vec::Vec::<T>::push"
EMPTY_VEC = ("std::vec::Vec::<T>::new", "std::vec::Vec::<T>::with_capacity", "std::vec::Vec::<T, A>::with_capacity_in")


def _is_fresh_vec(v):
    from .panics import unwrap_mut
    v = unwrap_mut(v)
    a = single_atom(v) if isinstance(v, Poly) else None
    return a is not None and atom_fn(a) in EMPTY_VEC


def positional_map(F, body, names, src, inline=None, x="x", mode="int"):
    """If the function returns, for the input sequence named `src`, a sequence with one element f(src[i]) per element in order
    (as `src.iter().map(f).collect()` or as an explicit loop pushing f(el) onto a fresh Vec, unconditionally), return f applied to
    the variable `x`; else None.  (length and order preservation are part of the idiom)"""
    t = Tracer(F, PUSH_RX, mode=mode, inline=inline)
    env = {}
    for p, nm in zip(body.params, names):
        t.bind(p, var(nm), env)
    try:
        ret = t.eval(body.value, env)
    except Unsupported:
        return None
    S = var(src)
    a = single_atom(ret) if isinstance(ret, Poly) else None
    if a and atom_fn(a) == "std::iter::Iterator::collect":
        d = a[2]
        if isinstance(d, tuple) and d[0] == "iterdesc":
            d = d[1]
            fns = []
            while d[0] == "map":
                fns.append(d[2])
                d = d[1]
            while d[0] in ("copied", "cloned"):
                d = d[1]
            if d == ("elems", vkey(S)) or d == ("elems", S):
                v = var(x)
                for f in reversed(fns):
                    node = F.closures.get(f[1]) if isinstance(f, tuple) and f[0] == "closure" and isinstance(f[1], str) else None
                    if node is not None:
                        v = t.apply(("closure", node, dict(getattr(t, "closure_envs", {}).get(f[1], {}))), [v])
                    else:
                        if isinstance(f, tuple) and len(f) == 2 and f[0] == "P":
                            f = f[1]
                        v = t.apply(f, [v])      # a function item or a function-valued parameter
                return v
        return None
    pushes = [e for e in t.events if e.callee.endswith("::push")]
    if _is_fresh_vec(ret) and len(pushes) == 1 and not pushes[0].guards and len(pushes[0].loops) == 1:
        e = pushes[0]
        lp = e.loops[0]
        if lp[0] == "iter" and lp[2] in (("elems", S), ("elems", vkey(S))) and isinstance(lp[1], str) and _is_fresh_vec(e.args[0]):
            el = app("elem", S, var(lp[1]))
            from .symx import replace_atom
            return replace_atom(e.args[1], single_atom(el), var(x))
    return None


def _zip_pair(d):
    """zip(elems A, elems B) description -> (A, B)"""
    if isinstance(d, tuple) and d and d[0] == "zip" and d[1][0] == "elems":
        other = d[2]
        if isinstance(other, tuple) and other and other[0] == "iterdesc":
            other = other[1]
        if isinstance(other, tuple) and other and other[0] == "elems":
            unp = lambda k: k[1] if isinstance(k, tuple) and len(k) == 2 and k[0] == "P" else k
            return unp(d[1][1]), unp(other[1])
    return None


def mismatch_count(F, value, tracer, depth=0):
    """If `value` is the number of positions at which two sequences differ, counted over zip(A, B) (so over the shorter of the two),
    return (A, B). Recognised: zip(A,B).filter(|(x,y)| x != y).count() [with a widening cast], a loop over the zip that adds 1 to a
    zero-initialised counter exactly when the elements differ, and a call of a crate function whose body is one of these."""
    from .symx import canon_cond
    a = single_atom(value) if isinstance(value, Poly) else None
    if a is None:
        return None
    fn = atom_fn(a)
    if fn and fn.startswith("cast_") and len(atom_args(a)) == 1:
        return mismatch_count(F, atom_args(a)[0], tracer, depth)
    if fn == "std::iter::Iterator::count":
        d = a[2]
        if isinstance(d, tuple) and d[0] == "iterdesc" and d[1][0] == "filter":
            pair = _zip_pair(d[1][1])
            clo = d[1][2]
            node = F.closures.get(clo[1]) if isinstance(clo, tuple) and clo[0] == "closure" and isinstance(clo[1], str) else None
            if pair and node is not None:
                pv = Tracer(F, "NONE", mode="int").apply(("closure", node, {}), [("tuple", [var("x"), var("y")])])
                c, pol = canon_cond(pv, True) if isinstance(pv, Poly) else (None, None)
                if c is not None and c in (app("eq", var("x"), var("y")), app("eq", var("y"), var("x"))) and pol is False:
                    return pair
        return None
    body = F.bodies.get(fn) if fn else None
    if body is not None and body.hir and depth < 2 and len(body.params) == 2 and len(atom_args(a)) == 2:
        t = Tracer(F, "NONE", mode="int")
        env = {}
        t.bind(body.params[0], var("a"), env)
        t.bind(body.params[1], var("b"), env)
        try:
            ret = t.eval(body.value, env)
        except Unsupported:
            return None
        inner = mismatch_count(F, ret, t, depth + 1)
        if inner is None:
            # counter idiom: let mut n = 0; for (x, y) in a.iter().zip(b.iter()) { if x != y { n += 1 } } n
            ra = single_atom(ret) if isinstance(ret, Poly) else None
            if ra and fn_is_cast(ra):
                ra = single_atom(atom_args(ra)[0])
            if ra and ra[0] == "v" and ra[1].endswith("@after"):
                nm = ra[1][:-6]
                sites = [s for s in t.assign_sites if s[0].split("#")[0] == nm]
                init = [v for k, v in t.carried_init.items() if k.split("#")[0] == nm]
                if len(sites) == 1 and init and init[0] == num(0):
                    _, val, loops, guards = sites[0]
                    pair = _zip_pair(loops[0][2]) if len(loops) == 1 and loops[0][0] == "iter" else None
                    if pair and val == var(nm + "@loop") + num(1) and len(guards) == 1:
                        h = loops[0][1] if isinstance(loops[0][1], str) else None
                        c, pol = canon_cond(guards[0][0], guards[0][1])
                        ca = single_atom(c) if isinstance(c, Poly) else None
                        if h and pol is False and ca and atom_fn(ca) == "eq":
                            ex = app("elem", pair[0], var(h))
                            ey = app("elem", ("iterdesc", ("elems", pair[1])), var(h + "_z"))
                            if set(map(repr, atom_args(ca))) == {repr(ex), repr(ey)}:
                                inner = pair
        if inner is None:
            return None
        m = {var("a"): atom_args(a)[0], var("b"): atom_args(a)[1]}
        if inner[0] in m and inner[1] in m and inner[0] != inner[1]:
            return m[inner[0]], m[inner[1]]
    return None


def fn_is_cast(atom):
    return (atom_fn(atom) or "").startswith("cast_")


def exits(tracer, ret, total=False):
    """the ways a traced function returns: [(path condition as a frozenset of canonical (cond, polarity), value)], with early
    `return`s and a conditional final value (if / else at the end) treated alike"""
    from .symx import canon_cond
    out = []

    def canon1(g, p):
        g, p = canon_cond(g, p, total)
        ga = single_atom(g) if isinstance(g, Poly) else None
        # "r matches Ok(..)" is r.is_ok(); "r matches Err(..)" is !r.is_ok()
        if ga and atom_fn(ga) == "matches" and isinstance(atom_args(ga)[0], Poly):
            key = str(atom_args(ga)[1])
            if key.startswith("('Ok'"):
                return repr(app("std::result::Result::<T, E>::is_ok", atom_args(ga)[0])), p
            if key.startswith("('Err'"):
                return repr(app("std::result::Result::<T, E>::is_ok", atom_args(ga)[0])), not p
        return repr(g), p

    def canon(gs):
        return frozenset(canon1(g, p) for g, p in gs if isinstance(g, Poly))
    early = []
    for e in tracer.events:
        if e.callee == "<return>" and not e.loops:
            out.append((canon(e.guards), e.args[0]))
            early.append(e.guards)
    def split(v, gs):
        a = single_atom(v) if isinstance(v, Poly) else None
        if a and atom_fn(a) == "ite":
            c, tv, fv = atom_args(a)
            unp = lambda k: k[1] if isinstance(k, tuple) and len(k) == 2 and k[0] == "P" else k
            split(unp(tv), gs + [(c, True)])
            split(unp(fv), gs + [(c, False)])
        elif a and atom_fn(a) == "match" and isinstance(atom_args(a)[0], Poly):
            subj, arms = atom_args(a)
            for k, av in arms:
                split(av[1] if isinstance(av, tuple) and len(av) == 2 and av[0] == "P" else av, gs + [(app("matches", subj, k), True)])
        else:
            out.append((canon(gs), v))
    # the final value is reached when no early return was taken: under the negation of a single-condition early return
    base = []
    for g in early:
        if len(g) == 1:
            base.append((g[0][0], not g[0][1]))
    split(ret, base)
    # under a condition about r.is_ok(), "the payload of r" is the payload of whichever variant r is: one name for it
    from .symx import replace_atom
    fixed = []
    for gs, v in out:
        for g, p in gs:
            m = None
            if g.startswith("std::result::Result::<T, E>::is_ok("):
                for e in tracer.events:
                    pass
            if g.startswith("std::result::Result::<T, E>::is_ok(") and isinstance(v, (Poly, tuple, list)):
                # find the result value r by scanning v for payload0 atoms whose argument prints like the guard's argument
                inner = g[len("std::result::Result::<T, E>::is_ok("):-1]
                stack = [v]
                seen = None
                while stack and seen is None:
                    x = stack.pop()
                    if isinstance(x, Poly):
                        for mono in x.t:
                            for a_, _ in mono:
                                if a_[0] == "f":
                                    if a_[1] == "payload0" and isinstance(a_[2], tuple) and a_[2][0] == "P" and repr(a_[2][1]) == inner:
                                        seen = a_
                                        break
                                    stack.extend(k[1] for k in a_[2:] if isinstance(k, tuple) and len(k) == 2 and k[0] == "P")
                    elif isinstance(x, (tuple, list)):
                        stack.extend(y for y in x if isinstance(y, (Poly, tuple, list)))
                if seen is not None:
                    v = replace_atom(v, seen, app("either_payload", seen[2][1]))
        fixed.append((gs, v))
    return fixed


def elementwise(F, t, value, S, x="x"):
    """value == S.iter().[copied()].map(f)...collect(): return f applied to the variable x (None if not an order- and
    length-preserving elementwise image of S)"""
    a = single_atom(value) if isinstance(value, Poly) else None
    if _is_fresh_vec(value):
        # explicit loop: let mut v = Vec::with_capacity(n); for &e in S { v.push(f(e)) }
        pushes = [e for e in t.events if e.callee.endswith("::push") and _is_fresh_vec(e.args[0]) and vkey(e.args[0]) in (vkey(value),) or
                  (e.callee.endswith("::push") and _is_fresh_vec(e.args[0]))]
        if len(pushes) == 1 and not pushes[0].guards and len(pushes[0].loops) == 1:
            lp = pushes[0].loops[0]
            if lp[0] == "iter" and lp[2] in (("elems", S), ("elems", vkey(S))) and isinstance(lp[1], str):
                from .symx import replace_atom
                return replace_atom(pushes[0].args[1], single_atom(app("elem", S, var(lp[1]))), var(x))
        return None
    if not (a and (atom_fn(a) == "std::iter::Iterator::collect" or (atom_fn(a) or "").endswith("::from_iter"))):
        return None
    d = a[2]
    if not (isinstance(d, tuple) and d[0] == "iterdesc"):
        return None
    d = d[1]
    fns = []
    while d[0] in ("map", "copied", "cloned"):
        if d[0] == "map":
            fns.append(d[2])
        d = d[1]
    if d not in (("elems", S), ("elems", vkey(S))):
        return None
    v = var(x)
    for f in reversed(fns):
        node = F.closures.get(f[1]) if isinstance(f, tuple) and f[0] == "closure" and isinstance(f[1], str) else None
        try:
            if node is not None:
                v = t.apply(("closure", node, dict(getattr(t, "closure_envs", {}).get(f[1], {}))), [v])
            else:
                if isinstance(f, tuple) and len(f) == 2 and f[0] == "P":
                    f = f[1]
                v = t.apply(f, [v])
        except Unsupported:
            return None
    return v


def as_closure(F, tracer, c):
    """a closure value as stored inside an atom (its key: ('closure', def path)) -> an applicable closure value again"""
    if isinstance(c, tuple) and c and c[0] == "closure" and isinstance(c[1], str):
        node = getattr(tracer, "closure_nodes", {}).get(c[1]) or F.closures.get(c[1]) or F.closures.get(c[1].split("@")[0])
        if node is None:
            raise Unsupported("closure %s not found" % c[1])
        return ("closure", node, dict(getattr(tracer, "closure_envs", {}).get(c[1], {})))
    if isinstance(c, tuple) and len(c) == 2 and c[0] == "P":
        return c[1]
    return c


SPLIT_AT = "core::slice::<impl [T]>::split_at"


def _range_from_start(k):
    """start of a RangeFrom struct value/key, else None"""
    k = unkey(k) if not isinstance(k, Poly) else k
    if isinstance(k, tuple) and len(k) == 3 and k[0] == "struct" and k[1] == "RangeFrom":
        d = dict(k[2]) if not isinstance(k[2], dict) else k[2]
        s = d.get("start")
        return s[1] if isinstance(s, tuple) and len(s) == 2 and s[0] == "P" else s
    return None


def carried_progress(tracer, name):
    """A loop-carried local that is advanced by a loop-invariant amount at exactly one assignment site.
    -> dict(kind='counter'|'cursor', init, step, loops, guards) or None.
       counter: name' = name + step                       (value at the r-th advance-iteration = init + r*step)
       cursor : name' = name.split_at(step).1 | &name[step..]   (name = init[r*step..])"""
    sites = [s for s in tracer.assign_sites if s[0].split("#")[0] == name]
    init = [v for k, v in tracer.carried_init.items() if k.split("#")[0] == name]
    if len(sites) != 1 or len(init) != 1:
        return None
    _, r, loops, guards = sites[0]
    cur = var(name + "@loop")
    cur_atom = single_atom(cur)
    variant = lambda a: a[0] == "v" and (a[1].endswith("@loop") or a[1].endswith("@after") or any(
        a[1] in (l[1] if isinstance(l[1], (tuple, list)) else (l[1],)) or (len(l) > 3 and a[1] == l[3]) for l in loops if isinstance(l[1], (str, tuple, list))))
    if not isinstance(r, Poly):
        return None
    ra = single_atom(r)
    step = kind = None
    if ra is not None and atom_fn(ra) == "proj1":
        inner = atom_args(ra)[0]
        ia = single_atom(inner) if isinstance(inner, Poly) else None
        if ia is not None and atom_fn(ia) == SPLIT_AT and atom_args(ia)[0] == cur:
            step, kind = atom_args(ia)[1], "cursor"
    elif ra is not None and atom_fn(ra) == "index" and atom_args(ra)[0] == cur:
        st = _range_from_start(ra[3])
        if st is not None:
            step, kind = st, "cursor"
    if kind is None:
        d = r - cur
        if not contains_atom(d, lambda a: a == cur_atom):
            step, kind = d, "counter"
    if kind is None or not isinstance(step, Poly) or contains_atom(step, variant):
        return None
    return {"kind": kind, "init": init[0], "step": step, "loops": loops, "guards": guards}


def zip_components(desc):
    """the collections walked in lockstep by a loop over zip(a.iter(), b.iter(), ..) -> [values], or None when any component is
    not a plain whole-collection iterator (skip / take / rev / filter / step_by ... change which elements are paired)"""
    if not isinstance(desc, tuple) or not desc:
        return None
    if desc[0] == "iterdesc" and len(desc) == 2:
        return zip_components(desc[1])
    if desc[0] == "elems" and len(desc) == 2:
        v = desc[1]
        return [v[1] if isinstance(v, tuple) and len(v) == 2 and v[0] == "P" else v]
    if desc[0] == "zip" and len(desc) == 3:
        a, b = zip_components(desc[1]), zip_components(desc[2] if isinstance(desc[2], tuple) and desc[2] and desc[2][0] in ("iterdesc", "elems", "zip") else ("elems", desc[2]))
        return None if a is None or b is None else a + b
    return None


def optional_stage(v, stage_fn, inner):
    """is v `match opt { Some(p) => stage(p, inner) (unwrapped / ?-propagated), None => inner }` for a call of stage_fn? -> the option, else None"""
    a = single_atom(v) if isinstance(v, Poly) else None
    if a is None or atom_fn(a) != "match" or len(a) != 4:
        return None
    arms = {k: unkey(x) for k, x in a[3]}
    some = [k for k in arms if k.startswith("('Some'")]
    none = [k for k in arms if k not in some]
    if len(some) != 1 or len(none) != 1 or arms[none[0]] != inner:
        return None
    sv = arms[some[0]]
    for _ in range(3):
        sa = single_atom(sv) if isinstance(sv, Poly) else None
        if sa is not None and (atom_fn(sa) == "try" or atom_fn(sa).endswith(("::unwrap", "::expect"))):
            sv = atom_args(sa)[0]
        else:
            break
    sa = single_atom(sv) if isinstance(sv, Poly) else None
    opt = atom_args(a)[0]
    if sa is not None and atom_fn(sa) == stage_fn and list(atom_args(sa)) == [app("payload0", opt), inner]:
        return opt
    return None
