"""Check bookkeeping: rule instances, evidence, known findings, exit protocol."""
import json
import os
import sys
import time

from .extract import VERIF, AnalysisError

KNOWN_FINDINGS = os.path.join(VERIF, "known_findings.json")
EVIDENCE_DIR = os.path.join(VERIF, "evidence")
if os.environ.get("LDPCV_REPO", "/repo") != "/repo":
    # runs against scratch copies (mutant trials) never overwrite the real evidence
    EVIDENCE_DIR = os.path.join(VERIF, ".work", "evidence-scratch")


def load_known():
    if not os.path.exists(KNOWN_FINDINGS):
        return []
    with open(KNOWN_FINDINGS) as f:
        return json.load(f).get("findings", [])


class Check:
    """One run of one property's check.

    Every rule evaluation is recorded with `inst()`. An instance has a stable key (rule id +
    construct description, never a line number); failing instances are violations unless the
    key is listed as an *open* finding in known_findings.json.
    """

    def __init__(self, pid, tier, level, seed=0):
        self.pid = pid
        self.tier = tier
        self.level = level
        self.seed = seed
        self.t0 = time.time()
        self.instances = []
        self.rules = {}
        self.assumptions = []
        self.trusted = []
        self.explanation = ""
        self.floors = []
        self.pending_floors = []
        self.extra = {}
        self.notes = []

    # -- recording -----------------------------------------------------------
    def rule(self, rid, text):
        self.rules[rid] = text

    def inst(self, rule, key, ok, site="", reason="", facts=None, trivial=False):
        self.instances.append({
            "rule": rule, "key": "%s|%s" % (rule, key), "ok": bool(ok), "site": site,
            "reason": reason, "facts": facts, "trivial": trivial})
        return bool(ok)

    def ok(self, rule, key, site="", reason="", facts=None, trivial=False):
        return self.inst(rule, key, True, site, reason, facts, trivial)

    def fail(self, rule, key, site="", reason="", facts=None):
        return self.inst(rule, key, False, site, reason, facts)

    def floor(self, rule, what, count, minimum):
        """Fail closed if a rule matched fewer instances than were confirmed by hand."""
        self.floors.append({"rule": rule, "what": what, "count": count, "floor": minimum})
        if count < minimum and any(not i["ok"] for i in self.instances):
            # rule instances already failed: report those (a verdict) rather than masking them by the count error
            self.notes.append("floor not met for %s (%d < %d) while violations are being reported" % (rule, count, minimum))
            return
        if count < minimum:
            # decided at the end of the run: if the rules that follow report violations (e.g. "counter X is never updated"), those are
            # the verdict; if nothing else fails, the unmet floor makes the run fail closed
            self.pending_floors.append("%s: matched %d %s, expected at least %d (anchor moved or shape "
                                       "unreadable; the rule refuses to pass vacuously)" % (rule, count, what, minimum))

    def assume(self, text):
        if text not in self.assumptions:
            self.assumptions.append(text)

    def trust(self, text):
        if text not in self.trusted:
            self.trusted.append(text)

    def note(self, text):
        self.notes.append(text)

    # -- finishing -----------------------------------------------------------
    def finish(self):
        if self.pending_floors and all(i["ok"] for i in self.instances):
            raise AnalysisError(self.pending_floors[0])
        for msg in self.pending_floors:
            self.notes.append("floor not met while violations are being reported: " + msg)
        known = [k for k in load_known() if k.get("property") == self.pid]
        open_keys = {k["key"]: k for k in known if k.get("status") == "open"}
        failing = [i for i in self.instances if not i["ok"]]
        violations = []
        known_hits = []
        for i in failing:
            if i["key"] in open_keys:
                known_hits.append((i, open_keys[i["key"]]))
            else:
                violations.append(i)
        n_eval = len(self.instances)
        distinct = len({i["key"] for i in self.instances if not i["trivial"]})
        samples = []
        seen_rules = set()
        for i in self.instances:
            if i["rule"] not in seen_rules and not i["trivial"]:
                seen_rules.add(i["rule"])
                samples.append({k: i[k] for k in ("rule", "key", "ok", "site", "reason", "facts")})
        for i in failing[:10]:
            samples.append({k: i[k] for k in ("rule", "key", "ok", "site", "reason", "facts")})
        per_rule = {}
        for i in self.instances:
            d = per_rule.setdefault(i["rule"], {"instances": 0, "failed": 0})
            d["instances"] += 1
            d["failed"] += 0 if i["ok"] else 1
        cov = {
            "evaluations": n_eval,
            "distinct_nontrivial": distinct,
            "rule": "one evaluation = one rule instance (a call site, table row, CFG path, field, "
                    "obligation) found in /repo's type-checked HIR/MIR on this run; non-trivial = the "
                    "rule had to inspect a construct (instances discharged by absence are trivial); "
                    "distinct = distinct instance keys. Rules: "
                    + " || ".join("%s: %s" % kv for kv in sorted(self.rules.items())),
            "samples": samples,
            "explanation": self.explanation,
            "per_rule": per_rule,
            "floors": self.floors,
            "exhaustive": True,
            "known_findings_reported": [k["key"] for _, k in known_hits],
            "notes": self.notes,
        }
        if self.level == "proof":
            cov["obligations"] = n_eval
            cov["discharged"] = n_eval - len(failing)
            cov["checker_cmd"] = "./check %s --tier %s" % (self.pid, self.tier)
            cov["trusted_base"] = self.trusted
        cov.update(self.extra)
        ev = {
            "property_id": self.pid,
            "tier": self.tier,
            "seed": self.seed,
            "level": self.level,
            "coverage": cov,
            "assumptions": self.assumptions + (self.trusted if self.level != "proof" else []),
            "wall_s": round(time.time() - self.t0, 3),
            "violations": len(violations),
        }
        os.makedirs(EVIDENCE_DIR, exist_ok=True)
        with open(os.path.join(EVIDENCE_DIR, self.pid + ".json"), "w") as f:
            json.dump(ev, f, indent=1, sort_keys=False)
        # human-readable report
        print("== %s (%s tier): %d rule instances, %d distinct non-trivial, %d failing"
              % (self.pid, self.tier, n_eval, distinct, len(failing)))
        for r, d in sorted(per_rule.items()):
            print("   %-8s %4d instances %s" % (r, d["instances"],
                                                 ("(%d FAILED)" % d["failed"]) if d["failed"] else ""))
        for i, k in known_hits:
            print("KNOWN-FINDING: property=%s %s [%s at %s]" % (self.pid, k["what"], i["key"], i["site"]))
        if violations:
            vpath = os.path.join(EVIDENCE_DIR, self.pid + ".violations.json")
            with open(vpath, "w") as f:
                json.dump(violations, f, indent=1)
            for v in violations:
                print("  violated %s at %s: %s" % (v["key"], v["site"], v["reason"]))
            print("VIOLATION property=%s replay=%s" % (self.pid, vpath))
            return 1
        else:
            vpath = os.path.join(EVIDENCE_DIR, self.pid + ".violations.json")
            if os.path.exists(vpath):
                os.remove(vpath)
        print("OK %s" % self.pid)
        return 0


def write_error_evidence(pid, tier, level, seed, msg, t0):
    """An analysis error is not a verdict; record it so the evidence file is not stale."""
    os.makedirs(EVIDENCE_DIR, exist_ok=True)
    ev = {"property_id": pid, "tier": tier, "seed": seed, "level": level,
          "coverage": {"evaluations": 0, "distinct_nontrivial": 0,
                       "explanation": "ANALYSIS-ERROR: " + msg, "samples": []},
          "wall_s": round(time.time() - t0, 3), "violations": 0}
    with open(os.path.join(EVIDENCE_DIR, pid + ".json"), "w") as f:
        json.dump(ev, f, indent=1)


class RuleAlias:
    """Run the rules of another property's module inside this check under one rule id of this property (the rule instances keep
    their keys, prefixed with the foreign rule id). Used where two properties rest on the same facts (e.g. C12's 'modulation and
    its inverse cancel' on C14's constellation/partition rules)."""

    def __init__(self, ck, rule, prefix="", only=None):
        self._ck, self._rule, self._prefix = ck, rule, prefix
        self._only = only           # (foreign rule id, key) -> bool: which foreign instances are taken over
        self.explanation = ""

    def rule(self, rid, text):
        pass

    def inst(self, rule, key, ok, site="", reason="", facts=None, trivial=False):
        if self._only is not None and not self._only(rule, key):
            return None
        return self._ck.inst(self._rule, "%s%s:%s" % (self._prefix, rule, key), ok, site, reason, facts, trivial)

    def ok(self, rule, key, site="", reason="", facts=None, trivial=False):
        if self._only is not None and not self._only(rule, key):
            return None
        return self._ck.ok(self._rule, "%s%s:%s" % (self._prefix, rule, key), site, reason, facts, trivial)

    def fail(self, rule, key, site="", reason="", facts=None):
        if self._only is not None and not self._only(rule, key):
            return None
        return self._ck.fail(self._rule, "%s%s:%s" % (self._prefix, rule, key), site, reason, facts)

    def floor(self, rule, what, count, minimum):
        if self._only is not None:
            return None
        return self._ck.floor(self._rule, what, count, minimum)

    def assume(self, text):
        pass

    def trust(self, text):
        return self._ck.trust(text)

    def note(self, text):
        return self._ck.note(text)
