"""Load fact files, normalise HIR (re-sugar for / while / ?), index bodies and items."""
import json
import os
import re

from .extract import AnalysisError


# ---------------------------------------------------------------------------
# generic tree helpers
# ---------------------------------------------------------------------------

def children(n):
    """Direct child nodes (dicts with 'k' or arm dicts) of a HIR node."""
    if isinstance(n, dict):
        for key, v in n.items():
            if key in ("ty", "sp", "se", "exp", "adj", "ty_adj", "recv_adj", "gargs", "inst_args",
                       "captures", "base_adj"):
                continue
            if isinstance(v, dict):
                yield v
            elif isinstance(v, list):
                for x in v:
                    if isinstance(x, dict):
                        yield x


def walk(n):
    """Pre-order walk over all dict nodes below n (including n)."""
    stack = [n]
    while stack:
        x = stack.pop()
        if isinstance(x, dict):
            yield x
            ch = list(children(x))
            stack.extend(reversed(ch))


def nodes(n, kind):
    ks = (kind,) if isinstance(kind, str) else tuple(kind)
    return [x for x in walk(n) if x.get("k") in ks]


def callee(n):
    """Resolved def path of a call / method call / overloaded operator node, else None."""
    k = n.get("k")
    if k == "mcall":
        return n.get("def")
    if k == "call":
        f = n["f"]
        if f.get("k") == "path" and f.get("res") in ("def", "selfctor"):
            return f.get("def")
        return None
    if k in ("bin", "un", "assignop", "index") and n.get("ovl"):
        return n.get("def")
    return None


def callee_inst(n):
    """Instance-resolved def path (impl method) if known, else the declared callee."""
    k = n.get("k")
    if k == "mcall":
        return n.get("inst") or n.get("def")
    if k == "call":
        f = n["f"]
        if f.get("k") == "path":
            return f.get("inst") or f.get("def")
    return callee(n)


def call_args(n):
    """Uniform argument list: receiver first for method calls."""
    if n.get("k") == "mcall":
        return [n["recv"]] + list(n["args"])
    if n.get("k") == "call":
        return list(n["args"])
    return []


def calls_to(n, pat):
    """All call/mcall nodes below n whose callee matches regex `pat` (fullmatch)."""
    rx = re.compile(pat)
    out = []
    for x in walk(n):
        if x.get("k") in ("call", "mcall"):
            c = callee(x)
            if c and rx.fullmatch(c):
                out.append(x)
    return out


def strip(n):
    """Peel reference / deref / block-with-only-expr / cast-free wrappers."""
    while True:
        k = n.get("k")
        if k == "ref":
            n = n["e"]
        elif k == "un" and n.get("op") == "Deref" and not n.get("ovl"):
            n = n["e"]
        elif k == "block" and not n.get("stmts") and n.get("e") is not None:
            n = n["e"]
        else:
            return n


def plain_local(n):
    """name of the local when n is exactly a local variable expression (no deref / field / index), else None"""
    while n.get("k") == "block" and not n.get("stmts") and n.get("e") is not None:
        n = n["e"]
    if n.get("k") == "path" and n.get("res") == "local":
        return n["name"]
    return None


def is_local(n, name=None):
    n = strip(n)
    if n.get("k") == "path" and n.get("res") == "local":
        return name is None or n["name"].split("#")[0] == name or n["name"] == name
    return False


def local_name(n):
    n = strip(n)
    if n.get("k") == "path" and n.get("res") == "local":
        return n["name"]
    return None


def access_path(n):
    """`self.a.b[i]` -> ('self#1', 'a', 'b', '[]') ; None when not a pure place path."""
    out = []
    while True:
        n = strip(n)
        k = n.get("k")
        if k == "field":
            out.append(n["f"])
            n = n["e"]
        elif k == "index":
            out.append("[]")
            n = n["e"]
        elif k == "path" and n.get("res") == "local":
            out.append(n["name"])
            return tuple(reversed(out))
        elif k == "mcall" and n.get("m") in ("as_ref", "as_mut", "iter", "iter_mut", "borrow",
                                             "borrow_mut", "deref", "deref_mut"):
            n = n["recv"]
        else:
            return None


def self_field_path(n):
    """access path with the root local renamed to 'self' when it is the self param."""
    ap = access_path(n)
    if ap and ap[0].split("#")[0] == "self":
        return ("self",) + ap[1:]
    return ap


def lit_value(n):
    n = strip(n)
    if n.get("k") == "lit":
        if n["lt"] == "float":
            return float(n["v"].replace("_", ""))
        return n["v"]
    if n.get("k") == "un" and n.get("op") == "Neg" and not n.get("ovl"):
        v = lit_value(n["e"])
        if v is not None:
            return -v
    if n.get("k") == "cast":
        return lit_value(n["e"])
    return None


def pat_binds(p):
    """All binding names in a pattern."""
    return [x["name"] for x in walk(p) if x.get("k") == "bind"]


# ---------------------------------------------------------------------------
# re-sugaring
# ---------------------------------------------------------------------------

def _undo_self_destructuring(root):
    """`let Self { a, b, .. } = self;` (split borrows of the receiver) followed by uses of the locals `a`, `b` is rewritten to
    uses of `self.a`, `self.b`, so that analyses keyed on receiver fields see the same accesses in both spellings."""
    mapping = {}
    selfnode = [None]

    def find(n):
        if isinstance(n, list):
            for x in n:
                find(x)
        elif isinstance(n, dict):
            if n.get("k") == "let" and isinstance(n.get("pat"), dict) and n["pat"].get("k") == "pstruct" and isinstance(n.get("init"), dict) \
                    and "els" not in n:
                init = n["init"]
                while init.get("k") in ("block",) and not init.get("stmts") and init.get("e") is not None:
                    init = init["e"]
                while init.get("k") in ("ref", "un") and isinstance(init.get("e"), dict):
                    init = init["e"]
                if init.get("k") == "path" and init.get("res") == "local" and init.get("name", "").split("#")[0] == "self" and \
                        all(f["pat"].get("k") == "bind" and "sub" not in f["pat"] for f in n["pat"].get("fields", [])):
                    for f in n["pat"]["fields"]:
                        mapping[f["pat"]["name"]] = f["name"]
                    selfnode[0] = init
                    n["_self_destructure"] = True
            for v in n.values():
                if isinstance(v, (dict, list)):
                    find(v)
    find(root)
    if not mapping:
        return root

    def rewrite(n):
        if isinstance(n, list):
            return [rewrite(x) for x in n]
        if not isinstance(n, dict):
            return n
        if n.get("k") == "path" and n.get("res") == "local" and n.get("name") in mapping:
            ty = (n.get("ty") or "")
            for pre in ("&mut ", "&"):
                if ty.startswith(pre):
                    ty = ty[len(pre):]
                    break
            out = {"k": "field", "e": dict(selfnode[0]), "f": mapping[n["name"]], "ty": ty, "sp": n.get("sp"), "se": n.get("se")}
            if n.get("adj"):
                out["adj"] = [a for a in n["adj"] if "Deref" not in a]
            return out
        if n.get("k") == "block" and n.get("stmts"):
            n["stmts"] = [st for st in n["stmts"] if not st.get("_self_destructure")]
        for key in list(n.keys()):
            v = n[key]
            if isinstance(v, (dict, list)):
                n[key] = rewrite(v)
        return n
    return rewrite(root)


class _ClosureTable(dict):
    """closure literal nodes by definition path; a key with an expansion-instance suffix (`path@3`, one per inlined copy of the
    enclosing helper) finds the literal of its definition"""

    def get(self, key, default=None):
        if isinstance(key, str):
            if key in self:
                return self[key]
            base = key.split("@")[0]
            if base in self:
                return self[base]
        return default


def _resugar(n):
    """Rewrite desugared for / while / ? into structured nodes, recursively (in place)."""
    if isinstance(n, list):
        for i, x in enumerate(n):
            n[i] = _resugar(x)
        return n
    if not isinstance(n, dict):
        return n
    for key in list(n.keys()):
        v = n[key]
        if isinstance(v, (dict, list)):
            n[key] = _resugar(v)
    k = n.get("k")
    if k == "mcall" and n.get("m") == "for_each" and (n.get("def") or "").endswith("Iterator::for_each") and len(n.get("args", [])) == 1:
        # it.for_each(|x| body)  ==  for x in it { body }   (a `return` inside the closure would be a `continue`: left alone)
        clo = n["args"][0]
        while clo.get("k") == "block" and not clo.get("stmts") and clo.get("e") is not None:
            clo = clo["e"]
        if clo.get("k") == "closure" and len(clo.get("params", [])) == 1 and not any(x.get("k") == "ret" for x in walk(clo["body"])):
            return {"k": "for", "pat": clo["params"][0], "iter": n["recv"], "body": clo["body"], "sp": n.get("sp"), "ty": "()",
                    "from_for_each": True}
    if k == "match" and n.get("src") == "ForLoopDesugar":
        # match into_iter(ITER) { mut iter => loop { match next(&mut iter) { None => break, Some(PAT) => BODY } } }
        try:
            it = n["e"]
            iter_expr = it["args"][0] if it.get("k") == "call" else it
            lp = n["arms"][0]["body"]
            lp = strip(lp)
            inner = lp["body"]["e"] if lp["body"].get("e") is not None else lp["body"]["stmts"][0]["e"]
            inner = strip(inner)
            some = [a for a in inner["arms"] if a["pat"].get("k") in ("ptstruct", "pstruct")
                    and a["pat"].get("def", "").endswith("Some")][0]
            spat = some["pat"]["ps"][0] if some["pat"]["k"] == "ptstruct" else some["pat"]["fields"][0]["pat"]
            return {"k": "for", "pat": spat, "iter": iter_expr, "body": some["body"],
                    "id": lp.get("id"), "sp": n.get("sp"), "ty": "()",
                    "into_iter": it.get("f", {}).get("inst") if it.get("k") == "call" else None}
        except (KeyError, IndexError, TypeError):
            return n
    if k == "match" and n.get("src", "").startswith("TryDesugar"):
        try:
            e = n["e"]
            inner = e["args"][0] if e.get("k") == "call" else e
            tf = strip(inner)
            if tf.get("k") == "mcall" and tf.get("m") == "try_for_each" and (tf.get("def") or "").endswith("Iterator::try_for_each") and len(tf.get("args", [])) == 1:
                # it.try_for_each(|x| body)?  ==  for x in it { body? }
                clo = tf["args"][0]
                while clo.get("k") == "block" and not clo.get("stmts") and clo.get("e") is not None:
                    clo = clo["e"]
                if clo.get("k") == "closure" and len(clo.get("params", [])) == 1 and not any(x.get("k") == "ret" for x in walk(clo["body"])):
                    loop = {"k": "for", "pat": clo["params"][0], "iter": tf["recv"], "sp": tf.get("sp"), "ty": "()", "from_for_each": True,
                            "body": {"k": "block", "stmts": [{"k": "semi", "e": {"k": "try", "e": clo["body"], "ty": "()", "sp": n.get("sp")}}], "ty": "()"}}
                    return {"k": "block", "stmts": [{"k": "semi", "e": loop}], "ty": "()", "sp": n.get("sp")}
            return {"k": "try", "e": inner, "ty": n.get("ty"), "sp": n.get("sp")}
        except (KeyError, IndexError):
            return n
    if k == "loop" and n.get("src") == "While":
        # loop { if COND { BODY } else { break } }
        try:
            b = n["body"]
            ife = b["e"] if b.get("e") is not None else b["stmts"][0]["e"]
            ife = strip(ife)
            if ife.get("k") == "if":
                return {"k": "while", "c": ife["c"], "body": ife["t"], "id": n.get("id"),
                        "sp": n.get("sp"), "ty": "()"}
        except (KeyError, IndexError, TypeError):
            return n
    return n


# ---------------------------------------------------------------------------
# fact store
# ---------------------------------------------------------------------------

class Body:
    def __init__(self, d, crate):
        self.d = d
        self.crate = crate
        self.path = d["path"]
        self.kind = d["def_kind"]
        self.span = d["span"]
        self.parent = d.get("parent")
        self.hir = d.get("hir")
        self.mir = d.get("mir")
        self.expn = d.get("expn")

    @property
    def params(self):
        return self.hir["params"] if self.hir else []

    @property
    def value(self):
        return self.hir["value"] if self.hir else None

    def __repr__(self):
        return "<Body %s>" % self.path


class Facts:
    def __init__(self, fdir, files=("ldpc_toolbox-lib.json", "ldpc_toolbox-bin.json")):
        self.dir = fdir
        self.crates = {}
        self.bodies = {}
        self.by_crate = {}
        self.closures = _ClosureTable()
        for fn in files:
            p = os.path.join(fdir, fn)
            if not os.path.exists(p):
                raise AnalysisError("missing fact file " + p)
            with open(p) as f:
                d = json.load(f)
            name = fn[:-5]
            self.crates[name] = d
            lst = []
            for b in d["bodies"]:
                if b.get("hir"):
                    b["hir"] = _undo_self_destructuring(_resugar(b["hir"]))
                body = Body(b, name)
                lst.append(body)
                # lib paths win over bin paths of the same name
                self.bodies.setdefault(body.path, body)
            self.by_crate[name] = lst
        self.lib = self.crates[files[0][:-5]]
        self.items = self.lib["items"]
        # index closures' HIR from their parents' trees
        for b in list(self.bodies.values()):
            if b.hir:
                for n in walk(b.hir["value"]):
                    if n.get("k") == "closure":
                        self.closures[n["def"]] = n
        self.adts = {a["path"]: a for a in self.items["adts"]}
        self.impls = self.items["impls"]
        # the arithmetic kernels are analysed by several syntactic rules (scratch discipline, operator profiles, magnitude domains):
        # private helper functions of that module are expanded in place so that extracting / inlining a helper changes nothing
        self.expand_private_helpers("decoder::arithmetic::", keep=r".*::(lookup|clip|phi|new|default|fmt|clone|eq|hash)$")

    def expand_private_helpers(self, prefix, keep, max_depth=3):
        import copy
        counter = [0]

        def helper_of(n):
            if n.get("k") not in ("call", "mcall"):
                return None
            cp = callee(n)
            hb = self.private_helper(cp, prefix, keep=keep) if cp else None
            if hb is None or any(x.get("k") == "ret" for x in walk(hb.value)):
                return None
            args = ([n["recv"]] if n.get("k") == "mcall" else []) + list(n.get("args", []))
            if len(args) != len(hb.params) or not all(p.get("k") == "bind" and "sub" not in p for p in hb.params):
                return None
            return hb, args

        def rename(node, suffix, subst):
            if isinstance(node, list):
                return [rename(x, suffix, subst) for x in node]
            if not isinstance(node, dict):
                return node
            if node.get("k") == "path" and node.get("res") == "local":
                if node.get("name") in subst:
                    rep = copy.deepcopy(subst[node["name"]])
                    return rep
                out = dict(node)
                out["name"] = node["name"] + suffix
                return out
            out = {}
            for k, v in node.items():
                if k == "name" and node.get("k") == "bind":
                    out[k] = v + suffix
                elif isinstance(v, (dict, list)):
                    out[k] = rename(v, suffix, subst)
                else:
                    out[k] = v
            return out

        def expand(node, depth):
            if isinstance(node, list):
                return [expand(x, depth) for x in node]
            if not isinstance(node, dict):
                return node
            for k in list(node.keys()):
                v = node[k]
                if isinstance(v, (dict, list)):
                    node[k] = expand(v, depth)
            h = helper_of(node) if depth < max_depth else None
            if h is None:
                return node
            hb, args = h
            counter[0] += 1
            suffix = "@h%d" % counter[0]
            subst = {p["name"]: a for p, a in zip(hb.params, args)}
            body = rename(copy.deepcopy(hb.value), suffix, subst)
            body = expand(body, depth + 1)
            if isinstance(body, dict):
                body["expanded_from"] = hb.path
            return body
        for path, b in list(self.bodies.items()):
            if path.startswith(prefix) or ("<" + prefix) in path[:len(prefix) + 2]:
                if b.hir and self.private_helper(path, prefix, keep=keep) is None:
                    b.hir["value"] = expand(b.hir["value"], 0)
        # closures index must follow the rewritten trees
        for b in list(self.bodies.values()):
            if b.hir:
                for n in walk(b.hir["value"]):
                    if n.get("k") == "closure":
                        self.closures[n["def"]] = n

    def private_helper(self, path, prefix="", keep=None):
        """body of `path` when it is a private (non-pub), non-const function under `prefix` that rules may expand at its call sites
        (an extracted helper), else None. `keep` is a regex of paths that must stay opaque."""
        b = self.bodies.get(path) if path else None
        if b is None or not b.hir or not path.startswith(prefix):
            return None
        if b.d.get("def_kind") not in ("Fn", "AssocFn") or b.d.get("constness"):
            return None
        if not str(b.d.get("vis", "")).startswith("Restricted"):
            return None
        if keep is not None and re.fullmatch(keep, path):
            return None
        return b

    # -- lookup ------------------------------------------------------------
    def body(self, path):
        b = self.bodies.get(path)
        if b is None:
            raise AnalysisError("anchor not found: function `%s`" % path)
        return b

    def has_body(self, path):
        return path in self.bodies

    def find_bodies(self, pat):
        rx = re.compile(pat)
        return [b for p, b in sorted(self.bodies.items()) if rx.fullmatch(p)]

    def adt(self, path):
        a = self.adts.get(path)
        if a is None:
            raise AnalysisError("anchor not found: type `%s`" % path)
        return a

    def impls_of(self, trait):
        return [i for i in self.impls if i.get("trait") == trait]

    def inherent_impls(self, self_ty):
        return [i for i in self.impls if i.get("self_ty") == self_ty and "trait" not in i]

    def closure(self, path):
        return self.closures.get(path)
