"""Debug helper: print a compact rendering of a body's HIR.  python3 -m ldpcv.dump <regex> [--mir]"""
import sys, json, re
from .extract import repo_facts, canary_facts
from .facts import Facts, callee, callee_inst

def show(n, ind=0, out=None):
    pad = "  " * ind
    k = n.get("k")
    def line(s): print(pad + s)
    if k in ("lit", "plit"): return line("%s %r : %s" % (k, n["v"], n.get("ty")))
    if k == "path":
        return line("path %s %s%s : %s" % (n.get("res"), n.get("name") or n.get("def"), (" inst=" + n["inst"]) if n.get("inst") and n.get("inst") != n.get("def") else "", (n.get("ty") or "")[:70]))
    hdr = k
    for key in ("m", "op", "f", "src", "def", "inst", "inst_self", "name", "ctor_of", "ovl", "mode", "lt", "move", "adj"):
        if key in n and not isinstance(n[key], (dict, list)) or key == "adj" and key in n:
            hdr += " %s=%s" % (key, n[key])
    if "ty" in n: hdr += " : " + n["ty"][:70]
    line(hdr)
    for key, v in n.items():
        if key in ("ty", "sp", "exp", "adj", "ty_adj", "recv_adj", "gargs", "inst_args", "captures", "base_adj"): continue
        if isinstance(v, dict):
            print(pad + " ." + key); show(v, ind + 2)
        elif isinstance(v, list) and v and isinstance(v[0], dict):
            print(pad + " ." + key + "[]")
            for x in v:
                if "k" in x: show(x, ind + 2)
                else:
                    print(pad + "   -")
                    for kk, vv in x.items():
                        if isinstance(vv, dict): print(pad + "    ." + kk); show(vv, ind + 3)
                        elif kk not in ("sp",): print(pad + "    %s=%s" % (kk, vv))

def main():
    args = [a for a in sys.argv[1:] if not a.startswith("--")]
    canary = "--canary" in sys.argv
    if canary:
        F = Facts(canary_facts()[0], files=("ldpcv_canary-lib.json",))
    else:
        F = Facts(repo_facts()[0])
    for b in F.find_bodies(args[0]):
        print("=====", b.path, b.kind, b.span)
        if "--mir" in sys.argv:
            m = b.mir
            for i, l in enumerate(m["locals"]): print("  _%d: %s %s" % (i, l["ty"], l.get("name", "")))
            for i, bb in enumerate(m["blocks"]):
                print(" bb%d%s:" % (i, " (cleanup)" if bb.get("cleanup") else ""))
                for s in bb["stmts"]: print("    ", json.dumps(s)[:400])
                print("    T", json.dumps(bb["term"])[:600])
        elif b.hir:
            for p in b.params: show(p, 1)
            show(b.value, 1)

main()
