"""Effect tracing: symbolic walk of a structured body collecting call events with their
symbolic arguments, enclosing loops and guards (used by the construction-shape rules)."""
import re

from .facts import callee, strip, walk, plain_local
from .symx import SymEval, Unsupported, Poly, app, var, num, vkey


class Event:
    def __init__(self, callee, args, loops, guards, site, node, env=None):
        self.env = env
        self.callee = callee
        self.args = args
        self.loops = list(loops)
        self.guards = list(guards)
        self.site = site
        self.node = node

    def __repr__(self):
        return "Event(%s %r loops=%r guards=%r @%s)" % (self.callee, self.args, self.loops, self.guards, self.site)


class Tracer(SymEval):
    """SymEval that also walks loops / branches and records calls matching `interesting`.

    loops are recorded as ('range', varname, lo, hi, inclusive) or ('iter', pattern-names, desc).
    guards as (condition value, polarity).
    Any call that is neither interesting, inlinable nor pure-looking is recorded in `self.others`.
    """

    def __init__(self, F, interesting, **kw):
        super().__init__(F, **kw)
        self.rx = re.compile(interesting)
        self.events = []
        self.others = []
        self.loops = []
        self.guards = []
        self.assigned = {}

    # -- iterator descriptions ----------------------------------------------
    def iter_desc(self, it, env):
        it = strip(it)
        if it.get("k") == "struct" and it.get("def") in ("std::ops::Range", "core::ops::Range"):
            f = {x["name"]: self.eval(x["e"], env) for x in it["fields"]}
            return ("range", f["start"], f["end"], False)
        if it.get("k") == "call" and (callee(it) or "").endswith("RangeInclusive::<Idx>::new"):
            a = [self.eval(x, env) for x in it["args"]]
            return ("range", a[0], a[1], True)
        if it.get("k") == "mcall":
            m = it["m"]
            d = it.get("def", "")
            if m in ("iter", "iter_mut", "into_iter") and not d.startswith("sparse::"):
                return ("elems", self.eval(it["recv"], env))
            if m == "enumerate":
                return ("enumerate", self.iter_desc(it["recv"], env))
            if m == "rev":
                return ("rev", self.iter_desc(it["recv"], env))
            if m in ("map", "filter", "filter_map", "zip", "skip", "step_by", "take"):
                inner = self.iter_desc(it["recv"], env)
                extra = [self.eval(a, env) if a.get("k") != "closure" else ("closure", a, dict(env)) for a in it["args"]]
                return (m, inner) + tuple(extra)
        v = self.eval(it, env)
        if isinstance(v, tuple) and v and v[0] == "iterdesc":
            return v[1]
        return ("elems", v)

    def elem_value(self, desc, hint):
        kind = desc[0]
        if kind == "range":
            return var(hint)
        if kind == "elems":
            return app("elem", desc[1], var(hint))
        if kind == "enumerate":
            return ("tuple", [var(hint + "_idx"), self.elem_value(desc[1], hint)])
        if kind == "rev":
            return self.elem_value(desc[1], hint)
        if kind == "map":
            inner = self.elem_value(desc[1], hint)
            return self.apply(desc[2], [inner])
        if kind in ("filter", "skip", "step_by", "take"):
            return self.elem_value(desc[1], hint)
        if kind == "zip":
            other = desc[2]
            return ("tuple", [self.elem_value(desc[1], hint), app("elem", other, var(hint + "_z"))])
        return app("elem_" + kind, *[vkey(x) for x in desc[1:]])

    # -- control flow --------------------------------------------------------
    def e_for(self, n, env):
        desc = self.iter_desc(n["iter"], env)
        names = [x["name"].split("#")[0] for x in walk(n["pat"]) if x.get("k") == "bind"]
        hint = names[0] if names else "it"
        e2 = dict(env)
        pat = n["pat"]
        if desc[0] == "enumerate" and pat.get("k") == "ptuple" and len(pat["ps"]) == 2:
            # name the index after the user's binding
            idx_names = [x["name"].split("#")[0] for x in walk(pat["ps"][0]) if x.get("k") == "bind"]
            el_names = [x["name"].split("#")[0] for x in walk(pat["ps"][1]) if x.get("k") == "bind"]
            iv = var(idx_names[0]) if idx_names else var("_idx")
            ev = self.elem_value(desc[1], el_names[0] if el_names else "_el")
            val = ("tuple", [iv, ev])
            loop = ("enumerate", idx_names[0] if idx_names else "_idx", desc[1])
        elif desc[0] not in ("range", "map", "zip") and pat.get("k") == "ptuple" and \
                all(p.get("k") == "bind" and "sub" not in p for p in pat["ps"]):
            nm = [p["name"].split("#")[0] for p in pat["ps"]]
            val = ("tuple", [var(x) for x in nm])
            loop = ("iter", tuple(nm), desc)
        else:
            val = self.elem_value(desc, hint)
            d0 = desc
            while d0[0] == "rev":
                d0 = d0[1]
            loop = ("range", hint, d0[1], d0[2], d0[3]) if d0[0] == "range" else ("iter", hint, desc)
        self.bind(pat, val, e2)
        # variables assigned in the loop body are loop-carried: forget their values
        for a in walk(n["body"]):
            if a.get("k") in ("assign", "assignop"):
                nm = plain_local(a["l"])
                if nm is not None:
                    e2[nm] = var(nm.split("#")[0] + "@loop")
        self.loops.append(loop)
        try:
            self.eval(n["body"], e2)
        finally:
            self.loops.pop()
        # after the loop, loop-carried variables stay unknown
        for a in walk(n["body"]):
            if a.get("k") in ("assign", "assignop"):
                nm = plain_local(a["l"])
                if nm is not None and nm in env:
                    env[nm] = var(nm.split("#")[0] + "@after")
        return ("tuple", [])

    def _forget_assigned(self, body, env, tag):
        for a in walk(body):
            if a.get("k") in ("assign", "assignop"):
                nm = plain_local(a["l"])
                if nm is not None and nm in env:
                    env[nm] = var(nm.split("#")[0] + tag)

    def e_while(self, n, env):
        e2 = dict(env)
        self._forget_assigned(n["body"], e2, "@loop")
        c = self.eval(n["c"], e2)
        self.loops.append(("while", c))
        self.guards.append((c, True))
        try:
            self.eval(n["body"], e2)
        finally:
            self.guards.pop()
            self.loops.pop()
        self._forget_assigned(n["body"], env, "@after")
        return ("tuple", [])

    def e_if(self, n, env):
        c = self.eval(n["c"], env)
        if isinstance(c, tuple) and c and c[0] == "bool":
            if c[1]:
                return self.eval(n["t"], env)
            return self.eval(n["e"], env) if "e" in n else ("tuple", [])
        self.guards.append((c, True))
        try:
            t = self.eval(n["t"], dict(env))
        finally:
            self.guards.pop()
        e = ("tuple", [])
        if "e" in n:
            self.guards.append((c, False))
            try:
                e = self.eval(n["e"], dict(env))
            finally:
                self.guards.pop()
        return app("ite", c, t, e)

    def e_block(self, n, env):
        env = dict(env) if n.get("stmts") else env
        for s in n.get("stmts", []):
            if s["k"] == "let":
                if "init" in s:
                    self.bind(s["pat"], self.eval(s["init"], env), env)
                else:
                    for b in walk(s["pat"]):
                        if b.get("k") == "bind":
                            env[b["name"]] = var(b["name"].split("#")[0] + "@uninit")
            else:
                e = s["e"]
                if e.get("k") in ("assign", "assignop"):
                    nm = plain_local(e["l"])
                    r = self.eval(e["r"], env)
                    if nm is not None:
                        if e["k"] == "assignop":
                            r = self.arith(e["op"].replace("Assign", ""), self.eval(e["l"], env), r)
                        env[nm] = r
                        self.assigned[nm] = r
                    else:
                        self.events.append(Event("<assign>", [self.eval(e["l"], env), r], self.loops, self.guards,
                                                 e.get("sp"), e))
                    continue
                from .symx import is_assert, _panics
                if is_assert(e):
                    self.asserts.append((e, list(self.loops), list(self.guards)))
                    continue
                if _panics(e):
                    self.events.append(Event("<panic>", [], self.loops, self.guards, e.get("sp"), e))
                    return ("panic",)
                self.eval(e, env)
        if n.get("e") is not None:
            return self.eval(n["e"], env)
        return ("tuple", [])

    def e_call(self, n, env):
        f = n["f"]
        if not (f.get("k") == "path" and f.get("res") == "def"):
            # call of a local function value (closure parameter, hook closure literal): record it
            fv = self.eval(f, env)
            args = [self.eval(a, env) for a in n["args"]]
            self.events.append(Event("<apply>", [fv] + args, self.loops, self.guards, n.get("sp"), n, dict(env)))
            return self.apply(fv, args)
        return super().e_call(n, env)

    def e_match(self, n, env):
        from .symx import const_key
        from .tables import pat_key
        s = self.eval(n["e"], env)
        if const_key(s) is not None:
            return super().e_match(n, env)
        arms = []
        for a in n["arms"]:
            e2 = dict(env)
            try:
                self.bind(a["pat"], s, e2)
            except Unsupported:
                pass
            self.guards.append((app("matches", s, repr(pat_key(a["pat"]))), True))
            try:
                if "guard" in a:
                    g = self.eval(a["guard"], e2)
                    self.guards.append((g, True))
                    try:
                        v = self.eval(a["body"], e2)
                    finally:
                        self.guards.pop()
                else:
                    v = self.eval(a["body"], e2)
            finally:
                self.guards.pop()
            arms.append((repr(pat_key(a["pat"])), v))
        return app("match", s, tuple(arms))

    def e_ret(self, n, env):
        v = self.eval(n["e"], env) if "e" in n else ("tuple", [])
        self.events.append(Event("<return>", [v], self.loops, self.guards, n.get("sp"), n))
        return ("never",)

    def e_break(self, n, env):
        self.events.append(Event("<break>", [], self.loops, self.guards, n.get("sp"), n))
        return ("never",)

    def e_continue(self, n, env):
        self.events.append(Event("<continue>", [], self.loops, self.guards, n.get("sp"), n))
        return ("never",)

    def e_assign(self, n, env):
        r = self.eval(n["r"], env)
        self.events.append(Event("<assign>", [self.eval(n["l"], env), r], self.loops, self.guards, n.get("sp"), n))
        return ("tuple", [])

    e_assignop = e_assign

    def e_loop(self, n, env):
        e2 = dict(env)
        self._forget_assigned(n["body"], e2, "@loop")
        self.loops.append(("loop",))
        try:
            self.eval(n["body"], e2)
        finally:
            self.loops.pop()
        self._forget_assigned(n["body"], env, "@after")
        return ("tuple", [])

    def e_letx(self, n, env):
        v = self.eval(n["e"], env)
        try:
            self.bind(n["pat"], v, env)
        except Unsupported:
            pass
        from .tables import pat_key
        return app("matches", v, repr(pat_key(n["pat"])))

    ITER_METHODS = ("iter", "iter_mut", "into_iter", "map", "filter", "filter_map", "enumerate", "rev", "zip",
                    "skip", "step_by", "take")

    def e_mcall(self, n, env):
        if n["m"] in self.ITER_METHODS and not (n.get("def") or "").startswith(("sparse::", "codes::")) and \
                ("Iter" in n.get("ty", "") or "iter::" in n.get("ty", "")):
            d = ("iterdesc", self.iter_desc(n, env))
            if n["m"] == "iter_mut":
                self.mutated(n["recv"], env)
            return d
        return super().e_mcall(n, env)

    def call_fn(self, path, inst, args, n, env):
        if path and self.rx.fullmatch(path):
            self.events.append(Event(path, args, self.loops, self.guards, n.get("sp") if n else None, n, dict(env) if env else None))
            return app(path, *args)
        return super().call_fn(path, inst, args, n, env)
