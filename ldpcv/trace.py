"""Effect tracing: symbolic walk of a structured body collecting call events with their
symbolic arguments, enclosing loops and guards (used by the construction-shape rules)."""
import re

from .facts import callee, strip, walk, plain_local
from .symx import single_atom, atom_fn, atom_args, SymEval, Unsupported, Poly, app, var, num, vkey, unkey


_SEQ = [0]


def next_seq():
    """global order stamp shared by traced events and audited sites (one timeline per process)"""
    _SEQ[0] += 1
    return _SEQ[0]


class Event:
    def __init__(self, callee, args, loops, guards, site, node, env=None):
        self.seq = next_seq()
        self.env = env
        self.callee = callee
        self.args = args
        self.loops = list(loops)
        self.guards = list(guards)
        self.site = site
        self.node = node

    def __repr__(self):
        return "Event(%s %r loops=%r guards=%r @%s)" % (self.callee, self.args, self.loops, self.guards, self.site)


def _keys_overlap(a, b):
    """can one value match both pattern keys?"""
    if a == "_" or b == "_":
        return True
    if isinstance(a, tuple) and isinstance(b, tuple):
        return len(a) == len(b) and all(_keys_overlap(x, y) for x, y in zip(a, b))
    return a == b


class GuardList(list):
    """path condition; `not(c)` is stored as c with the opposite polarity so that `if !c {..}` and `if c {} else {..}` read alike"""

    def append(self, g):
        c, pol = g
        while isinstance(c, Poly):
            a = single_atom(c)
            if a is not None and atom_fn(a) == "not" and isinstance(atom_args(a)[0], Poly):
                c, pol = atom_args(a)[0], not pol
            elif a is not None and atom_fn(a) == "matches" and atom_args(a)[1] in ("True", "False") and isinstance(atom_args(a)[0], Poly):
                # match b { true => .., false => .. }: the arm conditions are b and !b
                c, pol = atom_args(a)[0], (pol if atom_args(a)[1] == "True" else not pol)
            else:
                break
        super().append((c, pol))


def quantifier(F, g, pol, argname="q", tracer=None):
    """a path condition any(iter, pred) / all(iter, pred) -> ('forall'|'exists', iterator description, canonical predicate
    value, predicate polarity): the condition says that for all / some q of the iterator, predicate(q) has that polarity."""
    from .symx import canon_cond
    c, pol = canon_cond(g, pol)
    a = single_atom(c) if isinstance(c, Poly) else None
    if a is None or atom_fn(a) not in ("std::iter::Iterator::any", "std::iter::Iterator::all"):
        return None
    args = atom_args(a)
    if len(args) != 2 or not (isinstance(args[0], tuple) and args[0]):
        return None
    if args[0][0] == "struct" and args[0][1] in ("Range", "RangeInclusive"):
        f = dict(args[0][2])
        src = ("iterdesc", ("range", f.get("start"), f.get("end"), args[0][1] == "RangeInclusive"))
    elif args[0][0] == "iterdesc":
        src = args[0]
    else:
        return None
    args = (src, args[1])
    clo = args[1]
    node = F.closures.get(clo[1]) if isinstance(clo, tuple) and clo and clo[0] == "closure" and isinstance(clo[1], str) else None
    if node is None:
        return None
    try:
        cenv = dict(getattr(tracer, "closure_envs", {}).get(clo[1], {})) if tracer is not None else {}
        sub = Tracer(F, "NONE", mode="int")
        pv = sub.apply(("closure", node, cenv), [var(argname)])
        if tracer is not None and hasattr(sub, "closure_envs"):
            if not hasattr(tracer, "closure_envs"):
                tracer.closure_envs = {}
            tracer.closure_envs.update(sub.closure_envs)
    except Unsupported:
        return None
    is_any = atom_fn(a).endswith("any")
    # any & true: exists pred ; any & false: forall !pred ; all & true: forall pred ; all & false: exists !pred
    quant = "exists" if (is_any == pol) else "forall"
    ppol = True if (is_any and pol) or (not is_any and pol) else False
    pc, ppol = canon_cond(pv, ppol)
    return quant, args[0][1], pc, ppol


def diverges(n):
    """the expression always leaves the enclosing block (return / break / continue / panic at its end)"""
    n = strip(n)
    k = n.get("k")
    if k in ("ret", "break", "continue"):
        return True
    if k == "block":
        last = n.get("e")
        if last is None and n.get("stmts"):
            st = n["stmts"][-1]
            last = st.get("e") if st.get("k") == "semi" else None
        return last is not None and diverges(last)
    if k == "if" and "e" in n:
        return diverges(n["t"]) and diverges(n["e"])
    if k == "try":
        return False
    from .symx import _panics
    return _panics(n)


class Tracer(SymEval):
    """SymEval that also walks loops / branches and records calls matching `interesting`.

    loops are recorded as ('range', varname, lo, hi, inclusive) or ('iter', pattern-names, desc).
    guards as (condition value, polarity).
    Any call that is neither interesting, inlinable nor pure-looking is recorded in `self.others`.
    """

    def __init__(self, F, interesting, **kw):
        super().__init__(F, **kw)
        self.rx = re.compile(interesting)
        self.events = []
        self.others = []
        self.loops = []
        self.guards = GuardList()
        self.assigned = {}
        self.carried_init = {}      # loop-carried local -> its value on loop entry
        self.assign_sites = []      # (local, value, loops, guards) of every assignment to a plain local
        self._after_stmt = []       # ((cond, polarity), guard depth) established by a `?` inside the statement being read
        # opt-in store tracking for fields of `self` (used by the transformer readings): a read after a store sees the stored value
        self.track_reads = False    # opt-in: every indexing expression leaves a `<read>` event (value, position in program order)
        self.track_fields = False
        self.field_store = {}       # access path -> (value, guards at the store, loops at the store)
        self.loop_fields = {}       # loop id -> {access path: value on loop entry} for fields stored to inside that loop
        self._lhs = 0
        self._fnlevel = set()           # ids of the body blocks of expanded helpers (function level: guard-clause returns compose into the value)
        self._accounted_returns = 0

    def inline_body(self, body, args):
        """expansion of a helper: a function-level `if c { return X }` makes the helper's value ite(c, X, rest); a `return` anywhere else
        in a helper that yields a value cannot be composed and makes that value unknown (never silently the fall-through value)"""
        blk = body.value
        self._fnlevel.add(id(blk))
        n0 = len([e for e in self.events if e.callee == "<return-inner>"])
        acc0 = self._accounted_returns
        v = super().inline_body(body, args)
        inner = len([e for e in self.events if e.callee == "<return-inner>"]) - n0
        if inner > self._accounted_returns - acc0 and v != ("tuple", []) and v != ("never",):
            return app("value_with_unread_returns", vkey(v) if not isinstance(v, Poly) else v, num(next_seq()))
        return v

    # -- tracked fields -------------------------------------------------------
    def e_field(self, n, env):
        v = super().e_field(n, env)
        if self.track_fields and not self._lhs:
            a = single_atom(v) if isinstance(v, Poly) else None
            if a is not None and a[0] == "v" and a[1] in self.field_store:
                return self._field_current(a[1])
        return v

    def _field_current(self, path):
        val, gs, ls = self.field_store[path]
        if list(self.guards[:len(gs)]) == gs and list(self.loops[:len(ls)]) == ls:
            return val          # the store dominates this read
        return var("%s@unknown" % path)

    def eval_lhs(self, n, env):
        self._lhs += 1
        try:
            return self.eval(n, env)
        finally:
            self._lhs -= 1

    def store_field(self, l, r, op):
        """record `l = r` / `l op= r` for a tracked field; -> the value the field holds afterwards (None when l is not a field path)"""
        if not self.track_fields:
            return None
        a = single_atom(l) if isinstance(l, Poly) else None
        if a is None or a[0] != "v" or "." not in a[1]:
            return None
        path = a[1]
        if op:
            cur = self._field_current(path) if path in self.field_store else l
            r = self.arith(op, cur, r)
        self.field_store[path] = (r, list(self.guards), list(self.loops))
        return r

    def _stored_fields(self, body, env):
        out = []
        if not self.track_fields:
            return out
        for a in walk(body):
            if a.get("k") in ("assign", "assignop") and plain_local(a["l"]) is None:
                try:
                    l = self.eval_lhs(a["l"], dict(env))
                except Unsupported:
                    continue
                la = single_atom(l) if isinstance(l, Poly) else None
                if la is not None and la[0] == "v" and "." in la[1] and la[1] not in out:
                    out.append(la[1])
        return out

    def _enter_loop_fields(self, lid, body, env):
        """fields stored to in a loop body are loop-carried: inside the loop they read as path@loop<id>"""
        fs = self._stored_fields(body, env)
        if fs:
            self.loop_fields[lid] = {p_: (self._field_current(p_) if p_ in self.field_store else var(p_)) for p_ in fs}
            for p_ in fs:
                self.field_store[p_] = (var("%s@loop%d" % (p_, lid)), list(self.guards), list(self.loops))
        return fs

    def _leave_loop_fields(self, lid, fs):
        for p_ in fs:
            self.field_store[p_] = (var("%s@after%d" % (p_, lid)), list(self.guards), list(self.loops))

    # -- iterator descriptions ----------------------------------------------
    def iter_desc(self, it, env):
        it = strip(it)
        if it.get("k") == "struct" and it.get("def") in ("std::ops::Range", "core::ops::Range"):
            f = {x["name"]: self.eval(x["e"], env) for x in it["fields"]}
            return ("range", f["start"], f["end"], False)
        if it.get("k") == "call" and (callee(it) or "").endswith("RangeInclusive::<Idx>::new"):
            a = [self.eval(x, env) for x in it["args"]]
            return ("range", a[0], a[1], True)
        if it.get("k") == "mcall":
            m = it["m"]
            d = it.get("def", "")
            if m in ("iter", "iter_mut", "into_iter") and not d.startswith("sparse::"):
                return ("elems", self.eval(it["recv"], env))
            if m == "enumerate":
                return ("enumerate", self.iter_desc(it["recv"], env))
            if m == "rev":
                return ("rev", self.iter_desc(it["recv"], env))
            if m in ("windows", "chunks_exact") and len(it.get("args", [])) == 1 and (it.get("def") or "").startswith("core::slice::"):
                return (m, self.eval(it["recv"], env), self.eval(it["args"][0], env))
            if m in ("copied", "cloned") and "Option" not in (it.get("def") or ""):
                return self.iter_desc(it["recv"], env)      # same elements by value
            if m in ("map", "filter", "filter_map", "zip", "skip", "step_by", "take", "flat_map", "take_while", "map_while", "skip_while"):
                inner = self.iter_desc(it["recv"], env)
                extra = [self.eval(a, env) for a in it["args"]]     # (closure literals go through e_closure, which remembers their environment)
                if m == "zip" and len(extra) == 1 and inner[0] == "elems" and isinstance(inner[1], tuple) and len(inner[1]) == 3 and \
                        inner[1][:2] == ("struct", "RangeFrom") and dict(inner[1][2]).get("start") == num(0):
                    # (0..).zip(xs) numbers the elements of xs from 0: xs.enumerate()
                    other = extra[0]
                    return ("enumerate", other[1] if isinstance(other, tuple) and other and other[0] == "iterdesc" else ("elems", other))
                return (m, inner) + tuple(extra)
        v = self.eval(it, env)
        if isinstance(v, tuple) and v and v[0] == "iterdesc":
            return v[1]
        return ("elems", v)

    def elem_value(self, desc, hint):
        kind = desc[0]
        if kind == "range":
            return var(hint)
        if kind == "elems":
            return app("elem", desc[1], var(hint))
        if kind == "enumerate":
            return ("tuple", [var(hint + "_idx"), self.elem_value(desc[1], hint)])
        if kind == "rev":
            return self.elem_value(desc[1], hint)
        if kind == "map":
            inner = self.elem_value(desc[1], hint)
            return self.apply(desc[2], [inner])
        if kind in ("filter", "skip", "step_by", "take", "take_while", "skip_while"):
            return self.elem_value(desc[1], hint)
        if kind in ("windows", "chunks_exact"):
            # a sub-slice of exactly desc[2] consecutive elements
            return app("window", desc[1], desc[2], var(hint))
        if kind == "zip":
            other = desc[2]
            return ("tuple", [self.elem_value(desc[1], hint), app("elem", other, var(hint + "_z"))])
        return app("elem_" + kind, *[vkey(x) for x in desc[1:]])

    # -- control flow --------------------------------------------------------
    def e_for(self, n, env):
        desc = self.iter_desc(n["iter"], env)
        # for x in outer.flat_map(|o| inner(o)) is the loop nest `for o in outer { for x in inner(o) }`
        extra = 0
        while desc[0] == "flat_map" and len(desc) == 3:
            oh = "fm%d" % len(self.loops)
            try:
                inner = self.apply(desc[2], [self.elem_value(desc[1], oh)])
            except Unsupported:
                break
            if not (isinstance(inner, tuple) and inner and inner[0] == "iterdesc"):
                break
            self.loops.append(("iter", oh, desc[1]))
            extra += 1
            desc = inner[1]
        try:
            return self._e_for(n, env, desc)
        finally:
            for _ in range(extra):
                self.loops.pop()

    def for_each_loop(self, desc, clo):
        node = clo[1]
        fake = {"k": "for", "pat": node["params"][0] if node.get("params") else {"k": "wild"}, "body": node["body"], "sp": node.get("sp")}
        extra = 0
        while desc[0] == "flat_map" and len(desc) == 3:
            oh = "fm%d" % len(self.loops)
            inner = self.apply(desc[2], [self.elem_value(desc[1], oh)])
            if not (isinstance(inner, tuple) and inner and inner[0] == "iterdesc"):
                break
            self.loops.append(("iter", oh, desc[1]))
            extra += 1
            desc = inner[1]
        try:
            return self._e_for(fake, dict(clo[2]), desc)
        finally:
            for _ in range(extra):
                self.loops.pop()

    def _e_for(self, n, env, desc):
        # for x in it.filter(p) { body } is: for x in it { if p(x) { body } }
        if desc[0] == "filter" and len(desc) == 3 and isinstance(desc[2], tuple) and desc[2] and desc[2][0] in ("closure", "fn"):
            names_ = [x["name"].split("#")[0] for x in walk(n["pat"]) if x.get("k") == "bind"]
            inner = desc[1]
            try:
                if inner[0] not in ("range", "map", "zip", "enumerate") and n["pat"].get("k") == "ptuple" and \
                        all(p.get("k") == "bind" and "sub" not in p for p in n["pat"]["ps"]):
                    elv = ("tuple", [var(p["name"].split("#")[0]) for p in n["pat"]["ps"]])
                else:
                    elv = self.elem_value(inner, names_[0] if names_ else "it")
                pv = self.apply(desc[2], [elv])
            except Unsupported:
                pv = None
            if isinstance(pv, Poly):
                self.guards.append((pv, True))
                try:
                    return self._e_for(n, env, inner)
                finally:
                    self.guards.pop()
        # a loop over a literal array (for (n, &k) in [a, b, c].iter().enumerate()) is the sequence of its bodies: unrolled, with
        # the index a constant, so that `if n == 0 {..} else {..}` selects its branch (constant propagation, as for inlined helpers)
        base, enum = desc, False
        if base[0] == "enumerate":
            base, enum = base[1], True
        if getattr(self, "unroll_literals", False) and base[0] == "elems" and isinstance(base[1], tuple) and base[1] and base[1][0] == "array" and len(base[1][1]) <= 64 \
                and not any(x.get("k") in ("break", "continue") for x in walk(n["body"])):
            for i, el in enumerate(base[1][1]):
                e2 = dict(env)
                self.bind(n["pat"], ("tuple", [num(i), el]) if enum else el, e2)
                self.eval(n["body"], e2)
                for a in walk(n["body"]):
                    if a.get("k") in ("assign", "assignop"):
                        nm = plain_local(a["l"])
                        if nm is not None and nm in e2 and nm in env:
                            env[nm] = e2[nm]
            return ("tuple", [])
        if getattr(self, "unroll_literals", False) and desc[0] == "range" and isinstance(desc[1], Poly) and isinstance(desc[2], Poly) and \
                desc[1].const_value() is not None and desc[2].const_value() is not None and \
                0 <= desc[2].const_value() - desc[1].const_value() <= 8 and not any(x.get("k") in ("break", "continue") for x in walk(n["body"])):
            # a loop over a small constant range (e.g. the permutations k1+1..=k2 of one protograph block): unrolled as well
            lo_, hi_ = int(desc[1].const_value()), int(desc[2].const_value()) + (1 if desc[3] else 0)
            for i in range(lo_, hi_):
                e2 = dict(env)
                self.bind(n["pat"], num(i), e2)
                self.eval(n["body"], e2)
            return ("tuple", [])
        names = [x["name"].split("#")[0] for x in walk(n["pat"]) if x.get("k") == "bind"]
        hint = names[0] if names else "it"
        e2 = dict(env)
        pat = n["pat"]
        if desc[0] == "enumerate" and pat.get("k") == "ptuple" and len(pat["ps"]) == 2:
            # name the index after the user's binding
            idx_names = [x["name"].split("#")[0] for x in walk(pat["ps"][0]) if x.get("k") == "bind"]
            el_names = [x["name"].split("#")[0] for x in walk(pat["ps"][1]) if x.get("k") == "bind"]
            iv = var(idx_names[0]) if idx_names else var("_idx")
            ev = self.elem_value(desc[1], el_names[0] if el_names else "_el")
            val = ("tuple", [iv, ev])
            loop = ("enumerate", idx_names[0] if idx_names else "_idx", desc[1], el_names[0] if el_names else "_el")
        elif desc[0] not in ("range", "map", "zip") and pat.get("k") == "ptuple" and \
                all(p.get("k") == "bind" and "sub" not in p for p in pat["ps"]):
            nm = [p["name"].split("#")[0] for p in pat["ps"]]
            val = ("tuple", [var(x) for x in nm])
            loop = ("iter", tuple(nm), desc)
        else:
            val = self.elem_value(desc, hint)
            d0 = desc
            while d0[0] == "rev":
                d0 = d0[1]
            loop = ("range", hint, d0[1], d0[2], d0[3]) if d0[0] == "range" else ("iter", hint, desc)
        self.bind(pat, val, e2)
        # variables assigned in the loop body are loop-carried: forget their values
        for a in walk(n["body"]):
            if a.get("k") in ("assign", "assignop"):
                nm = plain_local(a["l"])
                if nm is not None:
                    if nm in env:
                        self.carried_init[nm] = env[nm]
                    e2[nm] = var(nm.split("#")[0] + "@loop")
        lid = next_seq()
        fs = self._enter_loop_fields(lid, n["body"], e2)
        self.loops.append(loop)
        try:
            self.eval(n["body"], e2)
        finally:
            self.loops.pop()
            self._leave_loop_fields(lid, fs)
        # after the loop, loop-carried variables stay unknown
        for a in walk(n["body"]):
            if a.get("k") in ("assign", "assignop"):
                nm = plain_local(a["l"])
                if nm is not None and nm in env:
                    env[nm] = var(nm.split("#")[0] + "@after")
        return ("tuple", [])

    def _forget_assigned(self, body, env, tag):
        for a in walk(body):
            if a.get("k") in ("assign", "assignop"):
                nm = plain_local(a["l"])
                if nm is not None and nm in env:
                    env[nm] = var(nm.split("#")[0] + tag)

    def e_while(self, n, env):
        e2 = dict(env)
        self._forget_assigned(n["body"], e2, "@loop")
        lid = next_seq()
        fs = self._enter_loop_fields(lid, n["body"], e2)
        try:
            return self._e_while(n, env, e2, lid)
        finally:
            self._leave_loop_fields(lid, fs)

    def _e_while(self, n, env, e2, lid):
        # the condition is evaluated once per iteration: calls inside it (e.g. `while .. && let Ok(x) = rx.recv()`) belong to the loop
        self.loops.append(("while", None))
        try:
            c = self.eval(n["c"], e2)
        finally:
            self.loops.pop()
        for ev_ in self.events:
            for i_, l_ in enumerate(ev_.loops):
                if l_ == ("while", None):
                    ev_.loops[i_] = ("while", c, lid)
        for st_ in getattr(self, "sites", []):
            for i_, l_ in enumerate(st_["loops"]):
                if l_ == ("while", None):
                    st_["loops"][i_] = ("while", c, lid)
        self.loops.append(("while", c, lid))
        self.guards.append((c, True))
        try:
            self.eval(n["body"], e2)
        finally:
            self.guards.pop()
            self.loops.pop()
        self._forget_assigned(n["body"], env, "@after")
        return ("tuple", [])

    def e_if(self, n, env):
        # the condition of an `if let` is reported to the enclosing block (guard clause: `if let P = v { return .. }` rest)
        stack = self.__dict__.setdefault("_letx_stack", [])
        stack.append(None)
        try:
            return self._e_if(n, env)
        finally:
            self._letx_guard = stack.pop()

    def _e_if(self, n, env):
        cn = strip(n["c"])
        if cn.get("k") == "letx" and "e" not in n:
            n = dict(n, e={"k": "block", "stmts": [], "ty": "()"})
        if cn.get("k") == "letx" and "e" in n:
            # `if let Some(p) = o { A } else { B }` is `match o { Some(p) => A, None => B }`: one normal form for both spellings
            from .tables import pat_key
            key = pat_key(cn["pat"])
            is_some = isinstance(key, tuple) and len(key) == 2 and key[0] == "Some"
            is_none = key == "None"
            if is_some or is_none:
                v = self.eval(cn["e"], env)
                from .symx import const_key, key_matches
                ckv = const_key(v)
                if ckv is not None:
                    # a known Some(..) / None: the branch is decided
                    try:
                        hit = key_matches(key, ckv)
                    except Unsupported:
                        hit = None
                    if hit is True:
                        e2 = dict(env)
                        self.bind(cn["pat"], v, e2)
                        return self.eval(n["t"], e2)
                    if hit is False:
                        return self.eval(n["e"], dict(env))
                if isinstance(v, tuple) and len(v) == 3 and v[0] == "opt":
                    def ev_arm(body, e2, g):
                        self.guards.append(g)
                        try:
                            return self.eval(body, e2)
                        finally:
                            self.guards.pop()
                    r = self.opt_arms(v, [(cn["pat"], n["t"]), ({"k": "wild"}, n["e"])], env, ev_arm)
                    if r is not None:
                        return r
                if isinstance(v, Poly):
                    e2 = dict(env)
                    try:
                        self.bind(cn["pat"], v, e2)
                    except Unsupported:
                        pass
                    m = app("matches", v, repr(key))
                    self._letx_stack[-1] = m
                    self.guards.append((m, True))
                    try:
                        tv = self.eval(n["t"], e2)
                    finally:
                        self.guards.pop()
                    self.guards.append((m, False))
                    try:
                        fv = self.eval(n["e"], dict(env))
                    finally:
                        self.guards.pop()
                    some_v, none_v = (tv, fv) if is_some else (fv, tv)
                    some_k = repr(key) if is_some else repr(("Some", "_"))
                    return app("match", v, ((some_k, some_v), (repr("None"), none_v)))
        c = self.eval(n["c"], env)
        if cn.get("k") == "letx" and isinstance(c, Poly):
            self._letx_stack[-1] = c
        if isinstance(c, tuple) and c and c[0] == "bool":
            if c[1]:
                return self.eval(n["t"], env)
            return self.eval(n["e"], env) if "e" in n else ("tuple", [])
        self.guards.append((c, True))
        try:
            t = self.eval(n["t"], dict(env))
        finally:
            self.guards.pop()
        e = ("tuple", [])
        if "e" in n:
            self.guards.append((c, False))
            try:
                e = self.eval(n["e"], dict(env))
            finally:
                self.guards.pop()
        from .symx import mk_ite
        return mk_ite(c, t, e)

    def e_block(self, n, env):
        pushed = [0]
        try:
            return self._e_block_guarded(n, env, pushed)
        finally:
            for _ in range(pushed[0]):
                self.guards.pop()

    def _flush_after_stmt(self, pushed):
        """conditions established by `?` in the statement just read hold for the rest of the block (only when the `?` sat at
        this block's own guard depth: one inside a branch says nothing about the code after the branch)"""
        for g, depth in self._after_stmt:
            if depth == len(self.guards):
                self.guards.append(g)
                pushed[0] += 1
        del self._after_stmt[:]

    def _e_block_guarded(self, n, env, pushed):
        env = dict(env) if n.get("stmts") else env
        stmts_ = n.get("stmts", [])
        for si_, s in enumerate(stmts_):
            if s["k"] == "let":
                if "init" in s:
                    v = self.eval(s["init"], env)
                    self._flush_after_stmt(pushed)
                    if "els" in s:
                        # let PAT = v else { diverge }: the else block runs when PAT does not match; afterwards it matched
                        from .tables import pat_key
                        m = app("matches", v, repr(pat_key(s["pat"])))
                        self.guards.append((m, False))
                        try:
                            self.eval(s["els"], dict(env))
                        finally:
                            self.guards.pop()
                        self.guards.append((m, True))
                        pushed[0] += 1
                    self.bind(s["pat"], v, env)
                else:
                    for b in walk(s["pat"]):
                        if b.get("k") == "bind":
                            env[b["name"]] = var(b["name"].split("#")[0] + "@uninit")
            else:
                e = s["e"]
                if e.get("k") in ("assign", "assignop"):
                    nm = plain_local(e["l"])
                    r = self.eval(e["r"], env)
                    self._flush_after_stmt(pushed)
                    if nm is not None:
                        if e["k"] == "assignop":
                            r = self.arith(e["op"].replace("Assign", ""), self.eval(e["l"], env), r)
                        env[nm] = r
                        self.assigned[nm] = r
                        self.assign_sites.append((nm, r, list(self.loops), list(self.guards)))
                    else:
                        self.events.append(Event("<assign>", [self.eval(e["l"], env), r], self.loops, self.guards,
                                                 e.get("sp"), e))
                    continue
                from .symx import is_assert, _panics
                if is_assert(e):
                    self.asserts.append((e, list(self.loops), list(self.guards)))
                    continue
                if _panics(e):
                    self.events.append(Event("<panic>", [], self.loops, self.guards, e.get("sp"), e))
                    return ("panic",)
                # guard clause: `if c { ..; return/break/continue }` (or the mirror image with the else branch leaving):
                # the rest of the block runs under the opposite condition
                ee = strip(e)
                if ee.get("k") == "if" and ee["c"].get("k") != "letx":
                    t_div = diverges(ee["t"])
                    e_div = "e" in ee and diverges(ee["e"])
                    if t_div != e_div and (t_div or "e" in ee):
                        c = self.eval(ee["c"], env)
                        if not (isinstance(c, tuple) and c and c[0] == "bool"):
                            n_ev0 = len(self.events)
                            self.guards.append((c, True))
                            try:
                                self.eval(ee["t"], dict(env))
                            finally:
                                self.guards.pop()
                            if id(n) in self._fnlevel and t_div and "e" not in ee and SymEval._guard_return(ee) is not None:
                                # function-level guard clause of an expanded helper: its value is  if c { X } else { rest of the body }
                                rets_ = [e_ for e_ in self.events[n_ev0:] if e_.callee in ("<return>", "<return-inner>")]
                                if len(rets_) == 1:
                                    self._accounted_returns += 1
                                    self.guards.append((c, False))
                                    pushed[0] += 1
                                    rest_ = {"k": "block", "stmts": stmts_[si_ + 1:], "ty": n.get("ty")}
                                    if n.get("e") is not None:
                                        rest_["e"] = n["e"]
                                    self._fnlevel.add(id(rest_))
                                    sub = [0]
                                    try:
                                        rv_ = self._e_block_guarded(rest_, env, sub)
                                    finally:
                                        for _ in range(sub[0]):
                                            self.guards.pop()
                                    from .symx import mk_ite
                                    return mk_ite(c, rets_[0].args[0], rv_)
                            if "e" in ee:
                                self.guards.append((c, False))
                                try:
                                    self.eval(ee["e"], dict(env))
                                finally:
                                    self.guards.pop()
                            self.guards.append((c, not t_div))
                            pushed[0] += 1
                            continue
                if ee.get("k") == "if" and strip(ee["c"]).get("k") == "letx" and "e" not in ee and diverges(ee["t"]):
                    # `if let P = v { ..; return/break/continue }`: the rest of the block runs when P did not match
                    self._letx_guard = None
                    self.eval(e, env)
                    self._flush_after_stmt(pushed)
                    if isinstance(self._letx_guard, Poly):
                        self.guards.append((self._letx_guard, False))
                        pushed[0] += 1
                    continue
                self.eval(e, env)
                self._flush_after_stmt(pushed)
        if n.get("e") is not None:
            return self.eval(n["e"], env)
        return ("tuple", [])

    def e_call(self, n, env):
        f = n["f"]
        if not (f.get("k") == "path" and f.get("res") == "def"):
            # call of a local function value (closure parameter, hook closure literal): record it
            fv = self.eval(f, env)
            args = [self.eval(a, env) for a in n["args"]]
            self.events.append(Event("<apply>", [fv] + args, self.loops, self.guards, n.get("sp"), n, dict(env)))
            return self.apply(fv, args)
        return super().e_call(n, env)

    def e_match(self, n, env):
        from .symx import const_key
        from .tables import pat_key
        s = self.eval(n["e"], env)
        if isinstance(s, tuple) and len(s) == 3 and s[0] == "opt" and not any("guard" in a for a in n["arms"]):
            def ev_arm(body, e2, g):
                self.guards.append(g)
                try:
                    return self.eval(body, e2)
                finally:
                    self.guards.pop()
            r = self.opt_arms(s, [(a["pat"], a["body"]) for a in n["arms"]], env, ev_arm)
            if r is not None:
                return r
        if const_key(s) is not None:
            return super().e_match(n, env)
        arms = []
        earlier = []
        for a in n["arms"]:
            e2 = dict(env)
            try:
                self.bind(a["pat"], s, e2)
            except Unsupported:
                pass
            key_ = pat_key(a["pat"])
            npush = 1
            if key_ == "_" and earlier and "guard" not in a and len(earlier) <= 3 and isinstance(s, Poly) and \
                    not any(isinstance(k_, tuple) and k_ and k_[0] == "?guarded" for k_ in earlier):
                # a catch-all arm is reached exactly when none of the earlier (unguarded) arms matched
                for k_ in earlier:
                    self.guards.append((app("matches", s, repr(k_)), False))
                npush = len(earlier)
            else:
                # arms are tried in order: this arm is reached only when no earlier unguarded arm that overlaps it matched
                over = [k_ for k_ in earlier if not (isinstance(k_, tuple) and k_ and k_[0] == "?guarded") and k_ != key_ and _keys_overlap(k_, key_)] \
                    if isinstance(s, Poly) else []
                for k_ in over:
                    self.guards.append((app("matches", s, repr(k_)), False))
                self.guards.append((app("matches", s, repr(key_)), True))
                npush = len(over) + 1
            if "guard" not in a:
                earlier.append(key_)
            else:
                earlier.append(("?guarded", repr(key_)))
            try:
                if "guard" in a:
                    g = self.eval(a["guard"], e2)
                    self.guards.append((g, True))
                    try:
                        v = self.eval(a["body"], e2)
                    finally:
                        self.guards.pop()
                else:
                    v = self.eval(a["body"], e2)
            finally:
                for _ in range(npush):
                    self.guards.pop()
            arms.append((repr(pat_key(a["pat"])), v))
        from .symx import build_match
        return build_match(s, arms, guarded=any("guard" in a for a in n["arms"]))

    def option_call(self, path, args):
        if path and path.startswith("std::option::Option::<") and len(args) == 2 and isinstance(args[0], Poly) and \
                path.rsplit("::", 1)[-1] in ("is_some_and", "is_none_or") and isinstance(args[1], tuple) and args[1] and args[1][0] in ("closure", "fn"):
            # o.is_some_and(f) = o is Some && f(payload); the closure body runs only when o is Some
            m = app("matches", args[0], self.SOME_KEY)
            self.guards.append((m, True))
            try:
                v = self.apply(args[1], [app("payload0", args[0])])
            finally:
                self.guards.pop()
            if path.endswith("is_some_and"):
                return self.arith("And", m, v)
            return self.arith("Or", app("not", m), v)
        if path and path.startswith("std::option::Option::<") and len(args) == 2 and path.rsplit("::", 1)[-1] in ("map", "and_then", "filter", "inspect") \
                and isinstance(args[1], tuple) and args[1] and args[1][0] in ("closure", "fn"):
            # the closure of o.map(f) runs only when o is Some: its effects carry that path condition
            o = args[0]
            src = o[1] if isinstance(o, tuple) and len(o) == 3 and o[0] == "opt" else o
            if isinstance(src, Poly):
                self.guards.append((app("matches", src, self.SOME_KEY), True))
                try:
                    return super().option_call(path, args)
                finally:
                    self.guards.pop()
        return super().option_call(path, args)

    def e_try(self, n, env):
        v = super().e_try(n, env)
        a = single_atom(v) if isinstance(v, Poly) else None
        if a is not None and atom_fn(a) == "try":
            # (if c { Ok(x) } else { Err(e) })? : leaves with Err(e) when !c, continues with x under c.  The condition holds for
            # the statements that follow in the same block (applied by the block once this statement is done).
            inner = atom_args(a)[0]
            ia = single_atom(inner) if isinstance(inner, Poly) else None
            if ia is not None and atom_fn(ia) == "ite":
                c, t_, e_ = atom_args(ia)
                t_, e_ = unkey(t_), unkey(e_)
                good = lambda x: isinstance(x, tuple) and len(x) == 3 and x[0] == "ctor" and x[1] in ("Ok", "Some") and len(x[2]) == 1
                bad = lambda x: (isinstance(x, tuple) and len(x) == 3 and x[0] == "ctor" and x[1] == "Err") or x == ("variant", "None")
                for pol, g_, b_ in ((True, t_, e_), (False, e_, t_)):
                    if isinstance(c, Poly) and good(g_) and bad(b_):
                        self.events.append(Event("<return>" if self.depth == 0 else "<return-inner>", [b_], self.loops,
                                                 list(self.guards) + [(c, not pol)], n.get("sp"), n))
                        self._after_stmt.append(((c, pol), len(self.guards)))
                        return g_[2][0]
            if ia is not None and atom_fn(ia) == "match" and len(ia) == 4 and isinstance(ia[3], tuple) and len(ia[3]) == 2:
                # (match o { Some(v) => Ok(f(v)), None => Err(e) })?  -- e.g. o.ok_or(e)? on an opaque option
                o = atom_args(ia)[0]
                arms = [(k, unkey(x)) for k, x in ia[3]]
                good = [(k, x) for k, x in arms if isinstance(x, tuple) and len(x) == 3 and x[0] == "ctor" and x[1] in ("Ok", "Some") and len(x[2]) == 1]
                bad = [(k, x) for k, x in arms if (isinstance(x, tuple) and len(x) == 3 and x[0] == "ctor" and x[1] == "Err") or x == ("variant", "None")]
                if isinstance(o, Poly) and len(good) == 1 and len(bad) == 1:
                    m = app("matches", o, good[0][0])
                    self.events.append(Event("<return>" if self.depth == 0 else "<return-inner>", [bad[0][1]], self.loops,
                                             list(self.guards) + [(m, False)], n.get("sp"), n))
                    self._after_stmt.append(((m, True), len(self.guards)))
                    return good[0][1][2][0]
        # `?` is a possible early exit: recorded so that rules can ask what may be skipped by it
        self.events.append(Event("<try>", [v], self.loops, self.guards, n.get("sp"), n))
        return v

    def e_ret(self, n, env):
        v = self.eval(n["e"], env) if "e" in n else ("tuple", [])
        # a `return` inside an expanded helper leaves the helper, not the function being read
        self.events.append(Event("<return>" if self.depth == 0 else "<return-inner>", [v], self.loops, self.guards, n.get("sp"), n))
        return ("never",)

    def e_break(self, n, env):
        self.events.append(Event("<break>", [], self.loops, self.guards, n.get("sp"), n))
        return ("never",)

    def e_continue(self, n, env):
        self.events.append(Event("<continue>", [], self.loops, self.guards, n.get("sp"), n))
        return ("never",)

    def e_index(self, n, env):
        v = super().e_index(n, env)
        if self.track_reads and not self._lhs:
            self.events.append(Event("<read>", [v], self.loops, self.guards, n.get("sp"), n))
        return v

    def e_assign(self, n, env):
        r = self.eval(n["r"], env)
        nm = plain_local(n["l"])
        if nm is not None:
            # an assignment to a plain local in expression position (a match arm `Err(e) => failure = Some(e)`)
            if n.get("k") == "assignop":
                r = self.arith(n["op"].replace("Assign", ""), self.eval(n["l"], env), r)
            env[nm] = r
            self.assigned[nm] = r
            self.assign_sites.append((nm, r, list(self.loops), list(self.guards)))
            return ("tuple", [])
        # a `?` inside the assigned value: the store happens only on the continuing path
        gs = list(self.guards) + [g for g, d in self._after_stmt if d == len(self.guards)]
        l = self.eval_lhs(n["l"], env)
        new = self.store_field(l, r, n["op"].replace("Assign", "") if n.get("k") == "assignop" else "")
        self.events.append(Event("<assign>", [l, r] + ([new] if new is not None else []), self.loops, gs, n.get("sp"), n))
        return ("tuple", [])

    e_assignop = e_assign

    def _leading_exit(self, n):
        """`loop { if c { break v } rest }` with no other break of this loop -> (c, break node, rest block), else None"""
        body = n["body"]
        stmts = body.get("stmts", [])
        if not stmts or stmts[0].get("k") == "let":
            return None
        first = strip(stmts[0]["e"])
        if first.get("k") != "if" or "e" in first or strip(first["c"]).get("k") == "letx":
            return None
        tb = strip(first["t"])
        inner = [strip(x["e"]) for x in tb.get("stmts", []) if x.get("k") != "let"] + ([strip(tb["e"])] if tb.get("e") is not None else [])
        if tb.get("k") != "block" or len(inner) != 1 or len(tb.get("stmts", [])) + (1 if tb.get("e") is not None else 0) != 1:
            return None
        br = inner[0]
        if br.get("k") != "break" or br.get("target") != n.get("id"):
            return None
        rest = {"k": "block", "stmts": stmts[1:], "ty": "()"}
        if body.get("e") is not None:
            rest["e"] = body["e"]
        if any(x.get("k") == "break" and x.get("target") == n.get("id") for x in walk(rest)):
            return None
        return first["c"], br, rest

    def e_loop(self, n, env):
        le = self._leading_exit(n)
        if le is not None:
            # loop { if c { break v } rest }  is  while !c { rest }; v
            c, br, rest = le
            self.e_while({"k": "while", "c": {"k": "un", "op": "Not", "e": c, "ty": "bool", "sp": c.get("sp")}, "body": rest, "sp": n.get("sp")}, env)
            return self.eval(br["e"], env) if br.get("e") is not None else ("tuple", [])
        e2 = dict(env)
        self._forget_assigned(n["body"], e2, "@loop")
        lid = next_seq()
        fs = self._enter_loop_fields(lid, n["body"], e2)
        self.loops.append(("loop",))
        try:
            self.eval(n["body"], e2)
        finally:
            self.loops.pop()
            self._leave_loop_fields(lid, fs)
        self._forget_assigned(n["body"], env, "@after")
        return ("tuple", [])

    def e_letx(self, n, env):
        v = self.eval(n["e"], env)
        try:
            self.bind(n["pat"], v, env)
        except Unsupported:
            pass
        from .tables import pat_key
        return app("matches", v, repr(pat_key(n["pat"])))

    ITER_METHODS = ("iter", "iter_mut", "into_iter", "map", "filter", "filter_map", "enumerate", "rev", "zip",
                    "skip", "step_by", "take", "flat_map", "copied", "cloned", "take_while", "map_while", "skip_while", "windows", "chunks_exact")

    def e_mcall(self, n, env):
        if n["m"] == "next" and not n["args"] and (n.get("def") or "").endswith("Iterator::next"):
            # it.next() on a local iterator consumes one element: the local now denotes the rest of the sequence
            nm = plain_local(n["recv"])
            cur = env.get(nm) if nm is not None else None
            if isinstance(cur, tuple) and cur and cur[0] == "iterdesc":
                d = cur[1]
                if d[0] == "skip" and isinstance(d[2], Poly):
                    env[nm] = ("iterdesc", ("skip", d[1], d[2] + num(1)))
                else:
                    env[nm] = ("iterdesc", ("skip", d, num(1)))
                return app("std::iter::Iterator::next", cur)
        if n["m"] in self.ITER_METHODS and not (n.get("def") or "").startswith(("sparse::", "codes::")) and \
                ("Iter" in n.get("ty", "") or "iter::" in n.get("ty", "") or "slice::Windows" in n.get("ty", "") or "slice::Chunks" in n.get("ty", "")):
            d = ("iterdesc", self.iter_desc(n, env))
            if n["m"] == "iter_mut":
                self.mutated(n["recv"], env)
            if n["m"] in ("windows", "chunks_exact") and hasattr(self, "site") and d[1][0] == n["m"]:
                self.site("call", n, n.get("def") or n["m"], [d[1][1], d[1][2]])      # panics on a zero size: audited like any call
            return d
        return super().e_mcall(n, env)

    def call_fn(self, path, inst, args, n, env):
        if path in ("std::iter::Iterator::for_each", "core::iter::Iterator::for_each") and len(args) == 2 and \
                isinstance(args[0], tuple) and args[0] and args[0][0] == "iterdesc" and isinstance(args[1], tuple) and args[1] and args[1][0] == "closure":
            # it.for_each(|x| body) is `for x in it { body }`
            self.for_each_loop(args[0][1], args[1])
            return ("tuple", [])
        if path and self.rx.fullmatch(path):
            self.events.append(Event(path, args, self.loops, self.guards, n.get("sp") if n else None, n, dict(env) if env else None))
            return app(path, *args)
        if path == "core::bool::<impl bool>::then" and len(args) == 2 and isinstance(args[1], tuple) and args[1] and args[1][0] == "closure" \
                and isinstance(args[0], Poly):
            # c.then(|| body): the body runs under the condition c
            self.guards.append((args[0], True))
            try:
                v = self.apply(args[1], [])
            finally:
                self.guards.pop()
            return ("opt", app("bool_to_option", args[0]), v)
        return super().call_fn(path, inst, args, n, env)
