"""Shared helpers for the decoder rules (C01, C03, C10): traced call sites of the generic schedule bodies."""
from .extract import AnalysisError
from .facts import walk, strip, callee, access_path
from .symx import Unsupported, var
from .panics import SiteTracer

NOINL = r"decoder::.*|sparse::SparseMatrix::.*"
FL = "decoder::flooding::Decoder::<A>::"
HL = "decoder::horizontal_layered::Decoder::<A>::"
ARI = "decoder::arithmetic::DecoderArithmetic::"


def phase_methods(F, prefix):
    """the state-changing steps of a schedule: methods of its Decoder that take `&mut self` (decode itself excluded).
    Read-only private helpers (`&self`) are expanded at their call sites instead."""
    out = []
    for p, b in F.bodies.items():
        if p.startswith(prefix) and p != prefix + "decode" and "{closure" not in p and b.d.get("def_kind") == "AssocFn":
            ins = b.d.get("sig_inputs") or []
            if ins and ins[0].replace(" ", "").startswith("&mut") and "Decoder" in ins[0]:
                out.append(p)
    # a method that only sequences other steps (e.g. `iterate` = check pass; variable pass; syndrome test) is not a step itself:
    # it is expanded at its call site
    def calls_steps(path):
        b = F.bodies[path]
        return any((callee(n) or "") in out and (callee(n) or "") != path for n in walk(b.value) if n.get("k") in ("call", "mcall")) if b.hir else False
    out = [p for p in out if not calls_steps(p)]
    return sorted(out)


def phase_roles(F, prefix):
    """{method path: 'init' | 'check' | 'variable' | 'other'}: the step that takes the channel LLRs is the initialisation; the others
    are classified by the message type of the store they write (a store of variable->check messages: variable pass; else a store of
    check->variable messages: check pass). Names of the methods play no role."""
    adt = F.adts.get(prefix.split("::<")[0])
    ftypes = {}
    if adt:
        for v in adt.get("variants", []):
            for f in v.get("fields", []):
                ftypes[f["name"]] = f.get("ty", "")
    roles = {}
    for p in phase_methods(F, prefix):
        b = F.bodies[p]
        if len(b.d.get("sig_inputs") or []) > 1:
            roles[p] = "init"
            continue
        w = [f for f, d in self_field_uses(b).items() if "w" in d]
        tys = [ftypes.get(f, "") for f in w]
        if any("VarMessage" in t for t in tys):
            roles[p] = "variable"
        elif any("CheckMessage" in t for t in tys):
            roles[p] = "check"
        else:
            roles[p] = "other"
    return roles


def decode_contracts(F, prefix):
    import re
    return r"decoder::check_llrs|decoder::hard_decisions|decoder::arithmetic::.*|sparse::SparseMatrix::.*|" + \
        "|".join(re.escape(p) for p in phase_methods(F, prefix))


def trace_fn(F, path, names, contracts=NOINL):
    b = F.body(path)
    t = SiteTracer(F, contracts=contracts, no_inline=contracts)
    env = {}
    for p, nm in zip(b.params, names):
        t.bind(p, var(nm), env)
    t.fn_stack.append(b.path)
    try:
        ret = t.eval(b.value, env)
    except Unsupported as e:
        raise AnalysisError("%s: unreadable shape: %s" % (path, e))
    calls = [s for s in t.sites if s["kind"] == "contract" and not in_closure(s)]
    return b, t, ret, calls


def in_closure(s):
    """site found while exploring a closure handed to another function (not on the caller's own path)"""
    return any(l[0] == "closure" for l in s["loops"])


def self_field_uses(body):
    """{field: set('r','w')} for accesses rooted at `self` in a method body (closures included).

    A use is a write when the place is assigned, mutably borrowed (explicitly, by auto-ref of a &mut self
    method, or through iter_mut); everything else is a read. Only the first field after `self` is reported."""
    uses = {}

    def note(f, kind, n):
        uses.setdefault(f, {}).setdefault(kind, []).append(n.get("sp"))

    def root_field(n):
        ap = access_path(n)
        if ap and ap[0].split("#")[0] == "self" and len(ap) >= 2:
            return ap[1]
        return None
    seen_w = set()
    for n in walk(body.value):
        k = n.get("k")
        if k in ("assign", "assignop"):
            f = root_field(n["l"])
            if f:
                note(f, "w", n)
                seen_w.add(id(strip_to_field(n["l"])))
        if k == "ref" and n.get("mut"):
            f = root_field(n["e"])
            if f:
                note(f, "w", n)
                seen_w.add(id(strip_to_field(n["e"])))
        if k == "mcall":
            f = root_field(n["recv"])
            if f and (n["m"] in ("iter_mut",) or n.get("recv_adj", "").startswith("&mut")):
                note(f, "w", n)
                seen_w.add(id(strip_to_field(n["recv"])))
    for n in walk(body.value):
        if n.get("k") == "field":
            e = strip(n["e"])
            if e.get("k") == "path" and e.get("res") == "local" and e["name"].split("#")[0] == "self":
                if id(n) not in seen_w:
                    note(n["f"], "r", n)
    return uses


def strip_to_field(n):
    """innermost `self.f` field node of a place expression"""
    cur = n
    last = None
    while True:
        cur = strip(cur)
        if cur.get("k") == "field":
            e = strip(cur["e"])
            if e.get("k") == "path" and e.get("res") == "local" and e["name"].split("#")[0] == "self":
                return cur
            cur = cur["e"]
        elif cur.get("k") == "index":
            cur = cur["e"]
        elif cur.get("k") == "mcall":
            cur = cur["recv"]
        else:
            return cur


def flatten_positional(desc):
    """a zip/enumerate tree of iterator descriptions -> (list of leaf descriptions, whether an enumerate is present).
    zip(enumerate(A), B), enumerate(zip(A, B)), A.zip(B.zip(C)) ... all visit the same positions of the same sequences."""
    leaves, enum = [], False
    stack = [desc]
    while stack:
        d = stack.pop()
        if isinstance(d, tuple) and d and d[0] == "iterdesc":
            stack.append(d[1])
        elif isinstance(d, tuple) and d and d[0] == "enumerate":
            enum = True
            stack.append(d[1])
        elif isinstance(d, tuple) and d and d[0] == "zip" and len(d) == 3:
            stack.append(d[1])
            stack.append(d[2])
        elif isinstance(d, tuple) and d and d[0] == "elems" and isinstance(d[1], tuple) and len(d[1]) == 2 and d[1][0] == "P":
            leaves.append(("elems", d[1][1]))
        elif isinstance(d, tuple) and d and d[0] == "elems" and not hasattr(d[1], "t") and not isinstance(d[1], tuple):
            leaves.append(d)
        elif hasattr(d, "t"):
            leaves.append(("elems", d))     # a slice / collection used directly as the zipped iterator
        else:
            leaves.append(d)
    return leaves, enum


def loop_positional(loop):
    """(index variable names that may denote the position, leaves, enumerated) of a traced loop entry"""
    if loop[0] == "enumerate":
        leaves, _ = flatten_positional(loop[2])
        return {loop[1]}, leaves, True
    if loop[0] == "iter":
        leaves, enum = flatten_positional(loop[2])
        h = loop[1] if isinstance(loop[1], str) else None
        names = {h + "_idx"} if h else set()
        if isinstance(loop[1], tuple):
            names |= set(loop[1])
        return names, leaves, enum
    return set(), [], False
