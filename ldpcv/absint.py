"""A8: interval abstract interpreter over typed HIR (machine integers, floats with a NaN flag, Option payloads,
tuples, message structs, slices with a length bound, closures).

Sound over-approximation: every concrete value an expression can take lies in the abstract value computed for it.
Obligations are generated for every construct that can overflow, wrap, panic or break a stated range invariant:
integer + - * neg abs, narrowing `as` casts, explicit asserts, and *stores* into fields with a type-field invariant
(message values and quantised LLRs in [-127, 127]). Loads from such fields assume the invariant (assume-guarantee).
No repository code is executed; std functions enter through the small model table in `call_model`.
"""
import math

from .extract import AnalysisError
from .facts import callee, strip, walk, plain_local
from .symx import is_assert, _panics, STD_NUM_RX

INT_RANGE = {"i8": (-128, 127), "i16": (-32768, 32767), "i32": (-2 ** 31, 2 ** 31 - 1), "i64": (-2 ** 63, 2 ** 63 - 1),
             "u8": (0, 255), "u16": (0, 65535), "u32": (0, 2 ** 32 - 1), "u64": (0, 2 ** 64 - 1), "usize": (0, 2 ** 64 - 1),
             "isize": (-2 ** 63, 2 ** 63 - 1)}
INF = float("inf")


class Unsupported(Exception):
    pass


class AInt:
    def __init__(self, lo, hi, ty):
        self.lo, self.hi, self.ty = lo, hi, ty

    def __repr__(self):
        return "%s[%s,%s]" % (self.ty, self.lo, self.hi)


class AFloat:
    def __init__(self, lo, hi, nan=False, ty="f64"):
        self.lo, self.hi, self.nan, self.ty = lo, hi, nan, ty

    def __repr__(self):
        return "%s[%s,%s%s]" % (self.ty, self.lo, self.hi, "|NaN" if self.nan else "")


class ABool:
    def __init__(self, t=True, f=True):
        self.t, self.f = t, f

    def __repr__(self):
        return "bool{%s%s}" % ("T" if self.t else "", "F" if self.f else "")


class AOpt:
    def __init__(self, none, some):
        self.none, self.some = none, some   # some: abstract payload or None when never Some

    def __repr__(self):
        return "Option{%s%s}" % ("None|" if self.none else "", "Some(%r)" % (self.some,) if self.some is not None else "")


class AStruct:
    def __init__(self, name, fields):
        self.name, self.fields = name, fields

    def __repr__(self):
        return "%s%r" % (self.name, self.fields)


class ATuple:
    def __init__(self, items):
        self.items = list(items)

    def __repr__(self):
        return "(%s)" % ", ".join(repr(x) for x in self.items)


class ASlice:
    """slice / Vec / iterator source with element abstraction and a length bound"""
    def __init__(self, elem, maxlen, minlen=0, name=None):
        self.elem, self.maxlen, self.minlen, self.name = elem, maxlen, minlen, name

    def __repr__(self):
        return "[%r; %s..%s]" % (self.elem, self.minlen, self.maxlen)


class AIter:
    """iterator: element abstraction, max count, and whether it is known non-empty"""
    def __init__(self, elem, maxlen, minlen=0):
        self.elem, self.maxlen, self.minlen = elem, maxlen, minlen

    def __repr__(self):
        return "iter<%r; %s..%s>" % (self.elem, self.minlen, self.maxlen)


class AClosure:
    def __init__(self, node, env):
        self.node, self.env = node, env


class AFn:
    def __init__(self, path):
        self.path = path


class ATop:
    def __init__(self, ty=""):
        self.ty = ty

    def __repr__(self):
        return "top<%s>" % self.ty


UNIT = ATuple([])


def top_of(ty):
    ty = ty.lstrip("&").replace("mut ", "").strip()
    if ty in INT_RANGE:
        return AInt(INT_RANGE[ty][0], INT_RANGE[ty][1], ty)
    if ty in ("f64", "f32"):
        return AFloat(-INF, INF, True, ty)
    if ty == "bool":
        return ABool()
    return ATop(ty)


def join(a, b):
    if a is None:
        return b
    if b is None:
        return a
    if isinstance(a, AInt) and isinstance(b, AInt):
        return AInt(min(a.lo, b.lo), max(a.hi, b.hi), a.ty)
    if isinstance(a, AFloat) and isinstance(b, AFloat):
        return AFloat(min(a.lo, b.lo), max(a.hi, b.hi), a.nan or b.nan, a.ty)
    if isinstance(a, ABool) and isinstance(b, ABool):
        return ABool(a.t or b.t, a.f or b.f)
    if isinstance(a, AOpt) and isinstance(b, AOpt):
        return AOpt(a.none or b.none, join(a.some, b.some))
    if isinstance(a, ATuple) and isinstance(b, ATuple) and len(a.items) == len(b.items):
        return ATuple([join(x, y) for x, y in zip(a.items, b.items)])
    if isinstance(a, AStruct) and isinstance(b, AStruct) and a.name == b.name:
        return AStruct(a.name, {k: join(a.fields.get(k), b.fields.get(k)) for k in set(a.fields) | set(b.fields)})
    if isinstance(a, ASlice) and isinstance(b, ASlice):
        ml = None if (a.maxlen is None or b.maxlen is None) else max(a.maxlen, b.maxlen)
        return ASlice(join(a.elem, b.elem), ml, min(a.minlen, b.minlen), a.name)
    if type(a) is type(b) and isinstance(a, (AClosure, AFn)):
        return a
    return ATop(getattr(a, "ty", ""))


def same(a, b):
    return repr(a) == repr(b)


class Obligation:
    def __init__(self, kind, ok, site, detail, fn):
        self.kind, self.ok, self.site, self.detail, self.fn = kind, ok, site, detail, fn


class IntervalEval:
    def __init__(self, F, inline=None, field_inv=None, max_inline=6):
        self.F = F
        self.inline = inline or (lambda p: None)
        self.field_inv = field_inv or {}       # (struct short name, field) -> abstract value assumed on load / required on store
        self.obls = []
        self.fn_stack = []
        self.depth = 0
        self.max_inline = max_inline
        self.unknown = []                      # constructs the model does not know (make the analysis inconclusive)
        self.self_val = None

    # -- obligations --------------------------------------------------------------
    def oblige(self, kind, ok, n, detail):
        self.obls.append(Obligation(kind, bool(ok), n.get("sp") if isinstance(n, dict) else None, detail,
                                    self.fn_stack[-1] if self.fn_stack else None))
        return ok

    def in_range(self, lo, hi, ty):
        r = INT_RANGE[ty]
        return r[0] <= lo and hi <= r[1]

    def mkint(self, lo, hi, ty, n, what):
        """result of an integer operation: obligation that it fits the type; clamps for continued analysis"""
        r = INT_RANGE[ty]
        self.oblige("overflow:" + what, r[0] <= lo and hi <= r[1], n, "%s result in [%s, %s] must fit %s" % (what, lo, hi, ty))
        return AInt(max(lo, r[0]), min(hi, r[1]), ty)

    # -- patterns ---------------------------------------------------------------------
    def bind(self, pat, val, env):
        k = pat.get("k")
        if k == "bind":
            env[pat["name"]] = val
            if "sub" in pat:
                self.bind(pat["sub"], val, env)
        elif k == "wild":
            pass
        elif k in ("pref", "pderef"):
            self.bind(pat["p"], val, env)
        elif k == "ptuple":
            items = val.items if isinstance(val, ATuple) and len(val.items) == len(pat["ps"]) else [ATop(p.get("ty", "")) if not p.get("ty") else top_of(p["ty"]) for p in pat["ps"]]
            for p, v in zip(pat["ps"], items):
                self.bind(p, v, env)
        elif k in ("ptstruct", "pstruct"):
            subs = pat.get("ps") or [f["pat"] for f in pat.get("fields", [])]
            if isinstance(val, AOpt) and pat.get("def", "").endswith("Some") and len(subs) == 1:
                self.bind(subs[0], val.some if val.some is not None else top_of(subs[0].get("ty", "")), env)
            else:
                for p in subs:
                    self.bind(p, top_of(p.get("ty", "")), env)
        else:
            raise Unsupported("pattern %s" % k)

    # -- expressions ------------------------------------------------------------------
    def eval(self, n, env):
        m = getattr(self, "e_" + n.get("k"), None)
        if m is None:
            raise Unsupported("expression kind %s at %s" % (n.get("k"), n.get("sp")))
        return m(n, env)

    def e_lit(self, n, env):
        lt = n["lt"]
        ty = n.get("ty", "")
        if lt == "int":
            return AInt(n["v"], n["v"], ty if ty in INT_RANGE else "i64")
        if lt == "float":
            v = float(n["v"].replace("_", ""))
            return AFloat(v, v, False, ty if ty in ("f32", "f64") else "f64")
        if lt == "bool":
            return ABool(n["v"], not n["v"])
        return ATop(ty)

    def e_path(self, n, env):
        if n.get("res") == "local":
            if n["name"] in env:
                return env[n["name"]]
            return top_of(n.get("ty", ""))
        if n.get("res") == "def":
            dk = n.get("dk", "")
            d = n["def"]
            if d.endswith("prelude::v1::None"):
                return AOpt(True, None)
            if dk.startswith("AssocConst") or dk.startswith("Const"):
                b = self.F.bodies.get(d)
                if b is not None and b.hir:
                    return self.eval(b.value, {})
                return top_of(n.get("ty", ""))
            if dk in ("Fn", "AssocFn"):
                return AFn(n.get("inst") or d)
            return ATop(n.get("ty", ""))
        return ATop(n.get("ty", ""))

    def e_ref(self, n, env):
        return self.eval(n["e"], env)

    def e_tup(self, n, env):
        return ATuple([self.eval(x, env) for x in n["es"]])

    def e_closure(self, n, env):
        return AClosure(n, env)

    def e_struct(self, n, env):
        name = (n.get("def") or "?").rsplit("::", 1)[-1]
        fields = {}
        for f in n["fields"]:
            v = self.eval(f["e"], env)
            inv = self.field_inv.get((name, f["name"]))
            if inv is not None and isinstance(v, AInt):
                self.oblige("store:%s.%s" % (name, f["name"]), inv.lo <= v.lo and v.hi <= inv.hi, f["e"],
                            "%s.%s = %r must lie in [%s, %s]" % (name, f["name"], v, inv.lo, inv.hi))
            fields[f["name"]] = v
        return AStruct(name, fields)

    def e_field(self, n, env):
        base = self.eval(n["e"], env)
        if isinstance(base, AStruct) and n["f"] in base.fields:
            return base.fields[n["f"]]
        if isinstance(base, ATuple) and n["f"].isdigit() and int(n["f"]) < len(base.items):
            return base.items[int(n["f"])]
        bty = strip(n["e"]).get("ty", "").lstrip("&").replace("mut ", "")
        name = bty.split("<")[0].rsplit("::", 1)[-1]
        inv = self.field_inv.get((name, n["f"]))
        if inv is not None:
            return inv
        if name == "Self" or bty.startswith("decoder::arithmetic::"):
            inv = self.field_inv.get(("Self", n["f"]))
            if inv is not None:
                return inv
        return top_of(n.get("ty", ""))

    def e_index(self, n, env):
        base = self.eval(n["e"], env)
        self.eval(n["i"], env)
        if isinstance(base, ASlice):
            return base.elem
        return top_of(n.get("ty", ""))

    def e_cast(self, n, env):
        v = self.eval(n["e"], env)
        to = n.get("ty", "")
        if isinstance(v, AInt) and to in INT_RANGE:
            r = INT_RANGE[to]
            if to in ("usize", "u64", "u32") and v.lo >= 0:
                return AInt(v.lo, min(v.hi, r[1]), to)
            self.oblige("cast:%s->%s" % (v.ty, to), r[0] <= v.lo and v.hi <= r[1], n, "`as %s` of %r must not wrap" % (to, v))
            return AInt(max(v.lo, r[0]), min(v.hi, r[1]), to)
        if isinstance(v, AInt) and to in ("f64", "f32"):
            return AFloat(float(v.lo), float(v.hi), False, to)
        if isinstance(v, AFloat) and to in INT_RANGE:
            # Rust float->int casts saturate and map NaN to 0
            r = INT_RANGE[to]
            lo = r[0] if v.lo == -INF else max(r[0], min(r[1], math.trunc(v.lo)))
            hi = r[1] if v.hi == INF else max(r[0], min(r[1], math.trunc(v.hi)))
            if v.nan:
                lo, hi = min(lo, 0), max(hi, 0)
            return AInt(lo, hi, to)
        if isinstance(v, AFloat) and to in ("f64", "f32"):
            return AFloat(v.lo, v.hi, v.nan, to)
        if isinstance(v, ABool) and to in INT_RANGE:
            return AInt(0 if v.f else 1, 1 if v.t else 0, to)
        return top_of(to)

    def e_un(self, n, env):
        v = self.eval(n["e"], env)
        op = n["op"]
        if op == "Deref":
            return v
        if op == "Neg":
            if isinstance(v, AInt):
                r = INT_RANGE[v.ty]
                self.oblige("neg", v.lo > r[0], n, "negation of %r must not be applied to %s::MIN" % (v, v.ty))
                return AInt(-v.hi, -max(v.lo, r[0] + 1), v.ty)
            if isinstance(v, AFloat):
                return AFloat(-v.hi, -v.lo, v.nan, v.ty)
        if op == "Not":
            if isinstance(v, ABool):
                return ABool(v.f, v.t)
        return top_of(n.get("ty", ""))

    def cmp(self, op, a, b):
        if isinstance(a, (AInt, AFloat)) and isinstance(b, (AInt, AFloat)):
            nan = getattr(a, "nan", False) or getattr(b, "nan", False)
            if op == "Lt":
                t, f = a.lo < b.hi, a.hi >= b.lo
            elif op == "Le":
                t, f = a.lo <= b.hi, a.hi > b.lo
            elif op == "Gt":
                t, f = a.hi > b.lo, a.lo <= b.hi
            elif op == "Ge":
                t, f = a.hi >= b.lo, a.lo < b.hi
            elif op == "Eq":
                t, f = not (a.hi < b.lo or b.hi < a.lo), not (a.lo == a.hi == b.lo == b.hi)
            else:
                t, f = not (a.lo == a.hi == b.lo == b.hi), not (a.hi < b.lo or b.hi < a.lo)
            if nan:
                if op == "Ne":
                    t = True
                else:
                    f = True
            return ABool(t, f)
        return ABool()

    def e_bin(self, n, env):
        op = n["op"]
        if op in ("And", "Or"):
            a = self.eval(n["l"], env)
            # refine for the right operand
            et, ef = self.refine(n["l"], env)
            b = self.eval(n["r"], et if op == "And" else ef)
            if isinstance(a, ABool) and isinstance(b, ABool):
                if op == "And":
                    return ABool(a.t and b.t, a.f or b.f)
                return ABool(a.t or b.t, a.f and b.f)
            return ABool()
        a = self.eval(n["l"], env)
        b = self.eval(n["r"], env)
        if op in ("Lt", "Le", "Gt", "Ge", "Eq", "Ne"):
            return self.cmp(op, a, b)
        if isinstance(a, AInt) and isinstance(b, AInt):
            ty = a.ty
            if op == "Add":
                return self.mkint(a.lo + b.lo, a.hi + b.hi, ty, n, "add")
            if op == "Sub":
                return self.mkint(a.lo - b.hi, a.hi - b.lo, ty, n, "sub")
            if op == "Mul":
                c = [a.lo * b.lo, a.lo * b.hi, a.hi * b.lo, a.hi * b.hi]
                return self.mkint(min(c), max(c), ty, n, "mul")
            if op == "BitXor":
                if a.lo >= 0 and b.lo >= 0:
                    m = max(a.hi, b.hi)
                    bits = m.bit_length()
                    return AInt(0, (1 << bits) - 1 if bits else 0, ty)
                return top_of(ty)
            if op in ("Div", "Rem"):
                self.oblige("div-by-zero", b.lo > 0 or b.hi < 0, n, "divisor %r must be non-zero" % (b,))
                return top_of(ty)
            return top_of(ty)
        if isinstance(a, AFloat) and isinstance(b, AFloat):
            if op == "Add":
                return fadd(a, b)
            if op == "Sub":
                return fadd(a, AFloat(-b.hi, -b.lo, b.nan, b.ty))
            if op == "Mul":
                return fmul(a, b)
            if op == "Div":
                if b.lo > 0 or b.hi < 0:
                    c = [x / y for x in (a.lo, a.hi) for y in (b.lo, b.hi) if not (math.isinf(x) and math.isinf(y))]
                    if c:
                        return AFloat(min(c), max(c), a.nan or b.nan or (math.isinf(a.lo) or math.isinf(a.hi)) and (math.isinf(b.lo) or math.isinf(b.hi)), a.ty)
                return AFloat(-INF, INF, True, a.ty)
        if isinstance(a, ABool) and isinstance(b, ABool) and op == "BitXor":
            t = (a.t and b.f) or (a.f and b.t)
            f = (a.t and b.t) or (a.f and b.f)
            return ABool(t, f)
        return top_of(n.get("ty", ""))

    # -- refinement ---------------------------------------------------------------------
    def refine(self, cond, env):
        """(env when cond is true, env when cond is false)"""
        c = strip(cond)
        et, ef = dict(env), dict(env)
        if c.get("k") == "un" and c.get("op") == "Not":
            a, b = self.refine(c["e"], env)
            return b, a
        if c.get("k") == "bin" and c["op"] in ("Lt", "Le", "Gt", "Ge", "Eq", "Ne"):
            op = c["op"]
            for side, other, flip in ((c["l"], c["r"], False), (c["r"], c["l"], True)):
                nm = plain_local(strip(side))
                if nm is None or nm not in env:
                    continue
                ov = self.quiet_eval(other, env)
                v = env[nm]
                o = op
                if flip:
                    o = {"Lt": "Gt", "Le": "Ge", "Gt": "Lt", "Ge": "Le"}.get(op, op)
                if isinstance(v, AInt) and isinstance(ov, AInt):
                    et[nm], ef[nm] = refine_int(v, o, ov)
                elif isinstance(v, AFloat) and isinstance(ov, AFloat):
                    et[nm], ef[nm] = refine_float(v, o, ov)
                break
        if c.get("k") == "bin" and c["op"] == "And":
            a_t, _ = self.refine(c["l"], env)
            b_t, _ = self.refine(c["r"], a_t)
            return b_t, ef
        if c.get("k") == "path" and c.get("res") == "local" and isinstance(env.get(c["name"]), ABool):
            et[c["name"]] = ABool(True, False)
            ef[c["name"]] = ABool(False, True)
        return et, ef

    def quiet_eval(self, n, env):
        saved = self.obls
        self.obls = []
        try:
            return self.eval(n, env)
        finally:
            self.obls = saved

    # -- control flow -----------------------------------------------------------------------
    def e_if(self, n, env):
        c = self.eval(n["c"], env) if strip(n["c"]).get("k") != "letx" else None
        if strip(n["c"]).get("k") == "letx":
            lx = strip(n["c"])
            v = self.eval(lx["e"], env)
            et = dict(env)
            t_possible, f_possible = True, True
            if isinstance(v, AOpt):
                some = lx["pat"].get("def", "").endswith("Some")
                if some:
                    t_possible, f_possible = v.some is not None, v.none
                    self.bind(lx["pat"], v, et)
            else:
                self.bind(lx["pat"], v, et)
            tv = self.eval(n["t"], et) if t_possible else None
            ev = (self.eval(n["e"], dict(env)) if "e" in n else UNIT) if f_possible else None
            self.merge_env(env, [et] if t_possible else [], [])
            return join(tv, ev) if (tv is not None or ev is not None) else UNIT
        et, ef = self.refine(n["c"], env)
        tv = ev = None
        outs = []
        if not isinstance(c, ABool) or c.t:
            tv = self.eval(n["t"], et)
            outs.append(et)
        if not isinstance(c, ABool) or c.f:
            ev = self.eval(n["e"], ef) if "e" in n else UNIT
            outs.append(ef)
        self.merge_env(env, outs, [])
        if tv is None and ev is None:
            return UNIT
        if isinstance(tv, Diverge):
            return ev if ev is not None else tv
        if isinstance(ev, Diverge):
            return tv if tv is not None else ev
        return join(tv, ev)

    def merge_env(self, env, branch_envs, _):
        """after a branch: variables of the outer env take the join of their values in the branches that fall through"""
        live = [e for e in branch_envs if not e.get("__diverged__")]
        if not live:
            env["__diverged__"] = True
            return
        for k in list(env.keys()):
            if k.startswith("__"):
                continue
            vals = [e.get(k) for e in live if k in e]
            if vals:
                j = None
                for v in vals:
                    j = join(j, v)
                env[k] = j

    def e_match(self, n, env):
        s = self.eval(n["e"], env)
        res = None
        outs = []
        for a in n["arms"]:
            e2 = dict(env)
            p = a["pat"]
            d = p.get("def", "") if p.get("k") in ("ptstruct", "pstruct", "ppath") else ""
            if isinstance(s, AOpt):
                if d.endswith("None") and not s.none:
                    continue
                if d.endswith("Some"):
                    if s.some is None:
                        continue
            if isinstance(s, ABool) and p.get("k") == "plit":
                if p["v"] is True and not s.t:
                    continue
                if p["v"] is False and not s.f:
                    continue
            try:
                self.bind(p, s, e2)
            except Unsupported:
                pass
            if "guard" in a:
                self.eval(a["guard"], e2)
            v = self.eval(a["body"], e2)
            outs.append(e2)
            if not isinstance(v, Diverge):
                res = join(res, v) if res is not None else v
        self.merge_env(env, outs, [])
        return res if res is not None else UNIT

    def e_block(self, n, env):
        for s in n.get("stmts", []):
            if s["k"] == "let":
                if "init" in s:
                    v = self.eval(s["init"], env)
                    self.bind(s["pat"], v, env)
                continue
            e = s["e"]
            if is_assert(e):
                self.do_assert(e, env)
                continue
            if _panics(e):
                env["__diverged__"] = True
                return Diverge()
            v = self.eval(e, env)
            if isinstance(v, Diverge) or env.get("__diverged__"):
                return Diverge()
        if n.get("e") is not None:
            return self.eval(n["e"], env)
        return UNIT

    def do_assert(self, e, env):
        e = strip(e)
        if e.get("k") == "if":
            c = e["c"]
            inner = strip(c)
            if inner.get("k") == "un" and inner.get("op") == "Not":
                v = self.eval(inner["e"], env)
                self.oblige("assert", isinstance(v, ABool) and not v.f, e, "asserted condition evaluates to %r" % (v,))
                et, _ = self.refine(inner["e"], env)
                env.update(et)
                return
        self.oblige("assert", False, e, "assertion of unknown shape")

    def e_assign(self, n, env):
        r = self.eval(n["r"], env)
        self.store(n["l"], r, env, n)
        return UNIT

    def e_assignop(self, n, env):
        op = n["op"].replace("Assign", "")
        fake = {"k": "bin", "op": op, "l": n["l"], "r": n["r"], "sp": n.get("sp"), "ty": n["l"].get("ty", "")}
        r = self.e_bin(fake, env)
        self.store(n["l"], r, env, n)
        return UNIT

    def store(self, lhs, val, env, n):
        nm = plain_local(lhs)
        if nm is not None:
            env[nm] = val
            return
        l = lhs
        if l.get("k") == "un" and l.get("op") == "Deref":
            inner = strip(l["e"])
            nm = plain_local(inner)
            tgt = env.get(nm) if nm else None
            # *x = v where x is an element reference with an invariant
            inv = getattr(tgt, "inv", None) if tgt is not None else None
            ety = l.get("ty", "")
            elem_inv = self.field_inv.get(("*elem", ety))
            if elem_inv is not None and isinstance(val, AInt):
                self.oblige("store:elem:" + ety, elem_inv.lo <= val.lo and val.hi <= elem_inv.hi, n, "stored element %r must lie in [%s, %s]" % (val, elem_inv.lo, elem_inv.hi))
            return
        s = strip(lhs)
        if s.get("k") == "field":
            bty = strip(s["e"]).get("ty", "").lstrip("&").replace("mut ", "")
            name = bty.split("<")[0].rsplit("::", 1)[-1]
            inv = self.field_inv.get((name, s["f"]))
            if inv is not None and isinstance(val, AInt):
                self.oblige("store:%s.%s" % (name, s["f"]), inv.lo <= val.lo and val.hi <= inv.hi, n,
                            "%s.%s = %r must lie in [%s, %s]" % (name, s["f"], val, inv.lo, inv.hi))
            return
        if s.get("k") == "index":
            ety = lhs.get("ty", "")
            base = self.quiet_eval(s["e"], env)
            if isinstance(base, ASlice) and isinstance(val, AInt) and isinstance(base.elem, AInt):
                self.oblige("store:index:" + (base.name or ety), base.elem.lo <= val.lo and val.hi <= base.elem.hi, n,
                            "element stored %r must stay within the assumed element range %r" % (val, base.elem))
            return

    def e_ret(self, n, env):
        v = self.eval(n["e"], env) if "e" in n else UNIT
        self.returns.append(v)
        env["__diverged__"] = True
        return Diverge()

    def e_break(self, n, env):
        env["__diverged__"] = True
        return Diverge()

    e_continue = e_break

    def e_for(self, n, env):
        it = self.eval(n["iter"], env)
        elem, maxlen, minlen = self.iter_parts(it, n["iter"])
        # fixpoint over the loop-carried locals
        assigned = set()
        for a in walk(n["body"]):
            if a.get("k") in ("assign", "assignop"):
                nm = plain_local(a["l"])
                if nm is not None and nm in env:
                    assigned.add(nm)
        state = {k: env[k] for k in assigned}
        for rnd in range(8):
            e2 = dict(env)
            e2.update(state)
            e2.pop("__diverged__", None)
            saved = self.obls
            self.obls = []
            self.bind(n["pat"], elem, e2)
            self.eval(n["body"], e2)
            body_obls = self.obls
            self.obls = saved
            new = {k: join(state[k], e2.get(k, state[k])) for k in assigned}
            if all(same(new[k], state[k]) for k in assigned):
                break
            if rnd >= 4:
                new = {k: widen(state[k], new[k]) for k in assigned}
            state = new
        # final pass records the obligations with the stable state
        e2 = dict(env)
        e2.update(state)
        e2.pop("__diverged__", None)
        self.bind(n["pat"], elem, e2)
        self.eval(n["body"], e2)
        for k in assigned:
            env[k] = join(state[k], e2.get(k, state[k]))
        return UNIT

    def iter_parts(self, it, node):
        if isinstance(it, AIter):
            return it.elem, it.maxlen, it.minlen
        if isinstance(it, ASlice):
            return it.elem, it.maxlen, it.minlen
        return top_of(""), None, 0

    # -- calls -----------------------------------------------------------------------------------
    def e_call(self, n, env):
        f = n["f"]
        if f.get("k") == "path" and f.get("res") == "def":
            dk = f.get("dk", "")
            d = f["def"]
            args = [self.eval(a, env) for a in n["args"]]
            if dk.startswith("Ctor"):
                if d.endswith("Some"):
                    return AOpt(False, args[0])
                return ATop(n.get("ty", ""))
            return self.call(d, f.get("inst"), args, n, env)
        fv = self.eval(f, env)
        args = [self.eval(a, env) for a in n["args"]]
        return self.apply(fv, args, n)

    def e_mcall(self, n, env):
        recv = self.eval(n["recv"], env)
        args = [recv] + [self.eval(a, env) for a in n["args"]]
        return self.call(n.get("def") or ("?::" + n["m"]), n.get("inst"), args, n, env)

    def apply(self, fv, args, n):
        if isinstance(fv, AClosure):
            cenv = dict(fv.env)
            cenv.pop("__diverged__", None)
            for p, a in zip(fv.node["params"], args):
                self.bind(p, a, cenv)
            saved = self.returns
            self.returns = []
            v = self.eval(fv.node["body"], cenv)
            for r in self.returns:
                v = join(v, r) if not isinstance(v, Diverge) else r
            self.returns = saved
            return v
        if isinstance(fv, AFn):
            return self.call(fv.path, None, args, n, {})
        self.unknown.append(("apply", n.get("sp")))
        return top_of(n.get("ty", ""))

    returns = []

    def call(self, path, inst, args, n, env):
        tgt = inst or path
        body = self.inline(tgt) or self.inline(path)
        if body is not None and self.depth < self.max_inline and body.hir:
            e2 = {}
            for p, a in zip(body.params, args):
                self.bind(p, a, e2)
            self.depth += 1
            self.fn_stack.append(body.path)
            saved = self.returns
            self.returns = []
            try:
                v = self.eval(body.value, e2)
                for r in self.returns:
                    v = join(v, r) if not isinstance(v, Diverge) else r
                return v
            finally:
                self.returns = saved
                self.fn_stack.pop()
                self.depth -= 1
        return self.call_model(path, args, n, env)

    def call_model(self, path, args, n, env):
        ty = n.get("ty", "") if n else ""
        base = path.rsplit("::", 1)[-1]
        mm = STD_NUM_RX.match(path)
        a0 = args[0] if args else None
        if path in ("std::convert::From::from", "std::convert::Into::into"):
            return self.convert(a0, ty, n)
        if path in ("std::convert::identity", "std::clone::Clone::clone", "std::borrow::Borrow::borrow"):
            return a0
        if mm:
            return self.num_model(mm.group(2), args, n, ty)
        if path in ("std::cmp::Ord::min", "std::cmp::Ord::max") and isinstance(a0, AInt) and isinstance(args[1], AInt):
            b = args[1]
            if base == "min":
                return AInt(min(a0.lo, b.lo), min(a0.hi, b.hi), a0.ty)
            return AInt(max(a0.lo, b.lo), max(a0.hi, b.hi), a0.ty)
        if path == "std::cmp::Ord::clamp" and len(args) == 3 and all(isinstance(x, AInt) for x in args):
            lo, hi = args[1], args[2]
            return AInt(min(max(a0.lo, lo.lo), hi.hi), max(min(a0.hi, hi.hi), lo.lo), a0.ty)
        # slices / iterators
        if base in ("iter", "iter_mut", "into_iter") and isinstance(a0, (ASlice, AIter)):
            return AIter(a0.elem, a0.maxlen, a0.minlen)
        if base == "len" and isinstance(a0, ASlice):
            return AInt(a0.minlen, a0.maxlen if a0.maxlen is not None else 2 ** 64 - 1, "usize")
        if base == "capacity" and isinstance(a0, ASlice):
            return AInt(a0.minlen, 2 ** 63 - 1, "usize")
        if base in ("copied", "cloned", "rev", "by_ref") and isinstance(a0, AIter):
            return a0
        if base in ("copied", "cloned") and isinstance(a0, AOpt):
            return a0
        if base == "enumerate" and isinstance(a0, AIter):
            mx = (a0.maxlen - 1) if a0.maxlen else 2 ** 64 - 1
            return AIter(ATuple([AInt(0, max(mx, 0), "usize"), a0.elem]), a0.maxlen, a0.minlen)
        if base == "zip" and isinstance(a0, AIter):
            b = args[1]
            if isinstance(b, (AIter, ASlice)):
                ml = min(x for x in (a0.maxlen, b.maxlen) if x is not None) if (a0.maxlen is not None or b.maxlen is not None) else None
                return AIter(ATuple([a0.elem, b.elem]), ml, 0)
        if base == "filter" and isinstance(a0, AIter):
            self.apply(args[1], [a0.elem], n)
            return AIter(a0.elem, a0.maxlen, 0)
        if base == "map" and isinstance(a0, AIter):
            return AIter(self.apply(args[1], [a0.elem], n), a0.maxlen, a0.minlen)
        if base == "map" and isinstance(a0, AOpt):
            return AOpt(a0.none, self.apply(args[1], [a0.some], n) if a0.some is not None else None)
        if base == "map_or" and isinstance(a0, AOpt) and len(args) == 3:
            # o.map_or(d, f): d when None, f(payload) when Some
            out = None
            if a0.none:
                out = args[1]
            if a0.some is not None:
                r = self.apply(args[2], [a0.some], n)
                out = r if out is None else join(out, r)
            return out if out is not None else args[1]
        if base in ("unwrap_or",) and isinstance(a0, AOpt) and len(args) == 2:
            out = args[1] if a0.none else None
            if a0.some is not None:
                out = a0.some if out is None else join(out, a0.some)
            return out if out is not None else args[1]
        if base == "then_some" and isinstance(a0, ABool) and len(args) == 2:
            return AOpt(True, args[1])
        if base in ("take_while", "skip_while") and isinstance(a0, AIter) and isinstance(args[1], AClosure):
            # the elements that are kept by take_while satisfy the predicate: refine the element by the closure's condition
            fv = args[1]
            cenv = dict(fv.env)
            cenv.pop("__diverged__", None)
            names = []
            for p_ in fv.node["params"]:
                self.bind(p_, a0.elem, cenv)
                names += [x["name"] for x in walk(p_) if x.get("k") == "bind"]
            self.eval(fv.node["body"], dict(cenv))
            elem = a0.elem
            if base == "take_while" and len(names) == 1:
                et, _ = self.refine(fv.node["body"], cenv)
                if names[0] in et:
                    elem = et[names[0]]
            return AIter(elem, a0.maxlen, 0)
        if base in ("filter_map", "map_while") and isinstance(a0, AIter):
            r = self.apply(args[1], [a0.elem], n)
            return AIter(r.some if isinstance(r, AOpt) and r.some is not None else ATop(""), a0.maxlen, 0)
        if base == "fold" and isinstance(a0, AIter) and len(args) == 3:
            # accumulator fixpoint: acc = init join f(acc, elem), widened after a few rounds (the obligations of the closure body are
            # raised on the way, so an unbounded `acc + x` still has to fit its type)
            # (a known maximal length bounds the number of rounds: no widening then, as for `sum`)
            acc = args[1]
            bounded = a0.maxlen is not None and a0.maxlen <= 4096
            for round_ in range(a0.maxlen if bounded else 8):
                nxt = join(acc, self.apply(args[2], [acc, a0.elem], n))
                if repr(nxt) == repr(acc):
                    break
                acc = widen(acc, nxt) if (round_ >= 3 and not bounded) else nxt
            return acc
        if base == "sum" and isinstance(a0, AIter) and isinstance(a0.elem, AInt):
            if a0.maxlen is None:
                return top_of(ty)
            lo = min(0, a0.elem.lo * a0.maxlen)
            hi = max(0, a0.elem.hi * a0.maxlen)
            if a0.minlen >= 1:
                lo = min(a0.elem.lo * a0.minlen, a0.elem.lo * a0.maxlen)
                hi = max(a0.elem.hi * a0.minlen, a0.elem.hi * a0.maxlen)
            return self.mkint(lo, hi, a0.elem.ty, n, "sum of at most %d terms" % a0.maxlen)
        if base in ("min_by_key", "max_by_key", "min_by", "max_by", "min", "max", "last", "next", "find", "reduce") and isinstance(a0, AIter):
            if base in ("min_by_key", "max_by_key", "find"):
                self.apply(args[1], [a0.elem], n)
            if base in ("min_by", "max_by", "reduce"):
                self.apply(args[1], [a0.elem, a0.elem], n)
            return AOpt(a0.minlen == 0, a0.elem)
        if base == "collect" and isinstance(a0, AIter):
            return ASlice(a0.elem, a0.maxlen, a0.minlen)
        if base == "into_boxed_slice" and isinstance(a0, ASlice):
            return a0
        if base == "count" and isinstance(a0, AIter):
            return AInt(a0.minlen, a0.maxlen if a0.maxlen is not None else 2 ** 64 - 1, "usize")
        if base in ("expect", "unwrap") and isinstance(a0, AOpt):
            self.oblige("unwrap", not a0.none, n, "%s() on %r" % (base, a0))
            return a0.some if a0.some is not None else top_of(ty)
        if base == "unwrap_or" and isinstance(a0, AOpt):
            return join(a0.some, args[1]) if a0.none else a0.some
        if base == "get" and isinstance(a0, ASlice):
            return AOpt(True, a0.elem)
        if base == "partial_cmp":
            nan = any(getattr(x, "nan", False) for x in args)
            return AOpt(nan, ATop("Ordering"))
        if base in ("resize", "push", "clear", "reserve"):
            return UNIT
        if base == "new" and "Vec" in path:
            return ASlice(None, 0, 0)
        if path.endswith("RangeInclusive::<Idx>::new") and isinstance(a0, AInt) and isinstance(args[1], AInt):
            cnt = max(args[1].hi - a0.lo + 1, 0)
            return AIter(AInt(a0.lo, args[1].hi, a0.ty), cnt, max(args[1].lo - a0.hi + 1, 0))
        self.unknown.append((path, n.get("sp") if n else None))
        return top_of(ty)

    def e_struct_range(self, n, env):
        return None

    def convert(self, v, ty, n):
        if isinstance(v, AInt) and ty in INT_RANGE:
            r = INT_RANGE[ty]
            # From/Into between integers exist only for lossless widenings
            return AInt(v.lo, v.hi, ty)
        if isinstance(v, AInt) and ty in ("f64", "f32"):
            return AFloat(float(v.lo), float(v.hi), False, ty)
        if isinstance(v, AFloat) and ty in ("f64", "f32"):
            return AFloat(v.lo, v.hi, v.nan, ty)
        if isinstance(v, ABool) and ty in INT_RANGE:
            return AInt(0 if v.f else 1, 1 if v.t else 0, ty)
        return v if v is not None else top_of(ty)

    def num_model(self, name, args, n, ty):
        a = args[0]
        if isinstance(a, AInt):
            r = INT_RANGE[a.ty]
            if name == "abs":
                self.oblige("abs", a.lo > r[0], n, "abs() of %r must not be applied to %s::MIN" % (a, a.ty))
                lo = 0 if a.lo <= 0 <= a.hi else min(abs(a.lo), abs(a.hi))
                return AInt(lo, min(max(abs(a.lo), abs(a.hi)), r[1]), a.ty)
            if name in ("min", "max") and isinstance(args[1], AInt):
                b = args[1]
                if name == "min":
                    return AInt(min(a.lo, b.lo), min(a.hi, b.hi), a.ty)
                return AInt(max(a.lo, b.lo), max(a.hi, b.hi), a.ty)
            if name == "saturating_add" and isinstance(args[1], AInt):
                b = args[1]
                return AInt(max(r[0], min(r[1], a.lo + b.lo)), max(r[0], min(r[1], a.hi + b.hi)), a.ty)
            if name == "saturating_sub" and isinstance(args[1], AInt):
                b = args[1]
                return AInt(max(r[0], min(r[1], a.lo - b.hi)), max(r[0], min(r[1], a.hi - b.lo)), a.ty)
            if name == "clamp" and isinstance(args[1], AInt) and isinstance(args[2], AInt):
                return AInt(max(a.lo, args[1].lo), min(a.hi, args[2].hi), a.ty)
        if isinstance(a, AFloat):
            if name == "abs":
                lo = 0.0 if a.lo <= 0 <= a.hi else min(abs(a.lo), abs(a.hi))
                return AFloat(lo, max(abs(a.lo), abs(a.hi)), a.nan, a.ty)
            if name == "exp":
                return AFloat(mono(math.exp, a.lo, 0.0, INF), mono(math.exp, a.hi, 0.0, INF), a.nan, a.ty)
            if name == "ln_1p":
                if a.lo > -1:
                    return AFloat(mono(math.log1p, a.lo, -INF, INF), mono(math.log1p, a.hi, -INF, INF), a.nan, a.ty)
                return AFloat(-INF, INF, True, a.ty)
            if name == "round":
                return AFloat(fround(a.lo), fround(a.hi), a.nan, a.ty)
            if name == "tanh":
                return AFloat(math.tanh(a.lo) if not math.isinf(a.lo) else -1.0, math.tanh(a.hi) if not math.isinf(a.hi) else 1.0, a.nan, a.ty)
            if name in ("min", "max") and isinstance(args[1], AFloat):
                b = args[1]
                # f64::min/max return the non-NaN operand
                if name == "min":
                    return AFloat(min(a.lo, b.lo), max(min(a.hi, b.hi), min(a.hi if b.nan else -INF, b.hi if a.nan else -INF)), a.nan and b.nan, a.ty)
                return AFloat(min(max(a.lo, b.lo), max(a.lo if b.nan else INF, b.lo if a.nan else INF)), max(a.hi, b.hi), a.nan and b.nan, a.ty)
            if name == "clamp" and isinstance(args[1], AFloat) and isinstance(args[2], AFloat):
                return AFloat(max(a.lo, args[1].lo), min(a.hi, args[2].hi), a.nan, a.ty)
        self.unknown.append(("num::" + name, n.get("sp") if n else None))
        return top_of(ty)


class Diverge:
    def __repr__(self):
        return "!"


def widen(old, new):
    if isinstance(old, AInt) and isinstance(new, AInt):
        r = INT_RANGE[old.ty]
        return AInt(old.lo if new.lo >= old.lo else r[0], old.hi if new.hi <= old.hi else r[1], old.ty)
    if isinstance(old, AOpt) and isinstance(new, AOpt):
        return AOpt(old.none or new.none, widen(old.some, new.some) if old.some is not None and new.some is not None else join(old.some, new.some))
    if isinstance(old, AFloat) and isinstance(new, AFloat):
        return AFloat(old.lo if new.lo >= old.lo else -INF, old.hi if new.hi <= old.hi else INF, old.nan or new.nan, old.ty)
    return join(old, new)


def refine_int(v, op, o):
    """(value of v when `v op o` holds, value when it does not)"""
    def clip(lo, hi):
        return AInt(lo, hi, v.ty) if lo <= hi else AInt(v.lo, v.lo - 1, v.ty)   # empty -> inverted interval
    if op == "Lt":
        return clip(v.lo, min(v.hi, o.hi - 1)), clip(max(v.lo, o.lo), v.hi)
    if op == "Le":
        return clip(v.lo, min(v.hi, o.hi)), clip(max(v.lo, o.lo + 1), v.hi)
    if op == "Gt":
        return clip(max(v.lo, o.lo + 1), v.hi), clip(v.lo, min(v.hi, o.hi))
    if op == "Ge":
        return clip(max(v.lo, o.lo), v.hi), clip(v.lo, min(v.hi, o.hi - 1))
    if op == "Eq":
        return clip(max(v.lo, o.lo), min(v.hi, o.hi)), v
    return v, clip(max(v.lo, o.lo), min(v.hi, o.hi)) if o.lo == o.hi else v


def refine_float(v, op, o):
    def mk(lo, hi, nan):
        return AFloat(lo, hi, nan, v.ty)
    # comparisons with NaN are false: the true branch excludes NaN, the false branch keeps it
    if op == "Lt":
        return mk(v.lo, min(v.hi, o.hi), False), mk(max(v.lo, o.lo), v.hi, v.nan or o.nan)
    if op == "Le":
        return mk(v.lo, min(v.hi, o.hi), False), mk(max(v.lo, o.lo), v.hi, v.nan or o.nan)
    if op == "Gt":
        return mk(max(v.lo, o.lo), v.hi, False), mk(v.lo, min(v.hi, o.hi), v.nan or o.nan)
    if op == "Ge":
        return mk(max(v.lo, o.lo), v.hi, False), mk(v.lo, min(v.hi, o.hi), v.nan or o.nan)
    return v, v


def mono(f, x, at_neg_inf, at_pos_inf):
    if x == -INF:
        return at_neg_inf
    if x == INF:
        return at_pos_inf
    try:
        return f(x)
    except OverflowError:
        return at_pos_inf


def fround(x):
    if math.isinf(x):
        return x
    return float(math.floor(abs(x) + 0.5)) * (1 if x >= 0 else -1)


def fadd(a, b):
    lo, hi = a.lo + b.lo if not (math.isinf(a.lo) and math.isinf(b.lo) and a.lo != b.lo) else -INF, \
        a.hi + b.hi if not (math.isinf(a.hi) and math.isinf(b.hi) and a.hi != b.hi) else INF
    nan = a.nan or b.nan or (a.lo == -INF and b.hi == INF) or (a.hi == INF and b.lo == -INF)
    if math.isnan(lo):
        lo = -INF
    if math.isnan(hi):
        hi = INF
    return AFloat(lo, hi, nan, a.ty)


def fmul(a, b):
    c = []
    nan = a.nan or b.nan
    for x in (a.lo, a.hi):
        for y in (b.lo, b.hi):
            if (math.isinf(x) and y == 0) or (math.isinf(y) and x == 0):
                nan = True
                c.append(0.0)
            else:
                c.append(x * y)
    zero_in_a = a.lo <= 0 <= a.hi
    zero_in_b = b.lo <= 0 <= b.hi
    if (zero_in_a and (math.isinf(b.lo) or math.isinf(b.hi))) or (zero_in_b and (math.isinf(a.lo) or math.isinf(a.hi))):
        nan = True
    return AFloat(min(c), max(c), nan, a.ty)
