"""A5: match-table extraction from HIR."""
from .extract import AnalysisError
from .facts import walk, strip, callee, lit_value


def last_seg(path):
    return path.rsplit("::", 1)[-1]


def pat_key(p):
    """Hashable description of a pattern: variant names, literals, '_' for catch-alls."""
    k = p.get("k")
    if k in ("wild",):
        return "_"
    if k == "bind":
        if "sub" in p:
            return pat_key(p["sub"])
        return "_"
    if k == "ppath":
        return last_seg(p["def"])
    if k == "plit":
        return p["v"]
    if k == "ptuple":
        return tuple(pat_key(x) for x in p["ps"])
    if k in ("pref", "pderef"):
        return pat_key(p["p"])
    if k == "ptstruct":
        return (last_seg(p["def"]),) + tuple(pat_key(x) for x in p["ps"])
    if k == "pstruct":
        return (last_seg(p["def"]),) + tuple((f["name"], pat_key(f["pat"])) for f in p["fields"])
    if k == "por":
        return ("|",) + tuple(pat_key(x) for x in p["ps"])
    if k == "prange":
        return ("range", p.get("lo", {}).get("v"), p.get("hi", {}).get("v"), p.get("end"))
    return ("?", k)


def is_catch_all(key):
    if key == "_":
        return True
    if isinstance(key, tuple) and key and key[0] != "|" and all(is_catch_all(x) for x in key):
        return True
    return False


def match_rows(m):
    """[(pattern key, guard?, arm body, arm)] in source order; or-patterns are expanded."""
    rows = []
    for a in m["arms"]:
        key = pat_key(a["pat"])
        keys = list(key[1:]) if isinstance(key, tuple) and key and key[0] == "|" else [key]
        for kk in keys:
            rows.append((kk, a.get("guard"), a["body"], a))
    return rows


def find_matches(root, scrut_pred=None):
    out = []
    for n in walk(root):
        if n.get("k") == "match" and n.get("src") == "Normal":
            if scrut_pred is None or scrut_pred(n["e"]):
                out.append(n)
    return out


def value_path(n):
    """`Enum::Variant` value expression -> variant name; Ok(x)/Some(x) peeled."""
    n = strip(n)
    if n.get("k") == "path" and n.get("res") == "def":
        return last_seg(n["def"])
    if n.get("k") == "call":
        c = callee(n)
        if c and last_seg(c) in ("Ok", "Some") and len(n["args"]) == 1:
            return value_path(n["args"][0])
    return None


def diverges_with_err(n):
    """Arm body is `return Err(..)` / `Err(..)?` / `Err(..)` / panic-free error production."""
    n = strip(n)
    k = n.get("k")
    if k == "ret" and "e" in n:
        return diverges_with_err(n["e"]) or _is_err(n["e"])
    if k == "try":
        return _is_err(n["e"])
    if k == "block":
        if n.get("e") is not None:
            return diverges_with_err(n["e"])
        if n.get("stmts"):
            last = n["stmts"][-1]
            if last.get("k") == "semi":
                return diverges_with_err(last["e"])
    return _is_err(n)


def _is_err(n):
    n = strip(n)
    if n.get("k") == "call":
        c = callee(n)
        return bool(c) and last_seg(c) == "Err"
    return False
