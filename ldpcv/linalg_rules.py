"""Shared structural rule for the two eliminations in linalg.rs (used by C02-S5 and C09-Y4).

Row operations (swap of two rows, scaling a row, adding a multiple of one row to another) are only correct when they act on
the whole remaining row: from the pivot column to the LAST column of the array. A narrower column range leaves part of the
augmented matrix behind (the generator half in gauss_reduction)."""
from .extract import AnalysisError
from .facts import walk
from .symx import Poly, Unsupported, app, var, num, single_atom, atom_fn, atom_args
from .trace import Tracer

DIM = "ndarray::impl_methods::<impl ndarray::ArrayBase<S, D>>::dim"


def row_operation_width(ck, F, rule, fn, floor=3):
    b = F.body(fn)
    # private helpers of the module (e.g. an extracted "subtract a multiple of the pivot row") are expanded at their call sites
    t = Tracer(F, r"ndarray::impl_methods::<impl ndarray::ArrayBase<S, D>>::swap", mode="int",
               inline=lambda p: F.bodies.get(p) if p and p.startswith("linalg::") and p != fn else None)
    env = {}
    t.bind(b.params[0], var("array"), env)
    try:
        t.eval(b.value, env)
    except Unsupported as e:
        raise AnalysisError("%s: unreadable shape: %s" % (fn, e))
    NCOLS = app("proj1", app(DIM, var("array")))
    ops = []
    for e in t.events:
        if e.callee.endswith("::swap"):
            ops.append(("swap", e, e.args[1]))
        elif e.callee == "<assign>":
            a = single_atom(e.args[0]) if isinstance(e.args[0], Poly) else None
            if a and atom_fn(a) == "index" and isinstance(a[3], tuple) and a[3][0] == "array":
                ops.append(("store", e, a[3]))
    n = 0
    for kind, e, idx in ops:
        n += 1
        # innermost range loop supplies the column index
        rng = [l for l in e.loops if l[0] == "range"]
        inner = rng[-1] if rng else None
        colv = None
        if isinstance(idx, tuple) and idx[0] == "array":
            c = idx[1][1]
            colv = c[1] if isinstance(c, tuple) and c[0] == "P" else c
        ok = inner is not None and colv == var(inner[1]) and inner[3] == NCOLS and not inner[4]
        # lower bound: the pivot column variable of an enclosing loop (or a loop-carried column counter)
        lo_ok = False
        if ok:
            lo = inner[2]
            la = single_atom(lo) if isinstance(lo, Poly) else None
            # an enclosing loop's variable, or a loop-carried column counter of a `while` elimination
            lo_ok = la is not None and la[0] == "v" and (any(l[0] == "range" and l[1] == la[1] for l in e.loops[:-1]) or
                                                         (la[1].endswith("@loop") and any(l[0] in ("while", "loop") for l in e.loops[:-1])))
        ck.inst(rule, "%s:row-op#%d:%s" % (fn.rsplit("::", 1)[-1], n, kind), ok and lo_ok, e.site,
                "%s over columns %r..%r ; required pivot column .. number of columns (whole remaining row)" % (
                    kind, inner[2] if inner else None, inner[3] if inner else None))
    ck.floor(rule, "row operations in " + fn, n, floor)
