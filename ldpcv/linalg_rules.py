"""Shared structural rule for the two eliminations in linalg.rs (used by C02-S5 and C09-Y4).

Row operations (swap of two rows, scaling a row, adding a multiple of one row to another) are only correct when they act on
the whole remaining row: from the pivot column to the LAST column of the array. A narrower column range leaves part of the
augmented matrix behind (the generator half in gauss_reduction)."""
from .extract import AnalysisError
from .facts import walk
from .symx import Poly, Unsupported, app, var, num, single_atom, atom_fn, atom_args
from .trace import Tracer

DIM = "ndarray::impl_methods::<impl ndarray::ArrayBase<S, D>>::dim"


def all_slice_specs(v):
    """every s![..] specification inside an evaluated argument: list of per-axis entries (index values or range structs)"""
    out = []
    stack = [v]
    seen = set()
    while stack:
        x = stack.pop()
        if isinstance(x, Poly):
            for mono in x.t:
                for a, _ in mono:
                    if a[0] == "f":
                        stack.extend(a[2:])
        elif isinstance(x, list):
            stack.extend(x)
        elif isinstance(x, tuple):
            if len(x) == 2 and x[0] == "array" and isinstance(x[1], (tuple, list)) and len(x[1]) >= 1 and \
                    any(isinstance(y, tuple) and y and y[0] == "struct" and str(y[1]).startswith("Range") for y in x[1]):
                key = repr(x)
                if key not in seen:
                    seen.add(key)
                    out.append(list(x[1]))
                continue
            stack.extend(y for y in x if isinstance(y, (tuple, Poly, list)))
    return out


def _array_reads(v):
    """atoms index(array, [r, c]) occurring in a value"""
    out, stack = [], [v]
    while stack:
        x = stack.pop()
        if isinstance(x, Poly):
            for mono in x.t:
                for a_, _ in mono:
                    if a_[0] == "f":
                        if atom_fn(a_) == "index" and len(a_) > 3 and isinstance(a_[3], tuple) and a_[3] and a_[3][0] == "array":
                            out.append(a_)
                        stack.extend(k[1] for k in a_[2:] if isinstance(k, tuple) and len(k) == 2 and k[0] == "P")
        elif isinstance(x, tuple) and len(x) == 3 and x[0] == "R":
            stack.extend([x[1], x[2]])
        elif hasattr(x, "n") and hasattr(x, "d"):
            stack.extend([x.n, x.d])
    return out


def row_operation_width(ck, F, rule, fn, floor=3):
    b = F.body(fn)
    # private helpers of the module (e.g. an extracted "subtract a multiple of the pivot row") are expanded at their call sites
    t = Tracer(F, r"ndarray::impl_methods::<impl ndarray::ArrayBase<S, D>>::(swap|slice_mut|multi_slice_mut|slice)", mode="int",
               inline=lambda p: F.bodies.get(p) if p and p.startswith("linalg::") and p != fn else None)
    env = {}
    t.track_reads = True
    t.bind(b.params[0], var("array"), env)
    try:
        t.eval(b.value, env)
    except Unsupported as e:
        raise AnalysisError("%s: unreadable shape: %s" % (fn, e))
    NCOLS = app("proj1", app(DIM, var("array")))
    ops = []
    for e in t.events:
        if e.callee.endswith("::swap"):
            ops.append(("swap", e, e.args[1]))
        elif e.callee == "<assign>":
            a = single_atom(e.args[0]) if isinstance(e.args[0], Poly) else None
            if a and atom_fn(a) == "index" and isinstance(a[3], tuple) and a[3][0] == "array":
                ops.append(("store", e, a[3]))
    # whole-row operations through views: array.slice_mut(s![r, a..]) / multi_slice_mut((s![r1, a..], s![r2, a..])) act on the
    # columns a.. of a row: the range must be open-ended (or full) and start at the pivot column
    slice_ops = []
    for e in t.events:
        if e.callee.endswith(("::slice_mut", "::multi_slice_mut")):
            specs = all_slice_specs(e.args[1])
            for sp_ in specs:
                # (a row index, a column range) is a row operation; (a row range, a column index) reads a column: not one
                if len(sp_) == 2 and isinstance(sp_[1], tuple) and sp_[1] and sp_[1][0] == "struct":
                    slice_ops.append((e, sp_))
                elif len(sp_) == 1:
                    slice_ops.append((e, [None, sp_[0]]))     # a slice of one row view: the entry is the column range
    n = 0
    for e, sp_ in slice_ops:
        n += 1
        colspec = sp_[1]
        ok = False
        why = "column range %r" % (colspec,)
        if isinstance(colspec, tuple) and colspec[0] == "struct" and colspec[1] == "RangeFull":
            ok = True
        elif isinstance(colspec, tuple) and colspec[0] == "struct" and colspec[1] == "RangeFrom":
            st = dict(colspec[2]).get("start")
            st = st[1] if isinstance(st, tuple) and len(st) == 2 and st[0] == "P" else st
            la = single_atom(st) if isinstance(st, Poly) else None
            ok = la is not None and la[0] == "v" and (any(l[0] == "range" and l[1] == la[1] for l in e.loops) or la[1].endswith("@loop"))
            why = "columns %r.. of the row (open-ended: to the last column)" % (st,)
        ck.inst(rule, "%s:row-view#%d" % (fn.rsplit("::", 1)[-1], n), ok, e.site, why + " ; required pivot column .. (whole remaining row)")
    for kind, e, idx in ops:
        n += 1
        # innermost range loop supplies the column index
        rng = [l for l in e.loops if l[0] == "range"]
        inner = rng[-1] if rng else None
        colv = None
        if isinstance(idx, tuple) and idx[0] == "array":
            c = idx[1][1]
            colv = c[1] if isinstance(c, tuple) and c[0] == "P" else c
        ok = inner is not None and colv == var(inner[1]) and inner[3] == NCOLS and not inner[4]
        # lower bound: the pivot column variable of an enclosing loop (or a loop-carried column counter)
        lo_ok = False
        if ok:
            lo = inner[2]
            la = single_atom(lo) if isinstance(lo, Poly) else None
            # an enclosing loop's variable, or a loop-carried column counter of a `while` elimination
            lo_ok = la is not None and la[0] == "v" and (any(l[0] == "range" and l[1] == la[1] for l in e.loops[:-1]) or
                                                         (la[1].endswith("@loop") and any(l[0] in ("while", "loop") for l in e.loops[:-1])))
        ck.inst(rule, "%s:row-op#%d:%s" % (fn.rsplit("::", 1)[-1], n, kind), ok and lo_ok, e.site,
                "%s over columns %r..%r ; required pivot column .. number of columns (whole remaining row)" % (
                    kind, inner[2] if inner else None, inner[3] if inner else None))
    # Pivot search: the read-only view in which the non-zero element is looked for is a *column* - rows from the pivot row on, one column
    # (s![r.., c]); a row view (s![r, c..]) searches along the pivot row instead of below it
    ns_ = 0
    for e in t.events:
        if e.callee.endswith("::slice"):
            for sp_ in all_slice_specs(e.args[1]):
                if len(sp_) != 2:
                    continue
                rng_first = isinstance(sp_[0], tuple) and sp_[0] and sp_[0][0] == "struct"
                rng_second = isinstance(sp_[1], tuple) and sp_[1] and sp_[1][0] == "struct"
                if rng_first == rng_second:
                    continue        # a block view, not a line
                ns_ += 1
                col_view = rng_first and str(sp_[0][1]) == "RangeFrom"
                ck.inst(rule, "%s:pivot-search-view#%d" % (fn.rsplit("::", 1)[-1], ns_), col_view, e.site,
                        "the search view is s![%s, %s] ; required s![pivot row.., column]" % ("range" if rng_first else "index", "range" if rng_second else "index"))
    # Pivot range: when the pivots are walked by a counted loop, it covers every pivot 0..nrows (a loop that stops early leaves the last
    # pivot unchecked: a singular matrix is accepted)
    NROWS_ = app("proj0", app(DIM, var("array")))
    outer = []
    for kind, e, idx in ops:
        if e.loops and e.loops[0][0] == "range" and e.loops[0] not in outer:
            outer.append(e.loops[0])
    for e in t.events:
        if e.callee == "<return>" and e.loops and e.loops[0][0] == "range" and e.loops[0] not in outer:
            outer.append(e.loops[0])
    for i_, l_ in enumerate(outer):
        # (the echelon form of a wide matrix walks columns: 0..number of columns is its whole range)
        full = l_[2] == num(0) and not l_[4] and (l_[3] == NROWS_ or (fn.endswith("row_echelon_form") and l_[3] == NCOLS))
        ck.inst(rule, "%s:pivot-range#%d" % (fn.rsplit("::", 1)[-1], i_ + 1), full, b.span,
                "pivot loop over %r..%r%s ; required 0..number of rows (echelon form: or 0..number of columns)" % (l_[2], l_[3], "=" if l_[4] else ""))
    # ... and when they are walked by a `while` over a column cursor and a row cursor, the loop continues exactly while a column *and* a row
    # are left (evaluated on a grid of cursor positions and matrix sizes)
    whiles = []
    for kind, e, idx in ops:
        if e.loops and e.loops[0][0] == "while" and len(e.loops[0]) == 3 and e.loops[0] not in whiles:
            whiles.append(e.loops[0])
    if whiles:
        from .transformer import Grid
        from .symx import NotEvaluable
        from itertools import product as _prod
        for i_, l_ in enumerate(whiles):
            c_ = l_[1]
            names = sorted({a_[1] for a_ in c_.atoms_deep() if a_[0] == "v" and a_[1].endswith("@loop")}) if isinstance(c_, Poly) else []
            okw, whyw = False, "loop condition %r" % (c_,)
            if len(names) == 2:
                try:
                    okw = True
                    for x0, x1, n_, m_ in _prod(range(4), range(4), range(1, 4), range(1, 4)):
                        g = Grid({names[0]: x0, names[1]: x1}, {"dim": lambda *a_, n_=n_, m_=m_: (n_, m_)})
                        val = bool(g.value(c_))
                        # one cursor is compared with the number of columns, the other with the number of rows: both assignments are tried
                        w1 = (x0 < m_ and x1 < n_)
                        w2 = (x0 < n_ and x1 < m_)
                        if not hasattr(okw, "__len__"):
                            okw = [True, True]
                        okw[0] = okw[0] and val == w1
                        okw[1] = okw[1] and val == w2
                    okw = any(okw) if isinstance(okw, list) else okw
                except (NotEvaluable, TypeError) as ex:
                    okw, whyw = False, "loop condition not evaluable: %s" % ex
            ck.inst(rule, "%s:pivot-range-while#%d" % (fn.rsplit("::", 1)[-1], i_ + 1), bool(okw), b.span,
                    "the elimination continues exactly while column cursor < number of columns and row cursor < number of rows ; " + whyw[:200])
    # Pivoting: the row where the non-zero element was found is exchanged with the pivot row whenever they differ - the exchange may be
    # skipped for equal rows (a no-op) but must not be conditioned on anything else, in particular not on the rows being equal
    from .symx import canon_cond
    nsw = 0
    swaps_seen = set()
    for kind, e, idx in ops:
        if kind != "swap":
            continue
        unp_ = lambda c: c[1] if isinstance(c, tuple) and len(c) == 2 and c[0] == "P" else c
        i1, i2 = e.args[1], e.args[2]
        if not (isinstance(i1, tuple) and i1[0] == "array" and isinstance(i2, tuple) and i2[0] == "array"):
            continue
        r1, r2 = unp_(i1[1][0]), unp_(i2[1][0])
        key = (repr(r1), repr(r2))
        if key in swaps_seen:
            continue
        swaps_seen.add(key)
        nsw += 1
        bad = []
        for g, pol in e.guards:
            if not isinstance(g, Poly):
                continue
            c_, p_ = canon_cond(g, pol)
            ca_ = single_atom(c_)
            if ca_ is not None and atom_fn(ca_) in ("eq", "op_eq") and set(map(repr, atom_args(ca_))) == {repr(r1), repr(r2)}:
                if p_:
                    bad.append("the exchange runs only when the two rows are the same row")
            elif ca_ is not None and atom_fn(ca_) in ("eq", "op_eq") and len(atom_args(ca_)) == 2 and \
                    len({repr(r1), repr(r2)} & set(map(repr, atom_args(ca_)))) == 1:
                # `if s != j { swap rows s and k }`: a found row that happens to equal something else is left where it is
                other = [a for a in atom_args(ca_) if repr(a) not in (repr(r1), repr(r2))]
                bad.append("the exchange %s when a row equals %r, which is not the other row" % ("runs only" if p_ else "is skipped", other[0] if other else None))
            # (other path conditions - the search found a row, loop bounds - are not judged here)
        ck.inst(rule, "%s:pivot-exchange#%d" % (fn.rsplit("::", 1)[-1], nsw), not bad, e.site,
                "rows %r and %r are exchanged whenever they differ%s" % (r1, r2, (" ; but " + "; ".join(bad[:2])) if bad else ""))
    # Pivot search by position: a row found as `position()` within the view s![a.., c] is row a + position (the view starts at row a)
    def _polys(v):
        if isinstance(v, Poly):
            yield v
            for mono in v.t:
                for a_, _ in mono:
                    if a_[0] == "f":
                        for k_ in a_[2:]:
                            yield from _polys(k_)
        elif isinstance(v, (tuple, list)):
            for x_ in v:
                yield from _polys(x_)
    npos, seen_pos = 0, set()
    for kind, e, idx in ops:
        if kind != "swap":
            continue
        for p_ in _polys(list(e.args[1:3])):
            for mono, c_ in p_.t.items():
                if len(mono) != 1 or mono[0][1] != 1:
                    continue
                a_ = mono[0][0]
                if not (a_[0] == "f" and atom_fn(a_) == "payload0" and isinstance(atom_args(a_)[0], Poly)):
                    continue
                ia = single_atom(atom_args(a_)[0])
                if ia is None or atom_fn(ia) != "std::iter::Iterator::position" or "::slice(" not in repr(ia)[:400]:
                    continue
                specs = [sp_ for sp_ in all_slice_specs(ia) if len(sp_) == 2 and isinstance(sp_[0], tuple) and sp_[0] and sp_[0][0] == "struct"
                         and str(sp_[0][1]) == "RangeFrom"]
                if not specs or repr(a_) in seen_pos:
                    continue
                seen_pos.add(repr(a_))
                st = dict(specs[0][0][2]).get("start")
                st = st[1] if isinstance(st, tuple) and len(st) == 2 and st[0] == "P" else st
                rest = p_ - Poly.atom(a_) * Poly.const(c_)
                npos += 1
                ck.inst(rule, "%s:pivot-search-offset#%d" % (fn.rsplit("::", 1)[-1], npos), c_ == 1 and isinstance(st, Poly) and rest == st, e.site,
                        "the row found at position p of the view that starts at row %r is taken to be row %r + p ; required the start of the view + p" % (st, rest))
    # Pivot value: an element of a row that takes part in the exchange, read into a local and used by a later row operation, is read
    # *after* the exchange (read before it, the local holds the element of the row that was there before: for a row found further
    # down it is the zero the search skipped, and the elimination divides by it)
    swaps_ = [(e, idx) for kind, e, idx in ops if kind == "swap"]
    npv = 0
    if swaps_:
        reads_ = [e for e in t.events if e.callee == "<read>"]
        unp_ = lambda c: c[1] if isinstance(c, tuple) and len(c) == 2 and c[0] == "P" else c
        swap_rows = set()
        for e, idx in swaps_:
            for a_ in e.args[1:3]:
                if isinstance(a_, tuple) and a_ and a_[0] == "array":
                    swap_rows.add(repr(unp_(a_[1][0])))
        seen_ = set()
        for kind, e, idx in ops:
            if kind != "store":
                continue
            for a_ in _array_reads(e.args[1]):
                row_ = repr(unp_(a_[3][1][0]))
                if row_ not in swap_rows:
                    continue
                earlier = [r for r in reads_ if r.seq < e.seq and isinstance(r.args[0], Poly) and single_atom(r.args[0]) == a_]
                # (the value a local holds is that of the *latest* read of the element before the row operation: an earlier test of
                # the same element - `if !array[[j, j]].is_zero()` before the search - is re-read after the exchange)
                earlier.sort(key=lambda r: r.seq)
                latest = earlier[-1:] 
                stale = [r for r in latest if any(r.seq < s_.seq < e.seq for s_, _ in swaps_)]
                fresh = [r for r in latest if r not in stale]
                if not earlier or (r_ := (stale or fresh)[0]).site in seen_:
                    continue
                seen_.add(r_.site)
                npv += 1
                ck.inst(rule, "%s:pivot-read-after-exchange#%d" % (fn.rsplit("::", 1)[-1], npv), not stale, r_.site,
                        "the element %s used by the row operation is read %s the rows are exchanged ; required after (the value before "
                        "the exchange belongs to the other row)" % ("array[[%s, %s]]" % (row_, unp_(a_[3][1][1])), "before" if stale else "after"))
    # Row *selection* of the eliminations: `row_t -= x * row_p` must be applied to exactly the rows on one side of the pivot row p:
    # t in p+1..nrows (rows below) or t in 0..p (rows above). A range anchored at anything else (e.g. the column counter) skips
    # rows that still hold a one in the pivot column or touches rows that are already reduced.
    NROWS = app("proj0", app(DIM, var("array")))
    from .symx import contains_atom, vkey
    ne = 0
    for kind, e, idx in ops:
        if kind != "store" or not (isinstance(idx, tuple) and idx[0] == "array"):
            continue
        unp = lambda c: c[1] if isinstance(c, tuple) and len(c) == 2 and c[0] == "P" else c
        trow = unp(idx[1][0])
        src = e.args[1]
        # pivot row: the row index of a read array[[p, col]] with p != target row
        prow = None
        stack = [src]
        while stack:
            x = stack.pop()
            if isinstance(x, Poly):
                for mono in x.t:
                    for a_, _ in mono:
                        if a_[0] == "f":
                            if atom_fn(a_) == "index" and isinstance(a_[3], tuple) and a_[3][0] == "array":
                                r0 = unp(a_[3][1][0])
                                if r0 != trow:
                                    prow = r0
                            stack.extend(k[1] for k in a_[2:] if isinstance(k, tuple) and len(k) == 2 and k[0] == "P")
            elif isinstance(x, tuple) and len(x) == 3 and x[0] == "R":
                stack.extend([x[1], x[2]])
            elif hasattr(x, "n") and hasattr(x, "d"):
                stack.extend([x.n, x.d])
        if prow is None:
            continue
        ta = single_atom(trow) if isinstance(trow, Poly) else None
        rl = [l for l in e.loops if l[0] == "range" and ta is not None and ta[0] == "v" and l[1] == ta[1]]
        ne += 1
        ok = False
        why = "target row is not a loop variable"
        if rl:
            lo, hi, incl = rl[0][2], rl[0][3], rl[0][4]
            below = lo == prow + num(1) and hi == NROWS and not incl
            above = lo == num(0) and hi == prow and not incl
            ok = below or above
            why = "row %r -= x * row %r for rows %r..%r ; required exactly the rows below (p+1..nrows) or above (0..p) the pivot row" % (trow, prow, lo, hi)
        ck.inst(rule, "%s:elimination-rows#%d" % (fn.rsplit("::", 1)[-1], ne), ok, e.site, why)
    ck.floor(rule, "row operations in " + fn, n, floor)
