"""C09 - systematic conversion: never panics on the stated domain; copies whole input columns; error mapping."""
import re

from ..extract import AnalysisError
from ..facts import walk, strip, callee
from ..symx import Poly, Unsupported, app, var, num, single_atom, atom_fn, atom_args
from ..panics import Audit, SM, matrix_dims

LEVEL = "other"
FN = "systematic::parity_to_systematic"


def run(ck, F, tier):
    ck.explanation = (
        "Decided (S): Y1 never-panics on the domain 1 <= rows <= cols: every panic-capable site reachable from "
        "parity_to_systematic (incl. linalg::row_echelon_form) is discharged by the path condition or a reviewed argument, and "
        "each explicit `assert!(k < m-n)` must sit on the path that writes a free column (same loops and guards as the insert it "
        "protects); Y2 copy discipline: every insert into the result takes its row index from iter_col(s) of the *input* matrix and "
        "its column from {write pointer k, m-n+j}; k advances once per free column; the result has the input's dimensions; "
        "Y3 error mapping: ParityOverdetermined exactly under rows > cols, NotFullRank exactly when the last echelon row has no "
        "non-zero entry. NOT decided: 'error iff rank-deficient', invertibility of the last columns, bijectivity of the column map "
        "(correctness of elimination for all matrices).")
    ck.rule("Y1", "parity_to_systematic: no reachable panic site is left undischarged for 1 <= rows <= cols")
    ck.rule("Y1b", "each assert!(k < m-n) guards exactly the write of a free column (same loop nest and guards as an insert(u, k))")
    ck.rule("Y2", "inserts copy rows of input column s into column k or m-n+j of a same-sized matrix; k += 1 once per free column")
    ck.rule("Y3", "error values are returned under exactly the documented conditions")
    ck.rule("Y4", "every row operation of the elimination spans the row from the pivot column to the last column")
    ck.rule("Y5", "the encoder that must accept the result: row operations, pivot range, pivot search and pivot exchange of linalg::gauss_reduction (the rule C02-S5, run here)")
    ck.assume("domain of the property: at least one row")
    H = var("h")
    Rr, Cc = app(SM + "num_rows", H), app(SM + "num_cols", H)
    reviewed = {
        "call:slice": (1, "row_echelon_form: s![k.., j] with k < n and j < m by the while condition"),
        "call:swap": (1, "row_echelon_form: swap([s,t],[k,t]) with s = k + offset found inside the slice k.., t in j..m"),
        "ovl-div": (1, "row_echelon_form: divisor x = array[[k,j]] is the pivot just located as non-zero by find_map and swapped into row k"),
        "assert:cond": (1, "assert!(found): the rank test above guarantees every echelon row has a pivot at or after j0"),
        "assert:lt": (2, "assert!(k < m-n) next to the write of a free column: under full rank there are exactly m-n free columns and k counts the ones written so far"),
    }
    a = Audit(ck, F, "Y1", FN, ["h"], reviewed=reviewed, domain=[(num(1), Rr, False)]).run()
    ck.floor("Y1", "sites reachable from parity_to_systematic", len(a.tracer.sites), 25)
    sites = a.tracer.sites
    # ---- Y1b ------------------------------------------------------------------------
    asserts = [s for s in sites if s["kind"] == "assert" and (atom_fn(single_atom(s["vals"][0]) or ()) if isinstance(s["vals"][0], Poly) else None) == "lt"]
    # (inserts may sit in a private helper that copies one column: helpers are inlined by the audit tracer)
    inserts = [s for s in sites if s["kind"] == "contract" and s["detail"].endswith("::insert")]
    for i, s in enumerate(asserts):
        kv = atom_args(single_atom(s["vals"][0]))[0]
        ctx = (repr(s["loops"]), repr(s["guards"]))
        # an insert whose column is the asserted variable, in the same loops (plus its own iter_col loop) and under the same guards + the assert
        ok = False
        for ins in inserts:
            if ins["vals"][2] == kv and repr(ins["loops"][:len(s["loops"])]) == ctx[0] and len(ins["loops"]) == len(s["loops"]) + 1:
                g = [x for x in ins["guards"] if not (x[0] == s["vals"][0] and x[1])]
                if repr(g) == ctx[1]:
                    ok = True
        ck.inst("Y1b", "assert-guards-write#%d" % (i + 1), ok, s["sp"],
                "assert!(%r < m-n) is evaluated exactly where a free column is written to column %r" % (kv, kv) if ok else
                "assert!(%r < m-n) is evaluated on a path that does not write a free column (loops %s, guards %s): it can fire although "
                "no column is about to be written" % (kv, [l[:2] for l in s["loops"]], [(repr(g)[:60], p) for g, p in s["guards"]][-2:]))
    ck.floor("Y1b", "assert!(k < m-n) sites", len(asserts), 2)
    # ---- Y2 ---------------------------------------------------------------------------
    news = [s for s in sites if s["kind"] == "contract" and s["detail"] == SM + "new"]
    ck.inst("Y2", "result-dims", len(news) == 1 and news[0]["vals"] == [Rr, Cc], news[0]["sp"] if news else F.body(FN).span,
            "result allocated as new(num_rows(h), num_cols(h))")
    ck.floor("Y2", "insert sites", len(inserts), 3)
    for i, ins in enumerate(inserts):
        hv, u, dest = ins["vals"]
        ua = single_atom(u) if isinstance(u, Poly) else None
        src_ok = False
        scol = None
        if ua and atom_fn(ua) == "elem":
            src = atom_args(ua)[0]
            sa = single_atom(src) if isinstance(src, Poly) else None
            if sa and atom_fn(sa) == SM + "iter_col" and atom_args(sa)[0] == H:
                src_ok = True
                scol = atom_args(sa)[1]
        dims_ok = matrix_dims(hv) == (Rr, Cc)
        dest_kind = None
        da = single_atom(dest) if isinstance(dest, Poly) else None
        if da and da[0] == "v" and "@" in da[1]:
            dest_kind = "write-pointer"      # a loop-carried local (whatever its name)
        else:
            for l in ins["loops"]:
                if l[0] == "range" and dest == Cc - Rr + var(l[1]) and l[2] == num(0) and l[3] == Rr:
                    dest_kind = "pivot column m-n+j"
        ck.inst("Y2", "insert#%d" % (i + 1), src_ok and dims_ok and dest_kind is not None, ins["sp"],
                "insert(row = %r, col = %r): rows come from input column %r, destination is the %s" % (u, dest, scol, dest_kind))
    # k += 1 once per free-column write: the arith sites `k + 1`
    incs = [s for s in sites if s["kind"] == "arith" and s["detail"] == "Add" and s["fn"] == FN and s["vals"][1] == num(1)
            and isinstance(s["vals"][0], Poly) and any(s["vals"][0] == ins["vals"][2] for ins in inserts)]
    freew = [ins for ins in inserts if single_atom(ins["vals"][2]) is not None and single_atom(ins["vals"][2])[0] == "v" and "@" in single_atom(ins["vals"][2])[1]]
    okk = len(incs) == len(freew) and all(
        any(repr(inc["loops"]) == repr(w["loops"][:-1]) and
            repr([g for g in inc["guards"]]) == repr([g for g in w["guards"]]) for inc in incs) for w in freew)
    ck.inst("Y2", "pointer-advance", okk, incs[0]["sp"] if incs else F.body(FN).span,
            "%d free-column writes, %d `k += 1`, each in the same branch as its write" % (len(freew), len(incs)))
    # ---- Y3 ---------------------------------------------------------------------------
    rets = [e for e in a.tracer.events if e.callee == "<return>"]
    seen = {}
    for e in rets:
        v = e.args[0]
        name = None
        if isinstance(v, tuple) and v and v[0] == "ctor" and v[1] == "Err" and isinstance(v[2][0], tuple) and v[2][0][0] == "variant":
            name = v[2][0][1]
        seen[name] = e
    e1 = seen.get("ParityOverdetermined")
    ok1 = e1 is not None and [g for g in e1.guards] == [(app("lt", Cc, Rr), True)] and not e1.loops
    ck.inst("Y3", "ParityOverdetermined", ok1, e1.site if e1 else F.body(FN).span, "returned exactly when num_rows > num_cols (first test)")
    e2 = seen.get("NotFullRank")
    ok2 = False
    if e2 is not None and len(e2.guards) == 2 and e2.guards[0] == (app("lt", Cc, Rr), False):
        from ..trace import quantifier
        q = quantifier(F, *e2.guards[1], tracer=a.tracer)
        full = zero_pred = False
        if q is not None and q[0] == "forall":
            d = q[1]
            while isinstance(d, tuple) and d and d[0] in ("iterdesc", "rev"):
                d = d[1]
            full = isinstance(d, tuple) and d[0] == "range" and d[1] == ("P", num(0)) and d[2] == ("P", Cc) and d[3] is False
            # the predicate: entry [last echelon row, q] is zero
            pa = single_atom(q[2]) if isinstance(q[2], Poly) else None
            if pa and atom_fn(pa) in ("op_eq", "eq") and q[3] is True:
                sides = atom_args(pa)
                zero_pred = any("Zero::zero" in repr(x) for x in sides) and any(
                    "index(" in repr(x) and repr(var("q")) in repr(x) and repr(Rr - num(1)).replace(" ", "") in repr(x).replace(" ", "") for x in sides)
        ok2 = full and zero_pred
    ck.inst("Y3", "NotFullRank", ok2, e2.site if e2 else F.body(FN).span,
            "returned exactly when no column j of the whole range 0..m has a non-zero entry in the last echelon row (the scan must cover every column)")
    # every source column is visited once: the column scan of a row resumes right after the previous pivot column (a cursor that starts
    # at 0 and is set to s + 1 exactly where a pivot column s is placed)
    T_ = a.tracer
    ins_ = [s_ for s_ in T_.sites if s_["kind"] == "contract" and s_["detail"].endswith("SparseMatrix::insert")]
    scan_ok, why_scan = False, "no placement inside a column scan found"
    scans = []
    for s_ in ins_:
        rl = [l for l in s_["loops"] if l[0] == "range"]
        if len(rl) >= 2 and rl[1] not in scans:
            scans.append(rl[1])
    if len(scans) == 1:
        _, sv, lo, hi, incl = scans[0][:5]
        la = single_atom(lo) if isinstance(lo, Poly) else None
        why_scan = "column scan %r..%r" % (lo, hi)
        if la is not None and la[0] == "v" and la[1].endswith("@loop") and hi == Cc and not incl:
            cname = la[1][:-5]
            inits = [v for k_, v in T_.carried_init.items() if k_.split("#")[0] == cname]
            sets = [st for st in T_.assign_sites if st[0].split("#")[0] == cname]
            init_ok = True if not inits else all(v == num(0) or (isinstance(v, Poly) and single_atom(v) is not None and single_atom(v)[1].startswith(cname)) for v in inits)
            set_ok = len(sets) == 1 and sets[0][1] == var(sv) + num(1) and any(l == scans[0] for l in sets[0][2])
            # the cursor moves exactly on the pivot path: the same path condition as the placement into the last columns
            piv = [s_ for s_ in ins_ if isinstance(s_["vals"][2], Poly) and "num_rows" in repr(s_["vals"][2]) and "num_cols" in repr(s_["vals"][2])]
            same_path = len(piv) >= 1 and set_ok and [(repr(g), p) for g, p in sets[0][3]] == [(repr(g), p) for g, p in piv[0]["guards"]]
            scan_ok = init_ok and set_ok and same_path
            why_scan = "columns are scanned from a cursor (%s) to the last column; cursor = s + 1 where the pivot column s is placed (%s), on the pivot path only (%s)" % (cname, set_ok, same_path)
    ck.inst("Y2", "scan-resumes-after-last-pivot", scan_ok, F.body(FN).span, why_scan)
    # the rank test and the column placement read the *echelon form*: at the top level of the function the statement that reduces the
    # array precedes the statement that can return NotFullRank (directly or through a private helper of the module)
    fbody = F.body(FN)
    top = fbody.value.get("stmts", []) + ([{"k": "expr", "e": fbody.value["e"]}] if fbody.value.get("e") is not None else [])

    def mentions(node, pred, depth=0):
        for x in walk(node):
            if pred(x):
                return True
            if depth < 2 and x.get("k") in ("call", "mcall"):
                hb = F.private_helper(callee(x) or "", "systematic::")
                if hb is not None and hb.hir and mentions(hb.value, pred, depth + 1):
                    return True
        return False
    is_ech = lambda x: x.get("k") in ("call", "mcall") and (callee(x) or "").endswith("linalg::row_echelon_form")
    is_nfr = lambda x: x.get("k") == "path" and (x.get("def") or "").endswith("Error::NotFullRank")
    i_ech = [i for i, st_ in enumerate(top) if mentions(st_.get("init") or st_.get("e") or st_, is_ech)]
    i_nfr = [i for i, st_ in enumerate(top) if mentions(st_.get("init") or st_.get("e") or st_, is_nfr)]
    ord_ok = len(i_ech) == 1 and bool(i_nfr) and i_ech[0] < min(i_nfr)
    ck.inst("Y3", "rank-test-on-echelon-form", ord_ok, fbody.span,
            "row_echelon_form(&mut a) is the top-level statement %s; NotFullRank can first be returned by statement %s (the test must read the reduced array)" % (i_ech, i_nfr[:1]))
    from ..linalg_rules import row_operation_width
    row_operation_width(ck, F, "Y4", "linalg::row_echelon_form", floor=2)
    # "the systematic encoder always accepts the result" also rests on the encoder's own elimination reading its pivots correctly
    from ..report import RuleAlias
    row_operation_width(RuleAlias(ck, "Y5"), F, "S5", "linalg::gauss_reduction")
    ck.inst("Y3", "no-other-error", set(seen) <= {"ParityOverdetermined", "NotFullRank"}, F.body(FN).span, "only the two documented errors are returned early")
