"""C12 - the BER chain hands the decoder correctly ordered, correctly scaled LLRs (stage composition and wiring)."""
import re
from fractions import Fraction

from ..extract import AnalysisError
from ..facts import walk, strip, callee, calls_to
from ..symx import SymEval, Poly, Rat, Unsupported, app, var, num, single_atom, atom_fn, atom_args, vkey, contains_atom
from ..trace import Tracer

LEVEL = "other"
BER = "simulation::ber::"
W = BER + "Worker::<Mod>::"
T = BER + "BerTest::<Mod, Dec>::"
ASREF = "std::option::Option::<T>::as_ref"


def M(field, some_fn, none_val):
    s = var(field)      # (borrowed views of the option - as_ref() - are the same optional value)
    p = app("payload0", s)
    return app("match", s, ((repr(("Some", "_")), some_fn(p)), (repr("None"), none_val)))


def run(ck, F, tier):
    ck.explanation = (
        "Decided (S): B1 the value passed to decoder.decode in Worker::simulate is exactly "
        "depuncture? . deinterleave? . demodulate . add_noise(in place) . modulate . interleave? . puncture? . encode(gf2(random message)) "
        "with each optional stage and its inverse guarded by the same Option field, None arms = identity, the message compared is the one "
        "encoded; B2 depuncture fills removed blocks with Default (0.0) and writes only kept blocks; B3 AwgnChannel and the demodulator "
        "get the same noise_sigma = sqrt(0.5/(rate * BITS_PER_SYMBOL * 10^(0.1 dB))), rate = k/n with n counted after puncturing, "
        "BITS_PER_SYMBOL = 1 (BPSK) / 3 (8PSK); B4 noise is Normal(0, sigma) sampled once per real sample and twice (independent draws) per "
        "complex sample, added to every element; the channel trait is sealed to these two types; B5 the reported n, n_cw, k, rate are the "
        "fields computed in new(). NOT decided: that the sampled noise is Gaussian with that variance and independent (a statistical "
        "property of rand_distr).")
    ck.rule("B1", "stage order as a def-use chain (symbolic value of the decoder's input)")
    ck.rule("B2", "neutral depuncturing")
    ck.rule("B3", "noise / demodulator wiring and the Eb/N0 -> sigma formula; rate after puncturing")
    ck.rule("B4", "channel shape")
    ck.rule("B6", "modulator/demodulator agreement (the rules of C14: constellation, bit partition of every LLR, bit order, scales, max*)")
    ck.rule("B5", "reported sizes")

    # ---- B1 ---------------------------------------------------------------------------------------
    sb = F.body(W + "simulate")
    # private helpers of Worker that only stage the chain (e.g. "transmitted bits", "decoder LLRs") are expanded
    tr = Tracer(F, r"decoder::LdpcDecoder::decode|simulation::channel::Channel::add_noise", mode="int",
                inline=lambda p: F.private_helper(p, W, keep=re.escape(W) + r"(random_message|gf2_array|count_bit_errors)"))
    env = {}
    for p, nm in zip(sb.params, ("self", "rng")):
        tr.bind(p, var(nm), env)
    try:
        ret = tr.eval(sb.value, env)
    except Unsupported as e:
        raise AnalysisError("Worker::simulate: unreadable shape: %s" % e)
    dec = [e for e in tr.events if e.callee.endswith("::decode")]
    noise = [e for e in tr.events if e.callee.endswith("::add_noise")]
    if len(dec) != 1 or len(noise) != 1:
        raise AnalysisError("Worker::simulate: expected one decode and one add_noise call")
    MSG = app(W + "random_message", var("rng"), var("self.k"))
    CW = app("encoder::Encoder::encode", var("self.encoder"), app(W + "gf2_array", MSG))
    PU, IL = "simulation::puncturing::Puncturer::", "simulation::interleaving::Interleaver::"
    T1 = M("self.puncturer", lambda p: app("try", app(PU + "puncture", p, CW)), CW)
    T2 = M("self.interleaver", lambda i: app(IL + "interleave", i, T1), T1)
    SYM = app("simulation::modulation::Modulator::modulate", var("self.modulator"), T2)
    ok_noise = noise[0].args[:3] == [var("self.channel"), var("rng"), SYM]
    SYMN = app("mutated", SYM)
    X2 = app("simulation::modulation::Demodulator::demodulate", var("self.demodulator"), SYMN)
    X1 = M("self.interleaver", lambda i: app(IL + "deinterleave", i, X2), X2)
    X0 = M("self.puncturer", lambda p: app("try", app(PU + "depuncture", p, X1)), X1)
    got = dec[0].args[1]
    ck.inst("B1", "simulate:forward-chain", ok_noise, noise[0].site,
            "add_noise is applied in place to modulate(interleave?(puncture?(encode(gf2_array(random_message(k)))))) [%s]" % ok_noise,
            {"symbols": repr(noise[0].args[2])[:300]})
    ck.inst("B1", "simulate:inverse-chain", got == X0 and dec[0].args[0] == var("self.decoder") and dec[0].args[2] == var("self.max_iterations"),
            dec[0].site, "decode(self.decoder, depuncture?(deinterleave?(demodulate(noisy symbols))), self.max_iterations) with each optional stage "
            "guarded by the same field as its forward counterpart [%s]" % (got == X0), {"llrs": repr(got)[:300]})
    # bit-error accounting compares the encoded message with the decoded word
    rv = ret
    okb = False
    why = "result is not Ok(WorkerResultOk{..})"
    if isinstance(rv, tuple) and rv[0] == "ctor" and rv[1] == "Ok" and isinstance(rv[2][0], tuple) and rv[2][0][0] == "struct":
        fl = rv[2][0][2]
        be = fl.get("bit_errors")
        from ..idioms import mismatch_count
        pair = mismatch_count(F, be, tr)
        DEC = app("decoder::LdpcDecoder::decode", *dec[0].args)
        # the decoded word: the codeword field of the decoder's output, Ok and Err alike
        okb = pair is not None and MSG in pair and app(".codeword", app("either_payload", DEC)) in pair
        fe = fl.get("frame_error")
        fd = fl.get("false_decode")
        okf = fe == app("lt", num(0), be) and single_atom(fd) is not None and atom_fn(single_atom(fd)) == "and" and atom_args(single_atom(fd))[0] == fe
        why = "bit_errors = count of positions where message and decoded differ over zip(message, decoded) (systematic part only): %s; frame_error = bit_errors > 0 and false_decode = frame_error && success: %s" % (okb, okf)
        okb = okb and okf
    ck.inst("B1", "simulate:bit-errors", okb, sb.span, why)

    # ---- B2 ---------------------------------------------------------------------------------------
    db = F.body("simulation::puncturing::Puncturer::depuncture")
    td = Tracer(F, r"std::vec::from_elem|core::slice::<impl \[T\]>::copy_from_slice", mode="int")
    envd = {}
    for p, nm in zip(db.params, ("self", "llrs")):
        td.bind(p, var(nm), envd)
    rd = td.eval(db.value, envd)
    al = [e for e in td.events if e.callee.endswith("from_elem")]
    cp = [e for e in td.events if e.callee.endswith("copy_from_slice")]
    from ..trace import plain_local
    # assignments to other plain locals (a running offset, a slice cursor over the input) do not write the output vector
    elsewhere = lambda n: plain_local(n["l"]) is not None and "Vec<" not in strip(n["l"]).get("ty", "Vec<")
    muts = [n for n in walk(db.value) if (n.get("k") in ("assign", "assignop") and not elsewhere(n)) or (n.get("k") == "mcall" and n.get("recv_adj", "").startswith("&mut") and "output" in repr(n["recv"])[:200])]
    ok = len(al) == 1 and al[0].args[0] == app("std::default::Default::default") and len(cp) == 1 and len(muts) <= 1
    ck.inst("B2", "depuncture:neutral-fill", ok, db.span, "output = vec![T::default(); ..]; the only write to it is the copy of kept blocks (%d copy site, %d mutation sites)" % (len(cp), len(muts)))

    # ---- B3 ---------------------------------------------------------------------------------------
    rb = F.body(T + "do_run")
    # private helpers of BerTest (e.g. an extracted Eb/N0 -> sigma function) are expanded; make_worker stays the observed call
    helpers = [p for p in F.bodies if p.startswith(T) and not p.endswith("make_worker") and F.private_helper(p, T) is not None and p != rb.path]
    tr2 = Tracer(F, re.escape(T) + r"make_worker", mode="real", inline=lambda p: F.bodies.get(p) if p in helpers else None)
    env = {}
    tr2.bind(rb.params[0], var("self"), env)
    # make_worker is called inside the repeat_with closure: evaluate that closure explicitly
    try:
        tr2.eval(rb.value, env)
    except Unsupported as e:
        raise AnalysisError("do_run: unreadable shape: %s" % e)
    mk = [e for e in tr2.events if e.callee.endswith("make_worker")]
    if not mk:
        # find the closure and apply it in the environment of the loop body
        from ..panics import SiteTracer
        st = SiteTracer(F, contracts=re.escape(T) + r"make_worker", no_inline=(r"(?!(?:%s)$)" % "|".join(re.escape(h) for h in helpers) if helpers else "") + r"(?:simulation::.*|std::.*)", mode="real")
        env = {}
        st.bind(rb.params[0], var("self"), env)
        st.fn_stack.append(rb.path)
        st.eval(rb.value, env)
        mk = [type("E", (), {"args": s["vals"], "site": s["sp"]}) for s in st.sites if s["kind"] == "contract"]
    ok = False
    why = "make_worker call not found"
    if len(mk) == 1:
        sig = mk[0].args[1]
        a = single_atom(sig) if isinstance(sig, Poly) else None
        if a and atom_fn(a) == "sqrt":
            k = a[2]
            inner = Rat(k[1], k[2]) if isinstance(k, tuple) and k[0] == "R" else (k[1] if isinstance(k, tuple) and k[0] == "P" else None)
            DB = None
            for at in (inner.d.atoms() if isinstance(inner, Rat) else set()):
                if atom_fn(at) == "powf":
                    DB = Poly.atom(at)
            if DB is not None:
                base, ex = atom_args(single_atom(DB))
                ex_ok = base == num(10) and isinstance(ex, Poly) and len(ex.t) == 1 and list(ex.t.values())[0] == Fraction(1, 10) and \
                    ("ebn0_db" in repr(ex) or contains_atom(vkey(ex), lambda a_: a_ == ("v", "self.ebn0s_db")))
                want = Rat(num(Fraction(1, 2)), var("self.rate") * var("simulation::modulation::Modulation::BITS_PER_SYMBOL") * DB)
                ok = inner == want and ex_ok
                why = "noise_sigma = sqrt(%r) ; required sqrt(0.5 / (rate * BITS_PER_SYMBOL * 10^(0.1*EbN0_dB)))" % (inner,)
    ck.inst("B3", "do_run:sigma-formula", ok, mk[0].site if mk else rb.span, why)
    mb = F.body(T + "make_worker")
    tm = Tracer(F, "NONE", mode="real")
    env = {}
    for p, nm in zip(mb.params, ("self", "noise_sigma", "results_tx")):
        tm.bind(p, var(nm), env)
    mv = tm.eval(mb.value, env)
    ok = False
    if isinstance(mv, tuple) and mv[0] == "tuple" and isinstance(mv[1][0], tuple) and mv[1][0][0] == "struct":
        wf = mv[1][0][2]
        ok = wf.get("channel") == app("simulation::channel::AwgnChannel::new", var("noise_sigma")) and \
            wf.get("demodulator") == app("simulation::modulation::Demodulator::from_noise_sigma", var("noise_sigma")) and \
            wf.get("k") == var("self.k") and wf.get("max_iterations") == var("self.max_iterations") and \
            all(wf.get(f) == app("std::clone::Clone::clone", var("self." + f)) or wf.get(f) == var("self." + f) for f in ("encoder", "puncturer", "interleaver", "modulator"))
    ck.inst("B3", "make_worker:same-sigma", ok, mb.span, "channel = AwgnChannel::new(noise_sigma) and demodulator = from_noise_sigma(noise_sigma) from the same parameter; "
            "encoder/puncturer/interleaver/modulator/k/max_iterations copied from the test")
    nb = F.body(T + "new")
    tn = Tracer(F, "NONE", mode="real")
    env = {}
    names = ("h", "decoder_implementation", "puncturing_pattern", "interleaving_columns", "max_frame_errors", "max_iterations", "ebn0s_db", "reporter", "bch_max_errors")
    for p, nm in zip(nb.params, names):
        tn.bind(p, var(nm), env)
    nv = tn.eval(nb.value, env)
    ok = False
    fields = {}
    if isinstance(nv, tuple) and nv[0] == "ctor" and nv[1] == "Ok" and isinstance(nv[2][0], tuple) and nv[2][0][0] == "struct":
        fields = nv[2][0][2]
        SMx = "sparse::SparseMatrix::"
        K = app(SMx + "num_cols", var("h")) - app(SMx + "num_rows", var("h"))
        NCW = app(SMx + "num_cols", var("h"))
        n_v = fields.get("n")
        rate_v = fields.get("rate")
        k_ok = fields.get("k") == K and fields.get("n_cw") == NCW
        # n = round(n_cw / puncturer_rate) as usize ; rate = k / n
        na = single_atom(n_v) if isinstance(n_v, Poly) else None
        n_ok = False
        if na and atom_fn(na) == "cast_usize":
            r = single_atom(atom_args(na)[0])
            if r and atom_fn(r) == "round":
                q = r[2]
                qq = Rat(q[1], q[2]) if isinstance(q, tuple) and q[0] == "R" else None
                n_ok = qq is not None and qq.n == NCW and "simulation::puncturing::Puncturer::rate" in repr(qq.d) and "1" in repr(qq.d)
        rate_ok = isinstance(rate_v, Rat) and rate_v == Rat(K, n_v)
        ok = k_ok and n_ok and rate_ok
    ck.inst("B3", "new:rate-after-puncturing", ok, nb.span,
            "k = num_cols - num_rows, n_cw = num_cols, n = round(n_cw / puncturer.rate()) (1.0 without puncturing), rate = k / n")
    for name, want in (("Bpsk", "1.0"), ("Psk8", "3.0")):
        got = None
        for im in F.impls_of("simulation::modulation::Modulation"):
            if im["self_ty"].endswith("::" + name):
                for mm in im["members"]:
                    if mm["name"] == "BITS_PER_SYMBOL":
                        got = mm.get("float")
        ck.inst("B3", "bits-per-symbol:" + name, got == want, F.body("simulation::modulation::%sModulator::new" % name).span,
                "%s::BITS_PER_SYMBOL = %s (required %s; the modulator consumes %s bit(s) per symbol, see C14)" % (name, got, want, want[0]))

    # ---- B4 ---------------------------------------------------------------------------------------
    CH = "simulation::channel::"
    cb = F.body(CH + "AwgnChannel::new")
    tcn = Tracer(F, "NONE", mode="real")
    env = {}
    tcn.bind(cb.params[0], var("noise_sigma"), env)
    cv = tcn.eval(cb.value, env)
    ok = isinstance(cv, tuple) and cv[0] == "struct" and repr(cv[2].get("distr")).startswith("std::result::Result::<T, E>::unwrap(rand_distr::Normal::<F>::new(0, noise_sigma))")
    ck.inst("B4", "channel:normal(0,sigma)", ok, cb.span, "distr = Normal::new(0.0, noise_sigma).unwrap(): %r" % (cv[2].get("distr") if isinstance(cv, tuple) else cv,))
    SAMPLE = "rand_distr::Distribution::sample"
    fb = F.body("<f64 as %sChannelType>::noise" % CH)
    tf = Tracer(F, "NONE", mode="real", inline=lambda p: F.private_helper(p, CH))
    env = {}
    for p, nm in zip(fb.params, ("ch", "rng")):
        tf.bind(p, var(nm), env)
    fv = tf.eval(fb.value, env)
    ck.inst("B4", "noise:f64", fv == app(SAMPLE, var("ch.distr"), var("rng")), fb.span, "real noise = one sample of the channel's distribution: %r" % (fv,))
    xb = F.body("<num_complex::Complex<f64> as %sChannelType>::noise" % CH)
    # (a private helper drawing one sample is expanded; the draws are counted as traced calls, not as source occurrences)
    tf = Tracer(F, re.escape(SAMPLE), mode="real", inline=lambda p: F.private_helper(p, CH))
    env = {}
    for p, nm in zip(xb.params, ("ch", "rng")):
        tf.bind(p, var(nm), env)
    xv = tf.eval(xb.value, env)
    nsamp = len([e for e in tf.events if e.callee == SAMPLE and not e.loops])
    xa = single_atom(xv) if isinstance(xv, Poly) else None
    parts = None
    if xa is not None and atom_fn(xa) == "num_complex::Complex::<T>::new":
        parts = list(atom_args(xa))
    elif isinstance(xv, tuple) and len(xv) == 3 and xv[0] == "struct" and xv[1] == "Complex" and set(xv[2]) == {"re", "im"}:
        parts = [xv[2]["re"], xv[2]["im"]]          # Complex { re, im } literal
    ok = parts is not None and nsamp == 2 and \
        all(isinstance(a, Poly) and single_atom(a) is not None and atom_fn(single_atom(a)) == SAMPLE and "ch.distr" in repr(a) for a in parts)
    ck.inst("B4", "noise:complex", ok, xb.span, "complex noise = Complex::new(sample, sample) with two separate draws (%d sample call sites)" % nsamp)
    ab = F.body("<%sAwgnChannel as %sChannel>::add_noise" % (CH, CH))
    ta = Tracer(F, "NONE", mode="real")
    env = {}
    for p, nm in zip(ab.params, ("self", "rng", "symbols")):
        ta.bind(p, var(nm), env)
    ta.eval(ab.value, env)
    asg = [e for e in ta.events if e.callee == "<assign>"]
    ok = len(asg) == 1 and asg[0].node.get("op", "").startswith("Add") and len(asg[0].loops) == 1 and asg[0].loops[0][2] == ("elems", var("symbols")) \
        and asg[0].args[1] == app(CH + "ChannelType::noise", var("self"), var("rng")) and not asg[0].guards
    ck.inst("B4", "add_noise", ok, ab.span, "for x in symbols.iter_mut(): *x += T::noise(self, rng) (every element, fresh draw each)")
    tr_ = [t for t in F.items["traits"] if t["path"] == CH + "ChannelType"]
    sealed = bool(tr_) and any("sealed::Sealed" in s for s in tr_[0]["supers"])
    impls = sorted(i["self_ty"] for i in F.impls_of(CH + "ChannelType"))
    ck.inst("B4", "channel-type-sealed", sealed and impls == ["f64", "num_complex::Complex<f64>"], cb.span,
            "ChannelType has a private Sealed supertrait and exactly the impls %s" % impls)

    # ---- B5 ---------------------------------------------------------------------------------------
    for m_ in ("n", "n_cw", "k", "rate"):
        bb = F.body("<%sBerTest<Mod, Dec> as simulation::factory::Ber>::%s" % (BER, m_))
        e = SymEval(F)
        env = {}
        e.bind(bb.params[0], var("self"), env)
        v = e.eval(bb.value, env)
        ck.inst("B5", "reported:" + m_, v == var("self." + m_) and m_ in fields, bb.span, "Ber::%s() returns the field `%s` computed in new()" % (m_, m_))
    # B6: "modulation and its inverse cancel" needs the demodulator's hypothesis sets to be the modulator's constellation points
    from ..report import RuleAlias
    from . import c14
    c14.run(RuleAlias(ck, "B6"), F, "quick")
    if tier == "thorough":
        from ..witness import check_witnesses
        check_witnesses(ck, "B4", ["W2", "W3"])
