"""C07 - CCSDS AR4JA and C2 parity-check matrices conform to CCSDS 131.0-B (tables and placement)."""
import json
import re
import os

from ..extract import AnalysisError, VERIF
from ..facts import walk, strip, callee
from ..symx import SymEval, Poly, Unsupported, app, var, num, subst, vkey
from ..trace import Tracer

LEVEL = "other"
AR = "codes::ccsds::AR4JACode"
REF = os.path.join(VERIF, "reference", "ccsds_tables.json")

M_STD = {("R1_2", "K1024"): 512, ("R2_3", "K1024"): 256, ("R4_5", "K1024"): 128,
         ("R1_2", "K4096"): 2048, ("R2_3", "K4096"): 1024, ("R4_5", "K4096"): 512,
         ("R1_2", "K16384"): 8192, ("R2_3", "K16384"): 4096, ("R4_5", "K16384"): 2048}
KVAL = {"K1024": 1024, "K4096": 4096, "K16384": 16384}
THETA_STD = [3, 0, 1, 2, 2, 3, 0, 1, 0, 1, 2, 0, 2, 3, 0, 1, 2, 0, 1, 2, 0, 1, 2, 1, 2, 3]
# protograph sub-matrices: (row block, column block) -> permutation indices (0 = identity)
H12 = {(0, 2): [0], (0, 4): [0, 1], (1, 0): [0], (1, 1): [0], (1, 3): [0], (1, 4): [2, 3, 4],
       (2, 0): [0], (2, 1): [5, 6], (2, 3): [7, 8], (2, 4): [0]}
EXT23 = {(1, 0): [9, 10, 11], (1, 1): [0], (2, 0): [0], (2, 1): [12, 13, 14]}
EXT45 = {(1, 0): [21, 22, 23], (1, 1): [0], (1, 2): [15, 16, 17], (1, 3): [0],
         (2, 0): [0], (2, 1): [24, 25, 26], (2, 2): [0], (2, 3): [18, 19, 20]}


def expected_protograph(rate):
    out = {}

    def put(tab, off):
        for (a, c), perms in tab.items():
            out[(a, c + off)] = sorted(perms)
    if rate == "R1_2":
        put(H12, 0)
        ncols = 5
    elif rate == "R2_3":
        put(EXT23, 0)
        put(H12, 2)
        ncols = 7
    else:
        put(EXT45, 0)
        put(EXT23, 4)
        put(H12, 6)
        ncols = 11
    return out, ncols


def ival(v):
    if isinstance(v, Poly) and v.const_value() is not None and v.const_value().denominator == 1:
        return int(v.const_value())
    return None


def arr(v):
    """nested ('array', ..) of constant Polys -> nested python lists of ints"""
    if isinstance(v, tuple) and v and v[0] == "array":
        return [arr(x) for x in v[1]]
    i = ival(v)
    if i is None:
        raise AnalysisError("table entry is not a constant: %r" % (v,))
    return i


def run(ck, F, tier):
    ck.explanation = (
        "Decided (S): A1 the (rate,k)->M table and M::log2 by constant propagation vs the Blue Book table, k = (blocks-3)*M, "
        "matrix allocated 3M x (blocks)M; A2 every insert/toggle call site of AR4JACode::h, specialised per rate by constant "
        "propagation of the guards, is normalised to (row block, column block, identity | Pi_k) and the resulting table must equal "
        "the protograph of CCSDS 131.0-B (H_1/2, H_2/3 and H_4/5 extensions) - block-column degrees follow (punctured block = last, "
        "degree 6); A3 within one block the first write is insert and every further permutation is toggle (GF(2) sum); A4 theta_k "
        "equals the standard's values, phi_k table has shape 4x26x7, entries < M/4, zero first row for j=1..3, values pinned (tree "
        "reference), index shapes THETA_K[k-1], PHI_K[j][k-1][log2 M - 7] and the pi_k formula as a normal form; A5 C2: 2x16x2 "
        "circulant table (entries < 511, distinct within a block, pinned), N=511, insert(row*N+j, col*N+(j+circ) mod N) for j in 0..N. "
        "NOT decided: full row rank, invertibility of the last 3M columns, rank 1020, girth 6 (linear-algebra / graph values of the "
        "expanded matrices).")
    ck.rule("A1", "(rate,k)->M equals the Blue Book table; M::log2(M) = log2 of the name; k = (column blocks - 3)*M; new(3M, blocks*M)")
    ck.rule("A2", "per rate: the set of (row block, col block, permutation) written by h() equals the Blue Book protograph; every write is in the loop i in 0..M")
    ck.rule("A3", "per block: first write insert, further writes toggle")
    ck.rule("A4", "THETA_K = standard theta_k; PHI_K shape/bounds/zero rows/pinned values; index shapes; pi_k formula normal form")
    ck.rule("A6", "the user-facing identifiers (rate string, information block size) select the AR4JA rate / size of the same name; anything else rejected")
    ck.rule("A5", "C2: circulant table shape/bounds/pinned; constants; expansion normal form")
    ck.assume("Blue Book tables as transcribed in the rule (M table, theta_k, protograph); phi_k and C2 circulants are tree references "
              "(values of the pinned commit) confirmed structurally")
    if not os.path.exists(REF):
        raise AnalysisError("reference/ccsds_tables.json missing")
    ref = json.load(open(REF))

    # ---- A1 -----------------------------------------------------------------
    mb = F.body(AR + "::m")
    lb = F.body("codes::ccsds::M::log2")
    ev = SymEval(F, mode="int", inline=lambda p: F.bodies.get(p) if p in (AR + "::m", "codes::ccsds::M::log2") else None)
    mt = {}
    rates = [v["name"] for v in F.adt("codes::ccsds::AR4JARate")["variants"]]
    ks = [v["name"] for v in F.adt("codes::ccsds::AR4JAInfoSize")["variants"]]
    for r in rates:
        for k in ks:
            env = {}
            ev.bind(mb.params[0], ("struct", "AR4JACode", {"rate": ("variant", r), "k": ("variant", k)}), env)
            try:
                mv = ev.eval(mb.value, env)
                env2 = {}
                ev.bind(lb.params[0], mv, env2)
                lg = ival(ev.eval(lb.value, env2))
            except Unsupported as e:
                raise AnalysisError("cannot constant-propagate AR4JACode::m/M::log2: %s" % e)
            name = mv[1] if isinstance(mv, tuple) and mv[0] == "variant" else None
            mt[(r, k)] = (name, lg)
            std = M_STD.get((r, k))
            ok = name == "M%d" % std and lg is not None and 2 ** lg == std if std else False
            ck.inst("A1", "M:%s,%s" % (r, k), ok, mb.span, "m() = %s, log2 = %s; Blue Book M = %s" % (name, lg, std),
                    {"rate": r, "k": k, "M": name, "log2": lg})
    ck.floor("A1", "(rate,k) pairs", len(mt), 9)

    # ---- A2/A3: placement per rate ----------------------------------------------
    hb = F.body(AR + "::h")
    nsites_total = 0
    for r in rates:
        selfv = ("struct", "AR4JACode", {"rate": ("variant", r), "k": var("self.k")})
        tr = Tracer(F, r"sparse::SparseMatrix::\w+", mode="int", inline=lambda p: F.private_helper(p, AR + "::", keep=re.escape(AR) + r"::(pi|m)"))
        tr.unroll_literals = True
        tr.inline_statics = True      # a protograph given as a static table of (block row, block column, content) is read entry by entry
        env = {}
        tr.bind(hb.params[0], selfv, env)
        try:
            tr.eval(hb.value, env)
        except Unsupported as e:
            raise AnalysisError("AR4JACode::h: unreadable shape (rate %s): %s" % (r, e))
        Mv = app("pow2", app("codes::ccsds::M::log2", app(AR + "::m", selfv)))
        I = var("i")
        exp, ncols = expected_protograph(r)
        found = {}
        order_ok = True
        bad = []
        news = []
        for e in tr.events:
            base = e.callee.rsplit("::", 1)[-1]
            if base == "new":
                news.append(e)
                continue
            if base not in ("insert", "toggle"):
                if e.callee != "<break>":
                    bad.append("unexpected %s at %s" % (e.callee, e.site))
                continue
            nsites_total += 1
            if len(e.loops) != 1 or e.loops[0][0] != "range" or e.loops[0][2] != num(0) or e.loops[0][3] != Mv or e.loops[0][4]:
                bad.append("write outside `for i in 0..M` at %s" % e.site)
                continue
            f = lambda nm, l=e.loops[0][1]: I if nm == l else None
            row, col = subst(e.args[1], f), subst(e.args[2], f)
            a = next((x for x in range(3) if row - I == num(x) * Mv), None)
            cb = perm = None
            for c in range(ncols):
                rest = col - num(c) * Mv
                if rest == I:
                    cb, perm = c, 0
                    break
                for k in range(1, 27):
                    if rest == app(AR + "::pi", selfv, num(k), I):
                        cb, perm = c, k
                        break
                if cb is not None:
                    break
            if a is None or cb is None:
                bad.append("write at %s not of the form (a*M+i, c*M+{i|pi_k(i)}): row %r col %r" % (e.site, row, col))
                continue
            found.setdefault((a, cb), []).append((base, perm, e.site))
        # dimensions
        dims_ok = len(news) == 1 and news[0].args == [num(3) * Mv, num(ncols) * Mv]
        ck.inst("A1", "dims:" + r, dims_ok, hb.span, "new(%s) ; required new(3M, %dM)" % (
            ", ".join(repr(x).replace(repr(Mv), "M") for x in (news[0].args if news else [])), ncols), {"rate": r})
        for (rr, k) in mt:
            if rr == r and M_STD.get((rr, k)):
                ck.inst("A1", "k:%s,%s" % (r, k), KVAL.get(k) == (ncols - 3) * M_STD[(rr, k)], hb.span,
                        "k = (%d-3)*%d = %d, name says %s" % (ncols, M_STD[(rr, k)], (ncols - 3) * M_STD[(rr, k)], KVAL.get(k)))
        ck.inst("A2", "shape:" + r, not bad, hb.span, "all writes are block writes inside `for i in 0..M`" if not bad else "; ".join(bad[:3]))
        for blk in sorted(set(exp) | set(found)):
            got = found.get(blk, [])
            gperms = sorted(p for _, p, _ in got)
            want = exp.get(blk, [])
            site = got[0][2] if got else hb.span
            ck.inst("A2", "block:%s:(%d,%d)" % (r, blk[0], blk[1]), gperms == want, site,
                    "block (%d,%d) for rate %s holds %s ; Blue Book: %s" % (
                        blk[0], blk[1], r, " + ".join("I" if p == 0 else "Pi%d" % p for p in gperms) or "0",
                        " + ".join("I" if p == 0 else "Pi%d" % p for p in want) or "0"),
                    {"rate": r, "block": list(blk), "found": gperms})
            if got:
                ops = [o for o, _, _ in got]
                ck.inst("A3", "sum:%s:(%d,%d)" % (r, blk[0], blk[1]), ops[0] == "insert" and all(o == "toggle" for o in ops[1:]),
                        site, "ops in block: %s (first must be insert, the rest toggle so that coinciding ones cancel mod 2)" % ops)
        # derived block-column degrees
        deg = {}
        for (a, c), perms in found.items():
            deg[c] = deg.get(c, 0) + len(perms)
        ck.inst("A2", "punctured-degree:" + r, deg.get(ncols - 1) == 6, hb.span,
                "block-column degrees %s; last (punctured) block has degree %s" % ([deg.get(c, 0) for c in range(ncols)], deg.get(ncols - 1)))
    ck.floor("A2", "insert/toggle call sites over the three rates", nsites_total, 15 + 23 + 39)

    # ---- A4: tables and index shapes ------------------------------------------------
    evs = SymEval(F, mode="int", inline_statics=True, inline=lambda p: F.private_helper(p, AR + "::", keep=re.escape(AR) + r"::(pi|m|theta|phi|h)"))
    try:
        theta = arr(evs.eval(F.body("codes::ccsds::THETA_K").value, {}))
        phi = arr(evs.eval(F.body("codes::ccsds::PHI_K").value, {}))
    except Unsupported as e:
        raise AnalysisError("THETA_K/PHI_K not literal tables: %s" % e)
    tsite = F.body("codes::ccsds::THETA_K").span
    psite = F.body("codes::ccsds::PHI_K").span
    ck.inst("A4", "theta:values", theta == THETA_STD, tsite, "THETA_K = %s ; Blue Book theta_k = %s" % (theta, THETA_STD))
    shape_ok = len(phi) == 4 and all(len(x) == 26 and all(len(y) == 7 for y in x) for x in phi)
    ck.inst("A4", "phi:shape", shape_ok, psite, "PHI_K is %dx%dx%d" % (len(phi), len(phi[0]), len(phi[0][0])))
    if shape_ok:
        badb = [(j, k, c, phi[j][k][c]) for j in range(4) for k in range(26) for c in range(7) if not (0 <= phi[j][k][c] < 32 * 2 ** c)]
        ck.inst("A4", "phi:range", not badb, psite, "every phi_k(j, M) < M/4" if not badb else "out of range (j,k-1,col,value): %s" % badb[:4])
        z = all(phi[j][0][c] == 0 for j in (1, 2, 3) for c in range(7))
        ck.inst("A4", "phi:zero-rows", z, psite, "phi_1(j, M) = 0 for j = 1..3")
        for j in range(4):
            diff = [(k, phi[j][k], ref["phi"][j][k]) for k in range(26) if phi[j][k] != ref["phi"][j][k]]
            ck.inst("A4", "phi:pinned:j=%d" % j, not diff, psite,
                    "26 rows equal the pinned reference" if not diff else "row k=%d: found %s reference %s" % (diff[0][0] + 1, diff[0][1], diff[0][2]))
    # index shapes
    SELF, K, Iv, J = var("self"), var("k"), var("i"), var("j")
    e0 = SymEval(F, mode="int", inline=lambda p: F.private_helper(p, AR + "::", keep=re.escape(AR) + r"::(pi|m|theta|phi|h)"))
    tb = F.body(AR + "::theta")
    env = {}
    e0.bind(tb.params[0], K, env)
    tv = e0.eval(tb.value, env)
    ck.inst("A4", "theta:index", tv == app("index", var("codes::ccsds::THETA_K"), K - num(1)), tb.span, "theta(k) = %r" % (tv,))
    pb = F.body(AR + "::phi")
    env = {}
    for p, v in zip(pb.params, (SELF, K, J)):
        e0.bind(p, v, env)
    pv = e0.eval(pb.value, env)
    LOG = lambda x: app("codes::ccsds::M::log2", x)
    expv = app("index", app("index", app("index", var("codes::ccsds::PHI_K"), J), K - num(1)),
               LOG(app(AR + "::m", SELF)) - LOG(("variant", "M128")))
    ck.inst("A4", "phi:index", pv == expv, pb.span, "phi(k, j) = %r" % (pv,))
    pib = F.body(AR + "::pi")
    env = {}
    for p, v in zip(pib.params, (SELF, K, Iv)):
        e0.bind(p, v, env)
    piv = e0.eval(pib.value, env)
    L = LOG(app(AR + "::m", SELF))
    jj = app("idiv", num(4) * Iv, app("pow2", L))
    exp_pi = app("mod", app(AR + "::theta", K) + jj, num(4)) * app("pow2", L - num(2)) + \
        app("mod", app(AR + "::phi", SELF, K, jj) + Iv, app("pow2", L - num(2)))
    ck.inst("A4", "pi:formula", piv == exp_pi, pib.span,
            "pi_k(i) = %r ; Blue Book: (M/4)*((theta_k + floor(4i/M)) mod 4) + (phi_k(floor(4i/M), M) + i) mod M/4" % (piv,))

    # ---- A5: C2 -------------------------------------------------------------------
    cb = F.body("codes::ccsds::C2Code::h")
    try:
        circ = arr(evs.eval(F.body("codes::ccsds::C2_CIRCULANTS").value, {}))
    except Unsupported as e:
        raise AnalysisError("C2_CIRCULANTS not a literal table: %s" % e)
    csite = F.body("codes::ccsds::C2_CIRCULANTS").span
    shp = len(circ) == 2 and all(len(x) == 16 and all(len(y) == 2 for y in x) for x in circ)
    ck.inst("A5", "c2:shape", shp, csite, "C2_CIRCULANTS is %dx%dx%d" % (len(circ), len(circ[0]), len(circ[0][0])))
    if shp:
        badc = [(r, c, circ[r][c]) for r in range(2) for c in range(16) if not all(0 <= x < 511 for x in circ[r][c]) or len(set(circ[r][c])) != 2]
        ck.inst("A5", "c2:range-distinct", not badc, csite, "all offsets < 511 and the two offsets of a block differ" if not badc else "bad blocks %s" % badc[:3])
        for r in range(2):
            diff = [(c, circ[r][c], ref["c2"][r][c]) for c in range(16) if sorted(circ[r][c]) != sorted(ref["c2"][r][c])]
            ck.inst("A5", "c2:pinned:row%d" % r, not diff, csite, "16 blocks equal the pinned reference" if not diff else
                    "block (%d,%d): found %s reference %s" % (r, diff[0][0], diff[0][1], diff[0][2]))
    tr = Tracer(F, r"sparse::SparseMatrix::\w+", mode="int")
    env = {}
    tr.bind(cb.params[0], var("self"), env)
    try:
        tr.eval(cb.value, env)
    except Unsupported as e:
        raise AnalysisError("C2Code::h: unreadable shape: %s" % e)
    news = [e for e in tr.events if e.callee.endswith("::new")]
    ins = [e for e in tr.events if e.callee.endswith("::insert")]
    oth = [e for e in tr.events if not e.callee.endswith(("::new", "::insert")) and e.callee != "<break>"]
    ck.inst("A5", "c2:dims", len(news) == 1 and news[0].args == [num(2 * 511), num(16 * 511)], cb.span,
            "new(%s) ; required new(1022, 8176)" % ", ".join(repr(a) for a in (news[0].args if news else [])))
    ok = False
    why = "expected exactly one insert call site, found %d (+%d other effects)" % (len(ins), len(oth))
    if len(ins) == 1 and not oth:
        e = ins[0]
        T = var("codes::ccsds::C2_CIRCULANTS")
        lo = e.loops
        # four nested levels, however they are spelled (for loops, flat_map chains, a map repackaging (row, col, shift)):
        # block rows of the table (enumerated), block columns of that row (enumerated), shifts of that block, j in 0..511
        def level(l):
            """(kind, index variable or None, iterated sequence, element hint)"""
            if l[0] == "enumerate":
                return ("seq", l[1], l[2], l[3] if len(l) > 3 else None)
            if l[0] == "iter":
                d, idxv = l[2], None
                while isinstance(d, tuple) and d and d[0] in ("map", "enumerate"):
                    if d[0] == "enumerate":
                        idxv = (l[1] + "_idx") if isinstance(l[1], str) else None
                    d = d[1]
                return ("seq", idxv, d, l[1] if isinstance(l[1], str) else None)
            if l[0] == "range":
                return ("range", l[1], (l[2], l[3], l[4]), None)
            return ("?", None, None, None)
        lv = [level(l) for l in lo]
        shape = len(lv) == 4 and [x[0] for x in lv] == ["seq", "seq", "seq", "range"] and lv[0][2] == ("elems", T) and lv[0][1] and lv[1][1] and \
            lv[3][2] == (num(0), num(511), False)
        if shape:
            rown, coln, jn = lv[0][1], lv[1][1], lv[3][1]
            # element provenance: the column level iterates the row's element, the shift level the block's element
            ROWEL = app("elem", T, var(lv[0][3])) if lv[0][3] else None
            blk_ok = ROWEL is not None and lv[1][2] == ("elems", ROWEL) and lv[1][3] is not None and \
                lv[2][2] == ("elems", app("elem", ROWEL, var(lv[1][3])))
            Rr, Cc, Jj = var(rown), var(coln), var(jn)
            row, col = e.args[1], e.args[2]
            rest = col - num(511) * Cc
            ok_row = row == num(511) * Rr + Jj
            ok_col = False
            if isinstance(rest, Poly) and len(rest.t) == 1:
                (mono, c), = rest.t.items()
                a = mono[0][0] if len(mono) == 1 else None
                if a and a[:2] == ("f", "mod") and c == 1 and a[3] == ("P", num(511)):
                    inner = a[2][1]
                    shift = inner - Jj
                    ok_col = len(shift.t) == 1 and all(x[:2] == ("f", "elem") and x[2] == vkey(app("elem", ROWEL, var(lv[1][3]))) for x in shift.atoms()) if ROWEL is not None else False
            ok = shape and blk_ok and ok_row and bool(ok_col)
            why = "insert(%r, %r) over table rows > columns > shifts > j in 0..511 [levels %s, provenance %s, row %s, col %s]" % (row, col, shape, blk_ok, ok_row, bool(ok_col))
        else:
            why = "loop nest is not rows > cols > shifts > 0..511 of the circulant table: %r" % ([x[:2] for x in lv],)
    ck.inst("A5", "c2:expansion", ok, ins[0].site if ins else cb.span, why + " ; required insert(row*511 + j, col*511 + (j + circ) mod 511)")
    for cname, want in (("ROW_BLOCKS", 2), ("COL_BLOCKS", 16), ("BLOCK_WEIGHT", 2)):
        got = None
        for im in F.impls:
            for mm in im["members"]:
                if mm["path"] == "codes::ccsds::C2Code::" + cname:
                    got = mm.get("int")
        ck.inst("A5", "c2:const:" + cname, got == want, cb.span, "%s = %s (required %d)" % (cname, got, want))
    from .c20 import cli_ccsds_tables
    cli_ccsds_tables(ck, F, "A6")
