"""C15 - interleaving and puncturing are exact, invertible re-orderings (index-map shape + error guards)."""
import re

from ..extract import AnalysisError
from ..facts import walk, strip, callee, calls_to, local_name, access_path
from ..symx import SymEval, Poly, Unsupported, app, var, num, single_atom, atom_fn, atom_args, subst, vkey, unkey, contains_atom, replace_atom, guard_holds
from ..idioms import carried_progress, as_closure, SPLIT_AT
from ..trace import Tracer
from ..panics import Audit

LEVEL = "other"
IL = "simulation::interleaving::Interleaver::"
PU = "simulation::puncturing::Puncturer::"


class Lay:
    """an n-D array whose element at `idx` is input[f(idx)]"""
    def __init__(self, shape, f, src):
        self.shape, self.f, self.src = tuple(shape), f, src

    def __repr__(self):
        return "Lay%r" % (self.shape,)


class Flat:
    """1-D array: out[i*d1 + j] = lay.f(i, j) for a 2-D lay (row-major flattening)"""
    def __init__(self, lay):
        self.lay = lay


class LayoutEval(SymEval):
    """Trusted model of the five ndarray view operations used by the interleaver:
    into_shape_with_order (row-major), t(), invert_axis(Axis(k)), assign into zeros(raw_dim), flatten."""
    PASS = {"view", "to_owned", "unwrap", "iter", "cloned", "collect", "into_iter", "expect", "to_vec", "copied", "clone"}

    alternatives = ()

    def lay_of(self, v):
        return v if isinstance(v, (Lay, Flat)) else None

    def e_mcall(self, n, env):
        m = n["m"]
        d = n.get("def") or ""
        recv = self.eval(n["recv"], env)
        args = [self.eval(a, env) for a in n["args"]]
        if isinstance(recv, (Lay, Flat)) or any(isinstance(a, (Lay, Flat)) for a in args):
            hb = self.F.private_helper(d, "simulation::interleaving::") if d else None
            if hb is not None and self.depth < self.max_depth:
                # a private helper of the interleaver working on the views: expanded
                return self.inline_body(hb, [recv] + args)
            if m in self.PASS:
                return recv
            if m == "reversed_axes":
                m = "t"         # reversed_axes() of a 2-D view is its transpose
            if m == "len" and isinstance(recv, Lay) and len(recv.shape) == 1:
                return recv.shape[0]
            if m == "into_shape_with_order":
                sh = args[0]
                if isinstance(recv, Lay) and len(recv.shape) == 1 and isinstance(sh, tuple) and sh[0] == "tuple" and len(sh[1]) == 2:
                    d0, d1 = sh[1]
                    f = recv.f
                    return Lay((d0, d1), lambda i, j, f=f, d1=d1: f(i * d1 + j), recv.src)
                if isinstance(recv, Lay) and len(recv.shape) == 2 and isinstance(sh, Poly):
                    return Flat(recv)
                raise Unsupported("into_shape_with_order with shape %r on %r" % (sh, recv))
            if m == "t" and isinstance(recv, Lay) and len(recv.shape) == 2:
                f = recv.f
                return Lay((recv.shape[1], recv.shape[0]), lambda i, j, f=f: f(j, i), recv.src)
            if m == "invert_axis" and isinstance(recv, Lay) and len(recv.shape) == 2:
                ax = args[0]
                if isinstance(ax, tuple) and ax[0] == "ctor" and ax[1] == "Axis" and ax[2][0].const_value() in (0, 1):
                    k = int(ax[2][0].const_value())
                    f, sh = recv.f, recv.shape
                    if k == 0:
                        nl = Lay(sh, lambda i, j, f=f, sh=sh: f(sh[0] - num(1) - i, j), recv.src)
                    else:
                        nl = Lay(sh, lambda i, j, f=f, sh=sh: f(i, sh[1] - num(1) - j), recv.src)
                    nm = local_name(n["recv"])
                    if nm is None:
                        raise Unsupported("invert_axis on a non-local")
                    env[nm] = nl
                    return ("tuple", [])
                raise Unsupported("invert_axis(%r)" % (ax,))
            if m == "raw_dim" and isinstance(recv, Lay):
                return ("shape", recv.shape)
            if m == "assign" and isinstance(args[0], Lay):
                nm = local_name(n["recv"])
                tgt = env.get(nm)
                if not (isinstance(tgt, tuple) and tgt and tgt[0] == "zeros" and tuple(tgt[1]) == tuple(args[0].shape)):
                    raise Unsupported("assign between arrays of different / unknown shapes")
                env[nm] = Lay(args[0].shape, args[0].f, args[0].src)
                return ("tuple", [])
            raise Unsupported("ndarray method %s on a layout value" % m)
        if isinstance(recv, tuple) and recv and recv[0] == "zeros" and m in ("view",):
            return recv
        return self.call_fn(d or ("?::" + m), n.get("inst"), [recv] + args, n, env)

    def e_call(self, n, env):
        c = callee(n) or ""
        if c.endswith("::zeros"):
            a = self.eval(n["args"][0], env)
            if isinstance(a, tuple) and a and a[0] == "shape":
                return ("zeros", a[1])
        if c.endswith("::from_iter"):
            a = self.eval(n["args"][0], env)
            if isinstance(a, Lay):
                return a
        return super().e_call(n, env)

    def e_block(self, n, env):
        # bindings are unique (name#id), so nested blocks share the environment: mutations such as
        # invert_axis inside an `if` body must be visible afterwards
        from ..symx import is_assert
        for s in n.get("stmts", []):
            if s["k"] == "let":
                if "init" in s:
                    self.bind(s["pat"], self.eval(s["init"], env), env)
                continue
            e = s["e"]
            if is_assert(e):
                self.asserts.append(e)
                continue
            self.eval(e, env)
        if n.get("e") is not None:
            return self.eval(n["e"], env)
        return ("tuple", [])

    def e_if(self, n, env):
        c = self.eval(n["c"], env)
        if isinstance(c, tuple) and c and c[0] == "bool":
            if c[1]:
                return self.eval(n["t"], env)
            return self.eval(n["e"], env) if "e" in n else ("tuple", [])
        # data-dependent branch: only the "special-case early return" shape is modelled - the returned layout is recorded as an
        # alternative result under its condition and the main path continues
        if "e" not in n:
            try:
                self.eval(n["t"], dict(env))
            except EarlyReturn as r:
                self.alternatives.append((c, r.value))
                return ("tuple", [])
        raise Unsupported("data-dependent branch in a layout function")

    def e_ret(self, n, env):
        raise EarlyReturn(self.eval(n["e"], env) if "e" in n else None)


class EarlyReturn(Exception):
    def __init__(self, value):
        self.value = value


def layout_of(F, fn, backwards):
    b = F.body(fn)
    ev = LayoutEval(F, mode="int")
    ev.alternatives = []
    C, LEN = var("C"), var("len")
    env = {}
    ev.bind(b.params[0], ("struct", "Interleaver", {"columns": C, "read_rows_backwards": ("bool", backwards)}), env)
    ev.bind(b.params[1], Lay((LEN,), lambda i: i, "in"), env)
    try:
        out = ev.eval(b.value, env)
    except Unsupported as e:
        raise AnalysisError("%s: unreadable layout (%s); the trusted ndarray model covers view/into_shape_with_order/t/invert_axis/assign/flatten only" % (fn, e))
    if not isinstance(out, Flat):
        raise AnalysisError("%s: result is not a flattened 2-D array" % fn)
    return out.lay, ev


def _disjuncts(c):
    a = single_atom(c) if isinstance(c, Poly) else None
    if a and atom_fn(a) == "or":
        return _disjuncts(atom_args(a)[0]) + _disjuncts(atom_args(a)[1])
    return [c]


def check_alternatives(ck, key, ev, spec_src, spec_pos, D0, D1, site, swap=False):
    """Special-case early returns (`if cond { return x }`) recorded by the layout evaluator: under each case of the condition the
    returned layout must coincide with the specified permutation. Only returns of the unchanged input under conditions made of
    `X <= 1`, `X < 2`, `X == 0/1` over the grid dimensions are modelled; anything else is unreadable."""
    from ..symx import subst_atom
    for i, (cond, val) in enumerate(ev.alternatives):
        ident = isinstance(val, Lay) and len(val.shape) == 1 and val.f(var("p")) == var("p")
        if not ident:
            raise AnalysisError("%s: early return of something other than the unchanged input" % key)
        for d in _disjuncts(cond):
            a = single_atom(d) if isinstance(d, Poly) else None
            cases = None
            if a and atom_fn(a) in ("le", "lt", "eq") and len(atom_args(a)) == 2:
                x, y = atom_args(a)
                if atom_fn(a) == "le" and y == num(1):
                    X, cases = x, [0, 1]
                elif atom_fn(a) == "lt" and y == num(2):
                    X, cases = x, [0, 1]
                elif atom_fn(a) == "eq" and (y.const_value() in (0, 1) if isinstance(y, Poly) else False):
                    X, cases = x, [int(y.const_value())]
                elif atom_fn(a) == "eq" and (x.const_value() in (0, 1) if isinstance(x, Poly) else False):
                    X, cases = y, [int(x.const_value())]
            if cases is None and a and atom_fn(a) in ("le", "lt") and len(atom_args(a)) == 2:
                # `len <= columns` (or `len < 2*columns`): with the asserted divisibility this means at most one row
                x, y = atom_args(a)
                Cdim = D1 if not swap else D0
                Rdim = D0 if not swap else D1
                if x == var("len") and ((atom_fn(a) == "le" and y == Cdim) or (atom_fn(a) == "lt" and y == num(2) * Cdim)):
                    X, cases = Rdim, [0, 1]
            if cases is None or single_atom(X) is None:
                raise AnalysisError("%s: early-return condition %r is outside the modelled shapes" % (key, d))
            xa = single_atom(X)
            which = 0 if X == D0 else (1 if X == D1 else None)
            if which is None:
                raise AnalysisError("%s: early-return condition is not about a grid dimension: %r" % (key, X))
            for cv in cases:
                if cv == 0:
                    continue       # empty grid: nothing to permute
                # dimension `which` equals 1: its index is 0
                i0, i1 = (num(0), var("c")) if which == 0 else (var("r"), num(0))
                src = subst_atom(spec_src(i0, i1), xa, num(1))
                pos = subst_atom(spec_pos(i0, i1), xa, num(1))
                ck.inst("I1", "%s:special-case#%d:%s=1" % (key, i + 1, "dim%d" % which), src == pos, site,
                        "early return of the unchanged input when grid dimension %d is 1: the specified permutation there maps position %r to input index %r "
                        "(must be the identity for the shortcut to be exact)" % (which, pos, src))


def run(ck, F, tier):
    ck.explanation = (
        "Decided (S): I1 the interleaver's index map, obtained by pushing a symbolic index through the ndarray view operations "
        "(trusted 5-operation model), is out[r*C+c] = in[c*R+r] (backward: in[(C-1-c)*R+r]) with R = len/C, and deinterleave "
        "composed with it is the identity; I2 puncture copies input block k to output block j where (j,k) enumerates the kept "
        "pattern positions in order, block = len/pattern_len, output length block*num_trues; depuncture is the mirror into a "
        "default-filled vector of pattern_len*block; rate = pattern_len/num_trues; num_trues = number of true entries; I3 the "
        "non-dividing lengths return Err before any slicing (same divisor in the guard and in the block size) and the remaining "
        "panic sites are discharged. NOT decided: equality of values for all vectors as such - it follows from the maps given the "
        "trusted ndarray model.")
    ck.rule("I1", "interleave / deinterleave index maps (forward and backward reading) and their composition")
    ck.rule("I2", "puncture / depuncture block maps, sizes, rate, num_trues")
    ck.rule("I3", "divisibility guards return Err with the divisor that defines the block size; other panic sites discharged")
    ck.trust("ndarray model: into_shape_with_order is row-major, t() swaps axes, invert_axis(Axis(k)) reverses axis k, "
             "assign into zeros(raw_dim) copies elementwise, into_shape_with_order(len) of a standard-layout array flattens row-major")
    C, LEN = var("C"), var("len")
    Rr = app("idiv", LEN, C)
    r, c = var("r"), var("c")
    for bw in (False, True):
        tag = "backward" if bw else "forward"
        lay, ev = layout_of(F, IL + "interleave", bw)
        shape_ok = lay.shape == (Rr, C)
        got = lay.f(r, c) if shape_ok else None
        want = (C - num(1) - c) * Rr + r if bw else c * Rr + r
        ck.inst("I1", "interleave:" + tag, shape_ok and got == want, F.body(IL + "interleave").span,
                "output grid %r, out[r*C+c] = in[%r] ; required grid (len/C, C) and in[%r]" % (lay.shape, got, want))
        check_alternatives(ck, "interleave:" + tag, ev, lambda rr, cc, bw=bw: ((C - num(1) - cc) * Rr + rr if bw else cc * Rr + rr), lambda rr, cc: rr * C + cc,
                           Rr, C, F.body(IL + "interleave").span)
        ck.inst("I1", "interleave:%s:assert-divisible" % tag, len(ev.asserts) == 1, F.body(IL + "interleave").span,
                "length is asserted divisible by the column count before reshaping (%d assert)" % len(ev.asserts), trivial=True)
        dl, ev2 = layout_of(F, IL + "deinterleave", bw)
        # deinterleave spec: out[c*R + r] = in[r*C + c'] with c' = c (forward) or C-1-c (backward), grid (C, R)
        check_alternatives(ck, "deinterleave:" + tag, ev2, lambda cc, rr, bw=bw: rr * C + ((C - num(1) - cc) if bw else cc), lambda cc, rr: cc * Rr + rr,
                           C, Rr, F.body(IL + "deinterleave").span, swap=True)
        dshape_ok = dl.shape == (C, Rr)
        # deinterleave: y[c*R + r] = x[dl.f(c, r)] ; x = interleave(in): x[r'*C + c'] = in[lay.f(r', c')]
        comp = None
        if dshape_ok and shape_ok:
            pos = dl.f(c, r)               # position in the interleaved vector
            cand = None
            for cc in (c, C - num(1) - c):  # decompose pos = r*C + c''
                if pos == r * C + cc:
                    cand = cc
            if cand is not None:
                comp = lay.f(r, cand)
        ck.inst("I1", "deinterleave:" + tag, dshape_ok and comp == c * Rr + r, F.body(IL + "deinterleave").span,
                "deinterleave grid %r reads position %r of its input; composed with interleave: element c*R+r <- in[%r] (identity required)" % (
                    dl.shape, dl.f(c, r) if dshape_ok else None, comp))

    # ---- I2 puncturer -------------------------------------------------------------------
    def slices_of(fn, names):
        b = F.body(fn)
        # private helpers of the puncturer (e.g. one returning the iterator over the kept block positions) are expanded
        tr = Tracer(F, r"ndarray::.*::(slice|slice_mut|assign_to|uninit|from_elem|zeros)|core::slice::<impl \[T\]>::copy_from_slice|std::vec::from_elem", mode="int",
                    inline=lambda p: F.private_helper(p, PU))
        env = {}
        for p, nm in zip(b.params, names):
            tr.bind(p, var(nm), env)
        try:
            ret = tr.eval(b.value, env)
        except Unsupported as e:
            raise AnalysisError("%s: unreadable shape: %s" % (fn, e))
        return b, tr, ret

    def range_of(tr, node, env):
        """first Range{start,end} literal below node, evaluated in env"""
        for x in walk(node):
            if x.get("k") == "struct" and x.get("def") == "std::ops::Range":
                f = {y["name"]: tr.eval(y["e"], dict(env)) for y in x["fields"]}
                return f["start"], f["end"]
        return None

    PL = app("core::slice::<impl [T]>::len", var("self.pattern"))
    NT = var("self.num_trues")
    # The copy loops are read into one normal form: in the iteration that handles kept pattern position K, RANK = number of kept
    # positions before K.  RANK is either the index of an enumerate() over the kept positions, or a loop-carried counter / slice cursor
    # advanced once in exactly the iterations that copy (idioms.carried_progress).
    RANK = var("<rank>")
    PAT = var("self.pattern")

    def kept_sequence(tr_, d):
        """does the iterator description yield exactly the positions k with pattern[k] true, in increasing order?
        (filter_map(|(k,&b)| if b {Some(k)} else {None}) / b.then_some(k) or filter(|(_,&b)| b).map(|(k,_)| k) over pattern.iter().enumerate())"""
        base = ("enumerate", ("elems", PAT))
        K = var("k")
        try:
            if d[0] == "filter_map" and d[1] == base:
                v = tr_.apply(d[2], [("tuple", [K, ("bool", True)])])
                v2 = tr_.apply(d[2], [("tuple", [K, ("bool", False)])])
                sel = v in (("ctor", "Some", [K]), ("ctor", "Some", (K,))) and v2 == ("variant", "None")
            elif d[0] == "map" and d[1][0] == "filter" and d[1][1] == base:
                f1 = tr_.apply(d[1][2], [("tuple", [K, ("bool", True)])])
                f0 = tr_.apply(d[1][2], [("tuple", [K, ("bool", False)])])
                mv = tr_.apply(d[2], [("tuple", [K, var("b")])])
                sel = f1 == ("bool", True) and f0 == ("bool", False) and mv == K
            else:
                return False, "enumerated sequence is %r" % (d[:2],)
        except Unsupported as e:
            return False, "selection closure unreadable: %s" % e
        return sel, "kept positions: the sequence keeps index k exactly when pattern[k] is true (%s)" % sel

    def kept_loop(tr_, e, outer):
        """the loop around a block copy -> (K, rank variable or None, ok, why)"""
        if not e.loops or len(e.loops) != 1:
            return None, None, False, "the block copy is not inside exactly one loop"
        l = e.loops[0]
        local = [g for g in e.guards if g not in outer]
        if l[0] == "enumerate" and l[2] == ("elems", PAT) and len(l) > 3:
            el = tr_.elem_value(l[2], l[3])
            if len(local) == 1 and isinstance(el, Poly) and guard_holds(local, el):
                return var(l[1]), None, True, "loop over all pattern positions k, the copy runs exactly when pattern[k] is true"
            return None, None, False, "loop over all pattern positions, but the copy is guarded by %r" % (local,)
        if l[0] == "enumerate" and len(l) > 3:
            ok, why = kept_sequence(tr_, l[2])
            return tr_.elem_value(l[2], l[3]), var(l[1]), ok and not local, why + "; the outer enumerate numbers them j = 0,1,.."
        if l[0] == "iter" and isinstance(l[1], str):
            ok, why = kept_sequence(tr_, l[2])
            return tr_.elem_value(l[2], l[1]), None, ok and not local, why
        return None, None, False, "loop form %r" % (l[:2],)

    def carried_of(tr_, nm, e):
        cp = carried_progress(tr_, nm)
        if cp is None or list(cp["loops"]) != list(e.loops) or list(cp["guards"]) != list(e.guards):
            return None     # not advanced once in exactly the copying iterations
        return cp

    def resolve(tr_, v, e, rank):
        """express enumerate indices and loop-carried counters through RANK; None when a carried value has no such reading"""
        if rank is not None:
            v = replace_atom(v, single_atom(rank), RANK)
        names = set()
        contains_atom(v, lambda a: bool(a[0] == "v" and a[1].endswith("@loop") and names.add(a[1][:-5])))
        for nm in sorted(names):
            cp = carried_of(tr_, nm, e)
            if cp is None or cp["kind"] != "counter" or not isinstance(cp["init"], Poly):
                return None
            v = replace_atom(v, single_atom(var(nm + "@loop")), cp["init"] + cp["step"] * RANK)
        return v

    def rng(x):
        x = unkey(x) if not isinstance(x, Poly) else x
        if isinstance(x, tuple) and x and x[0] == "struct" and x[1] == "Range":
            d = dict(x[2]) if not isinstance(x[2], dict) else x[2]
            g = lambda k: d[k][1] if isinstance(d[k], tuple) and d[k][0] == "P" else d[k]
            return g("start"), g("end")
        return None

    def block_of(tr_, v, e, rank):
        """a slice value base[s..e] -> (base, s, e) with offsets in terms of RANK; slice cursors (x = x.split_at(B).1) are followed"""
        a = single_atom(v) if isinstance(v, Poly) else None
        if a is None:
            return None
        if atom_fn(a) == "index":
            base, r = atom_args(a)[0], rng(a[3])
        elif atom_fn(a) == "proj0" and single_atom(atom_args(a)[0]) is not None and atom_fn(single_atom(atom_args(a)[0])) == SPLIT_AT:
            base, n = atom_args(single_atom(atom_args(a)[0]))
            r = (num(0), n)
        else:
            return None
        if r is None or not isinstance(base, Poly):
            return None
        s_, e_ = resolve(tr_, r[0], e, rank), resolve(tr_, r[1], e, rank)
        if s_ is None or e_ is None:
            return None
        ba = single_atom(base)
        if ba is not None and ba[0] == "v" and ba[1].endswith("@loop"):
            cp = carried_of(tr_, ba[1][:-5], e)
            if cp is None or cp["kind"] != "cursor":
                return None
            off = cp["step"] * RANK
            return cp["init"], off + s_, off + e_, "cursor"
        return base, s_, e_, "index"

    # puncture
    b, tr, ret = slices_of(PU + "puncture", ("self", "codeword"))
    CL = app("index", app("ndarray::impl_methods::<impl ndarray::ArrayBase<S, D>>::shape", var("codeword")), num(0))
    CL2 = app("ndarray::impl_methods::<impl ndarray::ArrayBase<S, D>>::len", var("codeword"))
    srcs = [e for e in tr.events if e.callee.endswith("::slice")]
    dsts = [e for e in tr.events if e.callee.endswith("::slice_mut")]
    # the output array: allocated once with its final length (uninitialised, or pre-filled: every element is overwritten by the copy)
    outs = [e for e in tr.events if e.callee.startswith("ndarray::") and e.callee.endswith(("::uninit", "::from_elem", "::zeros"))]
    ok = okp = False
    why = "puncture: expected one slice / slice_mut / allocation of the output"
    whyp = "the block copy was not found"
    if len(srcs) == 1 and len(dsts) == 1 and len(outs) == 1:
        K, rank, okp, whyp = kept_loop(tr, srcs[0], outs[0].guards)
        sr = range_of(tr, srcs[0].node, srcs[0].env)
        dr = range_of(tr, dsts[0].node, dsts[0].env)
        if K is not None and sr is not None and dr is not None and list(dsts[0].loops) == list(srcs[0].loops) and list(dsts[0].guards) == list(srcs[0].guards):
            sr = tuple(resolve(tr, x, srcs[0], rank) for x in sr)
            dr = tuple(resolve(tr, x, dsts[0], rank) for x in dr)
            for cl in (CL, CL2):
                BS = app("idiv", cl, PL)
                src_ok = isinstance(K, Poly) and sr == (K * BS, (K + num(1)) * BS) and not contains_atom(K, lambda a: a == single_atom(RANK))
                dst_ok = dr == (RANK * BS, (RANK + num(1)) * BS)
                size_ok = outs[0].args[0] == BS * NT
                src_is_cw = srcs[0].args[0] == var("codeword")
                if src_ok and dst_ok and size_ok and src_is_cw:
                    ok = True
                    why = "out[r*B..(r+1)*B] <- codeword[k*B..(k+1)*B], r = number of kept positions before k, B = len/pattern_len, output length B*num_trues, k = %r" % (K,)
        if not ok:
            why = "puncture slices %r -> %r, out size %r" % (sr, dr, outs[0].args[0])
    ck.inst("I2", "puncture:block-map", ok, srcs[0].site if srcs else b.span, why)
    ck.inst("I2", "puncture:kept-enumeration", okp, F.body(PU + "puncture").span, whyp)
    # depuncture
    b, tr, ret = slices_of(PU + "depuncture", ("self", "llrs"))
    LL = app("core::slice::<impl [T]>::len", var("llrs"))
    BSd = app("idiv", LL, NT)
    cps = [e for e in tr.events if e.callee.endswith("copy_from_slice")]
    allocs = [e for e in tr.events if e.callee.endswith("from_elem")]
    ok = okd = False
    why = "depuncture: expected one copy_from_slice and one vec! allocation"
    whyd = "the block copy was not found"
    depuncture_cursor = False
    if len(cps) == 1 and len(allocs) == 1:
        e = cps[0]
        K, rank, okd, whyd = kept_loop(tr, e, allocs[0].guards)
        dflt = allocs[0].args[0] == app("std::default::Default::default")
        size_ok = allocs[0].args[1] == PL * BSd
        db = block_of(tr, e.args[0], e, rank) if K is not None else None
        sb = block_of(tr, e.args[1], e, rank) if K is not None else None
        if db is not None and sb is not None and isinstance(K, Poly):
            src_ok = sb[0] == var("llrs") and (sb[1], sb[2]) == (RANK * BSd, (RANK + num(1)) * BSd)
            dst_ok = (db[1], db[2]) == (K * BSd, (K + num(1)) * BSd) and not contains_atom(K, lambda a: a == single_atom(RANK)) and \
                single_atom(db[0]) is not None and atom_fn(single_atom(db[0])) == "std::vec::from_elem"
            ok = src_ok and dst_ok and dflt and size_ok
            depuncture_cursor = ok and sb[3] == "cursor"
            why = "output = vec![default; pattern_len*B], output[k*B..(k+1)*B] <- llrs[r*B..(r+1)*B], r = number of kept positions before k, B = len/num_trues [src %s, dst block %s (k = %r), default fill %s, size %s]" % (src_ok, dst_ok, K, dflt, size_ok)
        elif K is not None:
            why = "depuncture: copy operands %r <- %r are not readable as blocks" % (e.args[0], e.args[1])
    ck.inst("I2", "depuncture:block-map", ok, cps[0].site if cps else b.span, why)
    ck.inst("I2", "depuncture:kept-enumeration", okd, F.body(PU + "depuncture").span, whyd)
    # writes to output only through the copy: no other mutation of `output`
    # rate and num_trues
    ev = SymEval(F, mode="real")
    rb = F.body(PU + "rate")
    env = {}
    ev.bind(rb.params[0], var("self"), env)
    rv = ev.eval(rb.value, env)
    from ..symx import Rat
    ck.inst("I2", "rate", Rat(PL, NT) == rv, rb.span, "rate() = %r ; required pattern_len / num_trues" % (rv,))
    nb = F.body(PU + "new")
    tr = Tracer(F, "NONE", mode="int")
    env = {}
    tr.bind(nb.params[0], var("pattern"), env)
    nv = tr.eval(nb.value, env)
    okn = False
    if isinstance(nv, tuple) and nv[0] == "struct":
        nt = nv[2].get("num_trues")
        a = single_atom(nt) if isinstance(nt, Poly) else None
        if a and atom_fn(a) in ("std::iter::Iterator::count", "std::iter::Iterator::sum"):
            d = unkey(a[2])
            d = d[1] if isinstance(d, tuple) and d and d[0] == "iterdesc" else d
            # count(filter(elems(pattern), f)) with f(true), !f(false)   or   sum(map(elems(pattern), g)) with g(true) = 1, g(false) = 0
            want = {"std::iter::Iterator::count": ("filter", ("bool", True), ("bool", False)),
                    "std::iter::Iterator::sum": ("map", num(1), num(0))}[atom_fn(a)]
            if isinstance(d, tuple) and len(d) == 3 and d[0] == want[0] and d[1] in (("elems", var("pattern")), ("elems", ("P", var("pattern")))):
                try:
                    f = as_closure(F, tr, d[2])
                    # usize::from(bool) / `b as usize`: true = 1, false = 0
                    coerce = (lambda v: num(int(v[1])) if isinstance(v, tuple) and v[0] == "bool" else v) if d[0] == "map" else (lambda v: v)
                    okn = coerce(tr.apply(f, [("bool", True)])) == want[1] and coerce(tr.apply(f, [("bool", False)])) == want[2]
                except Unsupported:
                    okn = False
    ck.inst("I2", "num_trues", okn, nb.span, "num_trues = number of `true` entries of the pattern (count of the entries that are true, or sum of their 0/1 values)")

    # ---- I3 ---------------------------------------------------------------------------------
    rev_p = {"call:slice": (1, "source block k*B..(k+1)*B lies inside the codeword: k < pattern_len and B*pattern_len = len (divisibility guard)"),
             "call:slice_mut": (1, "destination block j*B..(j+1)*B lies inside the output of B*num_trues: j < num_trues"),
             "call:assign_to": (1, "both blocks have length B"),
             "index:[usize]": (1, "shape()[0] of a 1-D array"),
             "arith:Rem:usize": (1, "pattern is non-empty (asserted in Puncturer::new)"),
             "arith:Div:usize": (1, "pattern is non-empty (asserted in Puncturer::new)")}
    a = Audit(ck, F, "I3", PU + "puncture", ["self", "codeword"], reviewed=rev_p).run()
    rev_d = {"call:copy_from_slice": (1, "both ranges have length B"),
             "index:[T]": (1, "llrs[j*B..(j+1)*B] with j < num_trues and B*num_trues = len (divisibility guard)"),
             "index:std::vec::Vec": (1, "output[k*B..(k+1)*B] with k < pattern_len and output length pattern_len*B"),
             "arith:Rem:usize": (1, "num_trues >= 1: the property's domain is patterns with at least one kept block"),
             "arith:Div:usize": (1, "num_trues >= 1 (as above)")}
    if depuncture_cursor:
        # I2 read the source as the slice cursor llrs[r*B..]: taking B more elements is the same bound as llrs[r*B..(r+1)*B]
        rev_d["call:split_at"] = (1, "the cursor holds llrs[r*B..] (I2 depuncture:block-map), r < num_trues and B*num_trues = len (divisibility guard)")
        rev_d.pop("index:[T]")
    a2 = Audit(ck, F, "I3", PU + "depuncture", ["self", "llrs"], reviewed=rev_d).run()
    for fn, aud, divisor, lenv in ((PU + "puncture", a, PL, None), (PU + "depuncture", a2, NT, LL)):
        rets = [e for e in aud.tracer.events if e.callee == "<return>"]
        ok = False
        why = "no early Err return"
        if len(rets) == 1:
            g = rets[0].guards
            v = rets[0].args[0]
            is_err = isinstance(v, tuple) and v[0] == "ctor" and v[1] == "Err"
            if len(g) == 1 and g[0][1]:
                ga = single_atom(g[0][0])
                if ga and atom_fn(ga) == "ne":
                    x, y = atom_args(ga)
                    m = y if x == num(0) else x
                    ma = single_atom(m)
                    if ma and atom_fn(ma) == "mod" and atom_args(ma)[1] == divisor:
                        # the divisor of the block size must be the same
                        sites = [s for s in aud.tracer.sites if s["kind"] == "arith" and s["detail"] == "Div"]
                        ok = is_err and len(sites) == 1 and sites[0]["vals"][1] == divisor and sites[0]["vals"][0] == atom_args(ma)[0] \
                            and any(gg == g[0][0] and not pp for gg, pp in sites[0]["guards"])
                        why = "returns Err when len %% %r != 0; block size = len / %r computed only after that test" % (divisor, divisor)
        ck.inst("I3", fn.rsplit("::", 1)[-1] + ":divisibility-guard", ok, rets[0].site if rets else F.body(fn).span, why)
