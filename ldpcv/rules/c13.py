"""C13 - BER statistics are exact and the run terminates: single-writer accounting, stopping rule, join/finished pairing,
blocking-receive liveness."""
import re

from ..extract import AnalysisError
from ..facts import walk, strip, callee, calls_to, access_path, plain_local
from ..symx import SymEval, Poly, Rat, Unsupported, app, var, num, single_atom, atom_fn, atom_args, cmp_atom
from ..trace import Tracer
from ..panics import SiteTracer
from ..cfg import dominators, successors

LEVEL = "other"
BER = "simulation::ber::"
T = BER + "BerTest::<Mod, Dec>::"
W = BER + "Worker::<Mod>::"
CS = BER + "CurrentStatistics"
RECV = "std::sync::mpsc::Receiver::<T>::recv"


def field_path(v):
    """.a(.b(X)) / payload0 wrappers -> ('b', 'a') field names from the root outwards"""
    out = []
    while True:
        a = single_atom(v) if isinstance(v, Poly) else None
        if a and atom_fn(a) and atom_fn(a).startswith("."):
            out.append(atom_fn(a)[1:])
            v = atom_args(a)[0]
        elif a and atom_fn(a) in ("payload0", "mutated"):
            v = atom_args(a)[0]
        else:
            return tuple(reversed(out)), v


def run(ck, F, tier):
    ck.explanation = (
        "No schedule is explored. Decided (S) are the structural conditions that make the result independent of the schedule: "
        "G1 the statistics accumulators are written only by the collector (do_run) and their constructors - workers communicate one "
        "WorkerResultOk per frame over the channel only; G2 each received result updates every counter exactly once, with the documented "
        "conditions (correct-frame iterations only for frames without error; outer-code threshold bit_errors > bch_max_errors); "
        "G3 the stopping rule is errors_for_termination() < max_frame_errors (strict) on the outer-code counter when enabled; G4 BER, FER "
        "and the averages are the stated ratios, counts are copied unchanged; G5 every spawned worker is told to terminate and joined before "
        "any return of the per-Eb/N0 body; run() sends Finished after do_run on every path and the final statistics report precedes it; "
        "G6 no Sender of the result channel is alive in the collector while it blocks in recv() (otherwise the death of all workers cannot "
        "wake it), a disconnected recv ends the point and a panicked worker is turned into an error (no unwrap on recv()/join()). "
        "NOT decided: enumeration of thread schedules / arrival orders and wall-clock termination; G1+G2 make the totals a sum over a "
        "multiset of whole results, hence order independent.")
    ck.rule("G1", "single consumer: accumulator fields are written only in do_run and the constructors")
    ck.rule("G2", "whole-frame accounting: each counter updated exactly once per result with the documented condition")
    ck.rule("G3", "stopping rule")
    ck.rule("G4", "derived ratios")
    ck.rule("G5", "terminate/join of every worker before any exit; Finished after the last statistics on every path of run()")
    ck.rule("G6", "blocking receive must observe worker death: no live local Sender at recv(); disconnect and worker panic become errors")
    ck.rule("G7", "what a worker reports per frame is what the counters assume: bit errors over the systematic part, frame_error = bit_errors > 0, false_decode = frame_error && success (the rule C12-B1, run here)")
    ck.trust("mpsc semantics: recv() returns Err only when every Sender has been dropped; JoinHandle::join returns Err when the thread panicked")

    # ---- G1 ---------------------------------------------------------------------------------------
    acc_fields = set()
    for name in ("CurrentStatistics", "CurrentCodeStatistics"):
        acc_fields |= {f["name"] for f in F.adt(BER + name)["variants"][0]["fields"]}
    writers = {}
    for b in F.find_bodies(r"(simulation|cli|c_api)::.*"):
        if not b.hir:
            continue
        for n in walk(b.value):
            if n.get("k") in ("assign", "assignop"):
                l = strip(n["l"])
                if l.get("k") == "field" and l["f"] in acc_fields and "Current" in strip(l["e"]).get("ty", ""):
                    owner = b.path.split("::{closure")[0]
                    in_closure = False
                    writers.setdefault(owner, []).append((l["f"], n["sp"]))
    # the collector is do_run together with the helpers that only it (transitively) calls; anything else writing an accumulator
    # (in particular code reachable from the worker threads) breaks the single-writer discipline
    callers = {}
    for b in F.find_bodies(r"(simulation|cli|c_api)::.*"):
        if not b.hir:
            continue
        owner = b.path.split("::{closure")[0]
        for n in walk(b.value):
            if n.get("k") in ("call", "mcall"):
                cp = callee(n)
                if cp:
                    callers.setdefault(cp, set()).add(owner)
                    if n.get("inst"):
                        callers.setdefault(n["inst"], set()).add(owner)
            if n.get("k") == "path" and n.get("res") == "def" and str(n.get("dk", "")).startswith(("Fn", "AssocFn")):
                callers.setdefault(n["def"], set()).add(owner)      # taken as a function value: may be called from there
    allowed = {T + "do_run"}
    changed = True
    while changed:
        changed = False
        for o in writers:
            if o not in allowed and callers.get(o) and callers[o] <= allowed:
                allowed.add(o)
                changed = True
    bad = {o: v for o, v in writers.items() if o not in allowed}
    ck.inst("G1", "accumulator-writers", not bad and bool(writers), F.body(T + "do_run").span,
            "accumulator fields are assigned only in the collector (do_run and helpers called from nowhere else): %s" % sorted(writers) if not bad else "also written in %s" % sorted(bad),
            {"writers": {k: len(v) for k, v in writers.items()}})
    # the worker thread body shares nothing mutable with the collector: its only output is results_tx.send
    wb = F.body(W + "work")
    sends = calls_to(wb.value, r"std::sync::mpsc::Sender::<T>::send")
    ck.inst("G1", "worker-output", len(sends) == 1 and access_path(sends[0]["recv"]) is not None and access_path(sends[0]["recv"])[-1] == "results_tx",
            wb.span, "Worker::work sends exactly one message per simulated frame on results_tx (%d send site)" % len(sends))

    # ---- G2 / G3 via the trace of do_run ---------------------------------------------------------------
    rb = F.body(T + "do_run")
    # helpers of the collector that update the accumulators (e.g. an extracted "record one frame" method) are expanded
    # ... and so are private methods of BerTest that only stage the collector (per-point body, spawning, stopping); make_worker stays observed
    stage_helpers = [p for p in F.bodies if p.startswith(T) and "{closure" not in p and p not in (T + "do_run", T + "make_worker", T + "new", T + "run")
                     and F.private_helper(p, T) is not None]
    upd_helpers = sorted(set(o for o in writers if o != T + "do_run") | set(stage_helpers))
    notme = (r"(?!(?:%s)$)" % "|".join(re.escape(h) for h in upd_helpers)) if upd_helpers else ""
    tr = SiteTracer(F, contracts=notme + r"(?:std::sync::mpsc::.*|std::thread::.*|std::mem::drop|" + re.escape(BER) + r".*)",
                    no_inline=notme + r"(?:std::.*|simulation::.*)", mode="real")
    env = {}
    tr.bind(rb.params[0], var("self"), env)
    tr.fn_stack.append(rb.path)
    try:
        tr.eval(rb.value, env)
    except Unsupported as e:
        raise AnalysisError("do_run: unreadable shape: %s" % e)
    asg = [e for e in tr.events if e.callee == "<assign>"]
    calls = [s for s in tr.sites if s["kind"] == "contract"]
    recvs = [s for s in calls if s["detail"] == RECV]
    if len(recvs) != 1:
        raise AnalysisError("do_run: expected one blocking recv(), found %d" % len(recvs))
    # the result value: payload of the Ok arm
    updates = {}
    for e in asg:
        fp, root = field_path(e.args[0])
        if not fp or fp[-1] not in acc_fields:
            continue
        updates.setdefault(fp, []).append(e)
    R_ = None
    for e in asg:
        fp, root = field_path(e.args[1])
        if fp == ("bit_errors",):
            R_ = root
    def rf(name):
        return app("." + name, R_) if R_ is not None else None
    def rf_payload(name):
        return app("." + name, app("payload0", R_)) if R_ is not None else None
    expect = {
        ("ldpc", "bit_errors"): ("bit_errors", None),
        ("ldpc", "frame_errors"): ("frame_error", None),
        ("false_decodes",): ("false_decode", None),
        ("total_iterations",): ("iterations", None),
        ("ldpc", "correct_iterations"): ("iterations", "not-frame-error"),
        ("num_frames",): (1, None),
        ("bch", "bit_errors"): ("bit_errors", "bch-fail"),
        ("bch", "frame_errors"): (1, "bch-fail"),
        ("bch", "correct_iterations"): ("iterations", "bch-ok"),
    }
    for fp, (src, cond) in expect.items():
        evs = updates.get(fp, [])
        ok = len(evs) == 1
        why = "%d update sites for %s" % (len(evs), ".".join(fp))
        if ok:
            e = evs[0]
            rhs = e.args[1]
            op_ok = e.node.get("k") == "assignop" and e.node.get("op", "").startswith("Add")
            if src == 1:
                rhs_ok = rhs == num(1)
            else:
                fpr, root = field_path(rhs)
                rhs_ok = fpr == (src,) and "recv" in repr(root)
            gs = [(repr(g), p) for g, p in e.guards]
            in_ok_arm = any("'Ok'" in g and p for g, p in gs)
            in_loop = any(l[0] == "while" for l in e.loops)
            # classify guards by content (not by position): framing guards (loop condition, the received value being Ok) are
            # common to all updates; what matters is the set of *extra* conditions
            extra = []
            for g, p in e.guards:
                r = repr(g)
                ga = single_atom(g) if isinstance(g, Poly) else None
                if "errors_for_termination" in r and "frame_error(" not in r:
                    continue
                if ga is not None and atom_fn(ga) == "matches" and ("recv" in repr(atom_args(ga)[0])) and ".bch" not in r:
                    continue
                extra.append((g, p))
            if cond is None:
                c_ok = not extra
            elif cond == "not-frame-error":
                c_ok = len(extra) == 1 and "frame_error" in repr(extra[0][0]) and \
                    ((atom_fn(single_atom(extra[0][0])) == "not" and extra[0][1]) or (atom_fn(single_atom(extra[0][0])) != "not" and not extra[0][1]))
            else:
                want_pol = cond == "bch-fail"
                c_ok = len(extra) == 2 and "bch" in repr(extra[0][0]) and "Some" in repr(extra[0][0]) and extra[0][1]
                g3 = single_atom(extra[1][0]) if len(extra) == 2 else None
                # result.bit_errors > self.bch_max_errors  ==  lt(self.bch_max_errors, result.bit_errors)
                thr = g3 is not None and atom_fn(g3) == "lt" and atom_args(g3)[0] == var("self.bch_max_errors") and field_path(atom_args(g3)[1])[0] == ("bit_errors",)
                c_ok = c_ok and thr and extra[1][1] == want_pol
            ok = op_ok and rhs_ok and in_ok_arm and in_loop and c_ok
            why = "%s += %s under %s [op %s, source %s, Ok arm %s, condition %s]" % (".".join(fp), repr(rhs)[:60], cond or "every result", op_ok, rhs_ok, in_ok_arm, c_ok)
        ck.inst("G2", "update:" + ".".join(fp), ok, evs[0].site if evs else rb.span, why)
    # the same accounting, evaluated: for every kind of received result the net change of every counter is the documented one
    from ..transformer import Grid as _Grid
    from ..symx import NotEvaluable as _NE
    from itertools import product as _product
    okd, whyd, npts = True, "", 0
    try:
        for fe, fd, be, bchp, outcome in _product((False, True), (False, True), (0, 2, 5), ("None", ("Some", "BCH")), ("result", "worker-gone", "disconnected")):
            if outcome != "result" and (fe or fd or be or bchp != "None"):
                continue
            itn = 3
            res = {"result": ("Ok", ("Ok", "RESULT")), "worker-gone": ("Ok", ("Err", ())), "disconnected": ("Err", "RecvError")}[outcome]
            hooks = {"recv": lambda *a_, res=res: res, "errors_for_termination": lambda *a_: 0, "new": lambda *a_: "CS",
                     ".bch": lambda x_, bchp=bchp: bchp if x_ == "CS" else ("Some", "SELFBCH"), ".ldpc": lambda x_: "CS.ldpc",
                     ".frame_error": lambda x_, fe=fe: fe, ".false_decode": lambda x_, fd=fd: fd, ".iterations": lambda x_, itn=itn: itn,
                     ".bit_errors": lambda x_, be=be: be if x_ == "RESULT" else 0, "from": lambda x_: int(x_) if isinstance(x_, bool) else x_,
                     "into": lambda x_: int(x_) if isinstance(x_, bool) else x_, "channel": lambda *a_: ("TX", "RX")}
            g = _Grid({"self.max_frame_errors": 10, "self.bch_max_errors": 2, "self.max_iterations": 50}, hooks)
            deltas = {}
            for fp_, evs_ in updates.items():
                for e_ in evs_:
                    if not g.holds(e_.guards):
                        continue
                    if not (e_.node.get("k") == "assignop" and e_.node.get("op", "").startswith("Add")):
                        raise _NE("store to %s is not an accumulation" % ".".join(fp_))
                    v_ = g.value(e_.args[1])
                    deltas[fp_] = deltas.get(fp_, 0) + (int(v_) if isinstance(v_, bool) else v_)
            want = {}
            if outcome == "result":
                want = {("ldpc", "bit_errors"): be, ("ldpc", "frame_errors"): int(fe), ("false_decodes",): int(fd), ("total_iterations",): itn,
                        ("ldpc", "correct_iterations"): 0 if fe else itn, ("num_frames",): 1}
                if bchp != "None":
                    if be > 2:
                        want.update({("bch", "bit_errors"): be, ("bch", "frame_errors"): 1})
                    else:
                        want[("bch", "correct_iterations")] = itn
            npts += 1
            nz = lambda d: {k: v for k, v in d.items() if v}
            if nz(deltas) != nz(want):
                okd = False
                whyd = " ; for %s (frame_error %s, false_decode %s, bit_errors %d, outer code %s) the counters change by %r, required %r" % (
                    outcome, fe, fd, be, "present" if bchp != "None" else "absent", {".".join(k): v for k, v in nz(deltas).items()}, {".".join(k): v for k, v in nz(want).items()})
                break
    except (_NE, TypeError) as ex:
        okd, whyd = False, " ; not evaluable: %s" % ex
    ck.inst("G2", "per-result-deltas", okd, rb.span, ("every received result changes the nine counters by exactly the documented amounts (threshold bit_errors > bch_max_errors for "
            "the outer code); a vanished worker or a closed channel changes none [%d cases]" % npts) + whyd[:500])
    # (after the per-counter instances: a missing update is a verdict about that counter, not an unreadable shape)
    ck.floor("G2", "accumulator update sites", sum(len(v) for v in updates.values()), 9)
    others = [fp for fp in updates if fp not in expect]
    ck.inst("G2", "no-other-updates", not others, rb.span, "no accumulator update besides the nine documented ones" if not others else "unexpected updates %s" % others)
    sb = F.body(W + "simulate")
    # ---- G3 ---------------------------------------------------------------------------------------
    wl = [l for l in recvs[0]["loops"] if l[0] == "while"]
    okg = False
    why = "recv is not inside a while loop"
    if wl and wl[0][1] is not None:
        # conjuncts of the loop condition: the stopping rule, and possibly "a result was received" (while .. && let Ok(..) = recv())
        conj = []
        stack = [wl[0][1]]
        while stack:
            x = stack.pop()
            xa = single_atom(x) if isinstance(x, Poly) else None
            if xa and atom_fn(xa) == "and":
                stack.extend(a_[1] if isinstance(a_, tuple) and len(a_) == 2 and a_[0] == "P" else a_ for a_ in atom_args(xa))
            else:
                conj.append(x)
        stop = [x for x in conj if isinstance(x, Poly) and single_atom(x) is not None and atom_fn(single_atom(x)) == "lt"]
        rest = [x for x in conj if x not in stop]
        c = single_atom(stop[0]) if len(stop) == 1 else None
        okg = c is not None and repr(atom_args(c)[0]).startswith(CS + "::errors_for_termination(") and atom_args(c)[1] == var("self.max_frame_errors") and \
            all(isinstance(x, Poly) and single_atom(x) is not None and atom_fn(single_atom(x)) == "matches" and "recv(" in repr(x) for x in rest)
        why = "loop continues while %s" % (" && ".join(repr(x)[:90] for x in conj),)
    ck.inst("G3", "loop-condition", okg, recvs[0]["sp"], why + " ; required errors_for_termination() < max_frame_errors (strict)")
    eb = F.body(CS + "::errors_for_termination")
    ev = Tracer(F, "NONE")
    env = {}
    ev.bind(eb.params[0], var("self"), env)
    v = ev.eval(eb.value, env)
    a = single_atom(v) if isinstance(v, Poly) else None
    okt = False
    BCHV = var("self.bch")
    want_m = app("match", BCHV, ((repr(("Some", "_")), app(".frame_errors", app("payload0", BCHV))), (repr("None"), var("self.ldpc.frame_errors"))))
    if v == want_m:
        okt = True
    elif a and atom_fn(a) == "ite":
        c, t_, e_ = atom_args(a)
        okt = "self.bch" in repr(c) and "Some" in repr(c) and field_path(t_)[0] == ("frame_errors",) and "self.bch" in repr(t_) and e_ == var("self.ldpc.frame_errors")
    ck.inst("G3", "errors_for_termination", okt, eb.span, "= bch.frame_errors when the outer code is enabled, else ldpc.frame_errors: %r" % (v,))
    cn = F.body(CS + "::new")
    evn = Tracer(F, "NONE")
    env = {}
    evn.bind(cn.params[0], var("has_bch"), env)
    nv = evn.eval(cn.value, env)
    zero = isinstance(nv, tuple) and nv[0] == "struct" and all(nv[2].get(f) == num(0) for f in ("num_frames", "false_decodes", "total_iterations"))
    news = [s for s in calls if s["detail"] == CS + "::new"]
    per_point = len(news) == 1 and len(news[0]["loops"]) == 1 and news[0]["vals"] == [cmp_atom("lt", num(0), var("self.bch_max_errors"))]
    ck.inst("G3", "fresh-counters-per-point", zero and per_point, cn.span, "counters start at 0 for every Eb/N0 point; outer code enabled iff bch_max_errors > 0")

    # ---- G4 ---------------------------------------------------------------------------------------
    cb = F.body(BER + "CodeStatistics::from_current")
    e4 = SymEval(F, mode="real")
    env = {}
    for p, nm in zip(cb.params, ("stats", "num_frames", "k")):
        e4.bind(p, var(nm), env)
    v = e4.eval(cb.value, env)
    ok = False
    if isinstance(v, tuple) and v[0] == "struct":
        f = v[2]
        ok = (f.get("bit_errors") == var("stats.bit_errors") and f.get("frame_errors") == var("stats.frame_errors")
              and f.get("correct_iterations") == var("stats.correct_iterations")
              and f.get("ber") == Rat(var("stats.bit_errors"), var("k") * var("num_frames"))
              and f.get("fer") == Rat(var("stats.frame_errors"), var("num_frames"))
              and f.get("average_iterations_correct") == Rat(var("stats.correct_iterations"), var("num_frames") - var("stats.frame_errors")))
    ck.inst("G4", "code-statistics", ok, cb.span, "ber = bit_errors/(k*num_frames), fer = frame_errors/num_frames, average_iterations_correct = correct_iterations/(num_frames-frame_errors); counts copied")
    sbb = F.body(BER + "Statistics::from_current")
    e5 = SymEval(F, mode="real")
    env = {}
    for p, nm in zip(sbb.params, ("stats", "ebn0_db", "k")):
        e5.bind(p, var(nm), env)
    v = e5.eval(sbb.value, env)
    ok = False
    if isinstance(v, tuple) and v[0] == "struct":
        f = v[2]
        ok = (f.get("num_frames") == var("stats.num_frames") and f.get("false_decodes") == var("stats.false_decodes")
              and f.get("total_iterations") == var("stats.total_iterations") and f.get("ebn0_db") == var("ebn0_db")
              and f.get("average_iterations") == Rat(var("stats.total_iterations"), var("stats.num_frames"))
              and f.get("ldpc") == app(BER + "CodeStatistics::from_current", var("stats.ldpc"), var("stats.num_frames"), var("k")))
    ck.inst("G4", "statistics", ok, sbb.span, "average_iterations = total_iterations/num_frames; counts copied; ldpc statistics from the same num_frames and k")

    # ---- G5 ---------------------------------------------------------------------------------------
    spawns = [s for s in tr.sites if s["kind"] == "contract" and s["detail"].endswith("thread::spawn")]
    joins = [s for s in calls if s["detail"].endswith("::join")]
    terms = [s for s in calls if s["detail"].endswith("Sender::<T>::send") or s["detail"].endswith("SyncSender::<T>::send")]
    term_workers = [s for s in terms if "terminate" in repr(s["loops"]) or "proj1" in repr(s["vals"][0])]
    rets = [e for e in tr.events if e.callee == "<return>" and len(e.loops) <= 1]
    order_ok = False
    why = "spawn/terminate/join not found"
    exits_between = []
    if spawns and joins and term_workers:
        s_spawn, s_recv = spawns[0]["seq"], recvs[0]["seq"]
        s_term, s_join_first, s_join_last = term_workers[-1]["seq"], joins[0]["seq"], joins[-1]["seq"]

        def over_all_workers(st):
            """inside a loop over the whole collection of spawned workers (the value that was built from the spawn calls)"""
            for l in st["loops"]:
                if l[0] == "iter" and ("repeat_with" in repr(l[2]) or "make_worker" in repr(l[2]) or "num_workers" in repr(l[2])) and \
                        not any(x in repr(l[2]) for x in ("'skip'", "'take_while'", "'filter'", "'step_by'")):
                    return True
            return False
        # nothing may leave the per-point body between the first spawn and the last join (a `?` or return there abandons live workers)
        exits_between = [e for e in tr.events if e.callee in ("<try>", "<return>", "<break>") and s_spawn < e.seq < s_join_last
                         and not (e.callee == "<break>" and any(l[0] in ("while", "loop") for l in e.loops))]
        order_ok = s_recv < s_term < s_join_first and over_all_workers(term_workers[-1]) and over_all_workers(joins[0]) and not exits_between
        why = ("after the collection loop every worker is sent terminate (loop over all workers: %s), then every handle is joined (loop over all workers: %s); "
               "no exit between spawning and the last join (%d)" % (over_all_workers(term_workers[-1]), over_all_workers(joins[0]), len(exits_between)))
    ck.inst("G5", "terminate-then-join-all", order_ok, joins[0]["sp"] if joins else rb.span, why)
    # what leaves the per-point body after the joins is the propagation of a worker failure: every return / `?` after the last join
    # (if any) depends on the outcome of the joins, and none comes before
    after = [e for e in tr.events if e.callee in ("<return>", "<try>") and joins and e.seq > joins[-1]["seq"] and len(e.loops) <= 1]
    before = [e for e in tr.events if e.callee == "<return>" and joins and e.seq < joins[0]["seq"] and spawns and e.seq > spawns[0]["seq"]]
    ret_ok = bool(after) and not before
    rets = after
    ck.inst("G5", "returns-after-join", ret_ok, rets[0].site if rets else rb.span,
            "a worker failure is propagated only after every worker has been joined (%d exit site(s) after the last join, %d before the first)" % (len(after), len(before)))
    # every worker that did not end with Ok(()) - its own error or a panic - makes the point fail: evaluated for the three outcomes of join()
    from ..transformer import Grid
    from ..symx import NotEvaluable
    wf_ok, whyw = False, "join() not found"
    if joins:
        jl = joins[0]["loops"]
        sites_ = [st for st in tr.assign_sites if st[2] and list(st[2]) == list(jl)]
        names_ = {st[0].split("#")[0] for st in sites_}
        whyw = "%d store(s) to %s in the join loop" % (len(sites_), sorted(names_))
        if not sites_:
            # fold spelling: workers.into_iter().fold(None, |failure, (handle, _)| match handle.join() { .. })
            jb = F.bodies.get(joins[0].get("fn") or "") or rb
            folds = [n for n in walk(jb.value) if n.get("k") == "mcall" and n["m"] == "fold" and len(n.get("args", [])) == 2
                     and strip(n["args"][1]).get("k") == "closure" and any(x.get("k") == "mcall" and x["m"] == "join" for x in walk(n["args"][1]))]
            whyw = "no store in the join loop and %d fold over the join results" % len(folds)
            if len(folds) == 1:
                clo_ = strip(folds[0]["args"][1])
                try:
                    init_ = tr.eval(folds[0]["args"][0], {})
                    stepv = Tracer(F, "NONE").apply(("closure", clo_, {}), [var("acc#g"), ("tuple", [var("handle#g"), var("t#g")])])
                    wf_ok = init_ == ("variant", "None")
                    for outcome, must in ((("Ok", ("Ok", ())), False), (("Ok", ("Err", "E")), True), (("Err", "PANIC"), True)):
                        g = Grid({"acc#g": "ACC"}, {"join": lambda *a_, outcome=outcome: outcome, "into": lambda x_: x_, "from": lambda x_: x_})
                        r_ = g.value(stepv)
                        if must != (isinstance(r_, tuple) and r_[0] == "Some") or (not must and r_ != "ACC"):
                            wf_ok = False
                            whyw = "join() = %r: the fold step gives %r" % (outcome, r_)
                    # (the function holding the joins may itself be a helper expanded into run(): its Err exit is a <return-inner>)
                    ret_err = [e for e in tr.events if e.callee in ("<return>", "<return-inner>") and e.seq > joins[-1]["seq"] and isinstance(e.args[0], tuple)
                               and e.args[0][:2] == ("ctor", "Err") and any("Iterator::fold(" in repr(g_) for g_, p_ in e.guards)]
                    if not ret_err:
                        # the fold result is the helper's own result and the caller applies `?` to it
                        ret_err = [e for e in after if e.callee == "<try>" and "Iterator::fold(" in repr(e.args[0])][:1]
                    wf_ok = wf_ok and len(ret_err) == 1
                    if wf_ok:
                        whyw = "fold from None: a worker's own error and a panic both give Some(error), Ok(()) keeps the accumulator; Some(error) is returned as Err after the joins"
                except (Unsupported, NotEvaluable, TypeError) as ex:
                    wf_ok, whyw = False, "fold step not evaluable: %s" % ex
        elif len(names_) == 1:
            nm_ = next(iter(names_))
            try:
                wf_ok = True
                for outcome, must in ((("Ok", ("Ok", ())), False), (("Ok", ("Err", "E")), True), (("Err", "PANIC"), True)):
                    g = Grid({}, {"join": lambda *a_, outcome=outcome: outcome, "into": lambda x_: x_, "from": lambda x_: x_})
                    fired = [st for st in sites_ if g.holds(st[3])]
                    somes = [st for st in fired if isinstance(st[1], tuple) and len(st[1]) == 3 and st[1][:2] == ("ctor", "Some")]
                    if (len(somes) >= 1) != must or len(fired) != len(somes):
                        wf_ok = False
                        whyw = "join() = %r: %d store(s), %d of a Some(error)" % (outcome, len(fired), len(somes))
                # ... and the collected failure is what the point returns
                after_v = nm_ + "@after"
                ret_err = [e for e in tr.events if e.callee in ("<return>", "<return-inner>") and e.seq > joins[-1]["seq"] and isinstance(e.args[0], tuple)
                           and e.args[0][:2] == ("ctor", "Err") and any(after_v in repr(g_) and p_ for g_, p_ in e.guards)]
                wf_ok = wf_ok and len(ret_err) == 1
                if wf_ok:
                    whyw = "a worker's own error and a panic both set %s = Some(error), Ok(()) leaves it alone; Some(error) is returned as Err after the joins" % nm_
            except (NotEvaluable, TypeError) as ex:
                wf_ok, whyw = False, "not evaluable: %s" % ex
    ck.inst("G5", "worker-failure-reported", wf_ok, joins[0]["sp"] if joins else rb.span, whyw)
    runb = F.body(T + "run")
    trr = Tracer(F, re.escape(T) + r"do_run|std::sync::mpsc::Sender::<T>::send", mode="int")
    env = {}
    trr.bind(runb.params[0], var("self"), env)
    trr.eval(runb.value, env)
    names = [(e.callee.rsplit("::", 1)[-1], e) for e in trr.events if not e.callee.startswith("<") or e.callee == "<return>"]
    seq = [n for n, e in names]
    fin = [e for n, e in names if n == "send"]
    okf = seq[:2] == ["do_run", "send"] and len(fin) == 1 and "Finished" in repr(fin[0].args[1]) and \
        len(fin[0].guards) == 1 and "self.reporter" in repr(fin[0].guards[0][0]) and not [n for n in walk(runb.value) if n.get("k") == "try" and n["sp"] < fin[0].site]
    ck.inst("G5", "finished-on-every-path", okf, runb.span, "run(): do_run() result is kept, Finished is sent (when a reporter exists), only then is the result propagated with `?`: %s" % seq)
    finals = [s for s in calls if s["detail"] == BER + "Statistics::from_current"]
    rep_after = [s for s in finals if not any(l[0] == "while" for l in s["loops"])]
    # the report at the end of a point is unconditional (it exists whenever there is a reporter): the throttling by the report interval
    # applies to the progress reports inside the collection loop only
    timed = lambda s_: any("Instant::now" in repr(g_) for g_, _ in s_["guards"])
    after_reports = [s_ for s_ in rep_after if any("self.reporter" in repr(g_) for g_, _ in s_["guards"])]
    ck.inst("G5", "final-report-not-throttled", bool(after_reports) and not any(timed(s_) for s_ in after_reports), after_reports[0]["sp"] if after_reports else rb.span,
            "the statistics report sent after the collection loop is not subject to the report interval (%d such report(s), %d of them timed)" % (
                len(after_reports), sum(timed(s_) for s_ in after_reports)))
    ck.inst("G5", "final-report-per-point", len(rep_after) >= 2, rep_after[0]["sp"] if rep_after else rb.span,
            "after the collection loop a final statistics report is sent (report!(.., true)) and the statistics are stored, once per Eb/N0 point")

    # ---- G6 ---------------------------------------------------------------------------------------
    # the body that creates the result channel: do_run itself or the private helper holding the per-point work
    gb = rb
    for cand in [rb] + [F.bodies[p] for p in stage_helpers]:
        if cand.mir and any(bb["term"]["k"] == "call" and (bb["term"]["func"].get("fn") or "").endswith(("mpsc::channel", "mpsc::sync_channel"))
                            and "WorkerResult" in repr(bb["term"]["func"]) + repr(bb["term"].get("dest")) + repr(cand.mir.get("locals", ""))[:0] for bb in cand.mir["blocks"]):
            gb = cand
            break
    else:
        for cand in [F.bodies[p] for p in stage_helpers]:
            if cand.mir and any(bb["term"]["k"] == "call" and (bb["term"]["func"].get("fn") or "") == RECV for bb in cand.mir["blocks"]):
                gb = cand
    mir = gb.mir
    blocks = mir["blocks"]
    # locate the sender local: (tx, rx) = channel(); recv is called on rx
    chan = [i for i, bb in enumerate(blocks) if bb["term"]["k"] == "call" and (bb["term"]["func"].get("fn") or "").endswith(("mpsc::channel", "mpsc::sync_channel"))]
    bounded = [i for i in chan if (blocks[i]["term"]["func"].get("fn") or "").endswith("sync_channel")]
    ck.inst("G6", "result-channel-unbounded", bool(chan) and not bounded, rb.span,
            "the worker->collector channel is mpsc::channel(): a worker's send never blocks, so every worker reaches its terminate check and can be joined"
            if not bounded else "the worker->collector channel is bounded (sync_channel): after the collector's last recv() a worker can block in send() "
            "forever and the join of that worker never returns (the run does not terminate under that schedule)")
    recv_b = [i for i, bb in enumerate(blocks) if bb["term"]["k"] == "call" and (bb["term"]["func"].get("fn") or "") == RECV and not bb.get("cleanup")]
    if len(chan) != 1 or len(recv_b) != 1:
        raise AnalysisError("do_run MIR: expected one mpsc::channel() and one recv()")
    pair = blocks[chan[0]]["term"]["dest"]["l"]
    tx_local = None
    for bb in blocks:
        for st in bb["stmts"]:
            if st["k"] == "assign" and st["rv"]["k"] == "use" and st["rv"]["op"].get("k") == "move":
                pl = st["rv"]["op"]["p"]
                if pl["l"] == pair and pl.get("proj") and pl["proj"][0][:2] == ["field", 0] and not st["p"].get("proj"):
                    tx_local = st["p"]["l"]
    if tx_local is None:
        raise AnalysisError("do_run MIR: cannot find the Sender local of the result channel")
    # blocks where the sender is dropped or moved away
    kills = set()
    for i, bb in enumerate(blocks):
        if bb.get("cleanup"):
            continue
        t = bb["term"]
        if t["k"] == "drop" and t["p"]["l"] == tx_local and not t["p"].get("proj"):
            kills.add(i)
        def moved(op):
            return isinstance(op, dict) and op.get("k") == "move" and op["p"]["l"] == tx_local and not op["p"].get("proj")
        if t["k"] == "call" and any(moved(a) for a in t["args"]):
            kills.add(i)
        for st in bb["stmts"]:
            if st["k"] == "assign" and st["rv"]["k"] == "use" and moved(st["rv"]["op"]):
                kills.add(i)
    dom, preds = dominators(blocks)
    dead_at_recv = any(k in dom[recv_b[0]] and k != recv_b[0] for k in kills)
    ck.inst("G6", "no-live-sender-at-recv", dead_at_recv, blocks[recv_b[0]]["term"]["sp"],
            "the collector's own Sender (MIR local _%d) is dropped/moved on every path before the blocking recv()" % tx_local if dead_at_recv else
            "the collector keeps its own Sender (MIR local _%d) alive across the blocking results_rx.recv(): if every worker thread dies "
            "(e.g. Interleaver::interleave or Psk8Modulator::modulate assert on a block size that does not fit) recv() can never return and "
            "the run hangs instead of returning an error" % tx_local)
    # recv()/join() results must not be unwrapped
    def unwrapped(callee_rx):
        out = []
        for n in [x for bd in [rb] + [F.bodies[p] for p in stage_helpers] for x in walk(bd.value)]:
            if n.get("k") == "mcall" and n["m"] in ("unwrap", "expect"):
                r = strip(n["recv"])
                if r.get("k") == "mcall" and re.search(callee_rx, r.get("def") or ""):
                    out.append(n)
        return out
    ur = unwrapped(r"Receiver::<T>::recv$")
    ck.inst("G6", "recv-disconnect-handled", not ur, ur[0]["sp"] if ur else rb.span,
            "a disconnected recv() (all workers gone) is handled, not unwrapped" if not ur else "results_rx.recv().unwrap(): when every worker is gone this panics instead of returning an error")
    uj = unwrapped(r"JoinHandle::<T>::join$")
    ck.inst("G6", "join-panic-handled", not uj, uj[0]["sp"] if uj else rb.span,
            "a panicked worker (join() == Err) is turned into an error" if not uj else "handle.join().unwrap(): a worker panic (block sizes that do not fit) propagates as a panic of the collector instead of an error")

    # G7: the counters add up *whole-frame results*; their definition is the worker's (simulate)
    from ..report import RuleAlias
    from . import c12
    c12.run(RuleAlias(ck, "G7", only=lambda r_, k_: r_ == "B1"), F, "quick")
