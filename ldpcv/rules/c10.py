"""C10 - a decoder object carries no state between frames: definite re-initialisation of every per-call field."""
import re

from ..extract import AnalysisError
from ..facts import walk, strip, callee, access_path, children
from ..decmodel import self_field_uses, FL, HL, ARI

LEVEL = "proof"
PARTIAL_ADAPTERS = {"skip", "take", "step_by", "filter", "filter_map", "take_while", "skip_while", "map_while", "chain",
                    "flat_map", "scan", "peekable", "cycle", "nth", "last"}


def self_field(n):
    """first field after `self` of a place expression, else None"""
    ap = access_path(n)
    if ap and ap[0].split("#")[0] == "self" and len(ap) >= 2:
        return ap[1]
    return None


def iter_components(it):
    """Flatten zip/enumerate chains of a for-loop iterator into its component source expressions.
    Returns list of (component expr, adapters applied) or None when a partial adapter (skip, take, filter, ..) occurs."""
    it = strip(it)
    if it.get("k") == "mcall":
        m = it["m"]
        if m == "zip":
            a = iter_components(it["recv"])
            b = iter_components(it["args"][0])
            return None if a is None or b is None else a + b
        if m == "enumerate":
            return iter_components(it["recv"])
        if m in ("iter", "iter_mut"):
            return [(it, m)]
        if m in ("rev", "map", "copied", "cloned", "by_ref", "inspect"):
            return iter_components(it["recv"])      # one element out per element in: the same positions are visited
        if m == "flat_map" and it["args"] and strip(it["args"][0]).get("k") == "closure":
            # outer.iter_mut().flat_map(|row| row.iter_mut()): every element of every row, i.e. the whole nested store
            base = iter_components(it["recv"])
            clo = strip(it["args"][0])
            cb = strip(clo["body"])
            prm = clo["params"][0] if clo.get("params") else {}
            if base is not None and len(base) == 1 and base[0][1] in ("iter", "iter_mut") and cb.get("k") == "mcall" and \
                    cb["m"] == base[0][1] and prm.get("k") == "bind" and is_param(cb["recv"], prm["name"]):
                return base
            return None
        if m in PARTIAL_ADAPTERS:
            return None
        return [(it, "expr")]
    return [(it, "expr")]


def is_param(n, name):
    n = strip(n)
    return n.get("k") == "path" and n.get("res") == "local" and n.get("name") == name


class Flow:
    """Forward must-analysis over the structured body of a method of a decoder struct."""

    def __init__(self, F, prefix, summaries):
        self.F, self.prefix, self.summaries = F, prefix, summaries
        self.writeonly = set()  # ids of `self.f` nodes used only to be overwritten (recognised idioms)
        self.reads = []        # (field, site, state at that point)
        self.aliases = {}      # local name -> self field (let x = &mut self.f)
        self.alias_ok = set()  # ids of alias uses that are pure writes (receiver of store.send)
        self.iter_lets = {}    # local name -> iterator expression it was bound to (let it = self.f.iter_mut()...)
        self.iter_used = set()

    # -- reads -----------------------------------------------------------------
    def scan_reads(self, n, state, skip=()):
        """every content read of a self field below n (excluding nodes in skip)"""
        for x in walk(n):
            if any(x is s for s in skip):
                continue
            if x.get("k") == "field":
                e = strip(x["e"])
                if e.get("k") == "path" and e.get("res") == "local" and e["name"].split("#")[0] == "self":
                    self.reads.append((x["f"], x.get("sp"), frozenset(state), x))
            if x.get("k") == "path" and x.get("res") == "local" and x.get("name") in self.aliases and id(x) not in self.alias_ok:
                # any other use of `let a = &mut self.f` may read the field
                self.reads.append((self.aliases[x["name"]], x.get("sp"), frozenset(state), x))

    def prune_len_reads(self, root):
        """`.len()` of a buffer and `&mut` write-only uses are not content reads"""
        lens = set(self.writeonly)
        for x in walk(root):
            if x.get("k") == "mcall" and x["m"] in ("len", "is_empty", "resize", "send", "reserve", "copy_from_slice",
                                                    "clone_from_slice", "fill"):
                f = strip_field(x["recv"])
                if f is not None:
                    lens.add(id(f))
            if x.get("k") in ("assign",):
                f = strip_field(x["l"])
                if f is not None:
                    lens.add(id(f))
        self.reads = [r for r in self.reads if id(r[3]) not in lens]

    # -- statements ------------------------------------------------------------
    def flow(self, n, state):
        """returns (state_out, diverges)"""
        n0 = n
        k = n.get("k")
        if k == "block":
            st = set(state)
            for s in n.get("stmts", []):
                if s["k"] == "let":
                    if "init" in s:
                        al = s["init"]
                        if al.get("k") == "ref" and self_field(al["e"]) and s["pat"].get("k") == "bind":
                            self.aliases[s["pat"]["name"]] = self_field(al["e"])
                            if al.get("mut") and strip(al["e"]).get("k") == "field" and len(access_path(al["e"]) or ()) == 2:
                                # taking `&mut self.f` reads nothing; the uses of the alias are tracked instead
                                sf = strip_field(al["e"])
                                if sf is not None:
                                    self.writeonly.add(id(sf))
                        if s["pat"].get("k") == "bind" and "sub" not in s["pat"] and not s["pat"].get("mut") and \
                                ("std::iter::" in al.get("ty", "") or "::Iter" in al.get("ty", "")) and iter_components(al) is not None and \
                                any(self_field(c[0].get("recv", {})) for c in iter_components(al) if c[1] in ("iter", "iter_mut")):
                            # an iterator over self fields bound to a name: analysed where it is consumed by a `for`
                            self.iter_lets[s["pat"]["name"]] = al
                            continue
                        st, d = self.flow(s["init"], st)
                        if d:
                            return st, True
                else:
                    st, d = self.flow(s["e"], st)
                    if d:
                        return st, True
            if n.get("e") is not None:
                return self.flow(n["e"], st)
            return st, False
        if k == "if":
            st, d = self.flow(n["c"], state)
            s1, d1 = self.flow(n["t"], set(st))
            if "e" in n:
                s2, d2 = self.flow(n["e"], set(st))
            else:
                s2, d2 = set(st), False
            if d1 and d2:
                return st, True
            if d1:
                return s2, False
            if d2:
                return s1, False
            return s1 & s2, False
        if k == "ret":
            if "e" in n:
                self.flow(n["e"], state)
            return state, True
        if k == "for":
            return self.flow_for(n, state), False
        if k in ("while", "loop"):
            self.scan_reads(n, state)
            return set(state), False
        if k == "mcall" and n["m"] == "for_each" and n.get("args") and strip(n["args"][0]).get("k") == "closure" and \
                (n.get("def") or "").endswith("Iterator::for_each"):
            # it.for_each(|x| body) is `for x in it { body }`
            clo = strip(n["args"][0])
            fake = {"k": "for", "pat": clo["params"][0] if clo.get("params") else {"k": "wild"}, "iter": n["recv"], "body": clo["body"], "sp": n.get("sp")}
            return self.flow_for(fake, state), False
        if k == "mcall":
            rp = access_path(n["recv"])
            if rp and len(rp) == 1 and rp[0].split("#")[0] == "self" and (n.get("def") or "").startswith(self.prefix):
                summ = self.summaries.get(n["def"])
                if summ is None:
                    # any other method of the same struct (e.g. an extracted helper): summarised on demand
                    if n["def"] in self.summaries.get("__active__", ()):
                        raise AnalysisError("recursive method %s" % n["def"])
                    if self.F is None or n["def"] not in self.F.bodies:
                        raise AnalysisError("no summary for %s" % n["def"])
                    self.summaries.setdefault("__active__", set()).add(n["def"])
                    try:
                        summ = summarize(self.F, self.prefix, n["def"], self.summaries)
                    finally:
                        self.summaries["__active__"].discard(n["def"])
                    self.summaries[n["def"]] = summ
                st = set(state)
                for a in n["args"]:
                    st, _ = self.flow(a, st)
                for f, sp in summ["reads"]:
                    self.reads.append((f, n.get("sp"), frozenset(st), {"via": n["def"], "inner": sp}))
                return st | summ["writes"], False
            # arithmetic send_* with a closure that sends into a store: full write of that store (premise K1)
            if (n.get("def") or "") in (ARI + "send_check_messages", ARI + "send_var_messages"):
                st = set(state)
                wrote = set()
                for a in n["args"]:
                    a0 = strip(a)
                    if a0.get("k") == "block" and a0.get("e") is not None and strip(a0["e"]).get("k") == "closure":
                        # { let alias = &mut self.f; move |msg| alias.send(..) }
                        for s in a0.get("stmts", []):
                            al = s.get("init", {}) if s.get("k") == "let" else {}
                            if al.get("k") == "ref" and al.get("mut") and self_field(al["e"]) and s["pat"].get("k") == "bind":
                                self.aliases[s["pat"]["name"]] = self_field(al["e"])
                                sf = strip_field(al["e"])
                                if sf is not None:
                                    self.writeonly.add(id(sf))
                        a0 = strip(a0["e"])
                    if a0.get("k") == "closure":
                        for x in walk(a0["body"]):
                            if x.get("k") == "mcall" and x["m"] == "send":
                                nm = access_path(x["recv"])
                                if nm and nm[0] in self.aliases:
                                    wrote.add(self.aliases[nm[0]])
                                    for y in walk(x["recv"]):
                                        if y.get("k") == "path" and y.get("name") == nm[0]:
                                            self.alias_ok.add(id(y))
                                elif self_field(x["recv"]):
                                    wrote.add(self_field(x["recv"]))
                    else:
                        st, _ = self.flow(a, st)
                self.scan_reads(n["recv"], st)
                self.pending_full = getattr(self, "pending_full", set()) | wrote
                return st, False
        if k == "mcall" and n["m"] in ("copy_from_slice", "clone_from_slice", "fill") and self_field(n["recv"]) \
                and strip(n["recv"]).get("k") == "field" and len(access_path(n["recv"]) or ()) == 2:
            # idiom E: whole-buffer overwrite by a slice operation
            st = set(state)
            for a in n["args"]:
                self.scan_reads(a, st)
            return st | {self_field(n["recv"])}, False
        # closures handed to iterator consumers (find / any / all / position / map ..) may run zero or more times: the calls of
        # receiver methods inside them are read with the state before, and whatever they write does not count as definitely written
        if k in ("mcall", "call"):
            for a in n.get("args", []):
                a0 = strip(a)
                if a0.get("k") == "closure" and any(x.get("k") == "mcall" and (x.get("def") or "").startswith(self.prefix) and self.prefix
                                                     for x in walk(a0["body"])):
                    self.flow(a0["body"], set(state))
        # generic expression: reads of self fields, then recurse is unnecessary (scan covers the subtree)
        self.scan_reads(n0, state)
        return set(state), False

    def flow_for(self, n, state):
        it0 = strip(n["iter"])
        while it0.get("k") == "mcall" and it0["m"] == "into_iter":
            it0 = strip(it0["recv"])
        if it0.get("k") == "path" and it0.get("res") == "local" and it0.get("name") in self.iter_lets and it0["name"] not in self.iter_used:
            self.iter_used.add(it0["name"])
            n = dict(n, iter=self.iter_lets[it0["name"]])
        comps = iter_components(n["iter"])
        body = n["body"]
        st = set(state)
        full = set()
        # idiom A / D: whole-slice iter_mut of a self field whose element is assigned unconditionally
        if comps is not None:
            for expr, kind in comps:
                if kind == "iter_mut":
                    f = self_field(expr["recv"])
                    if f and self.assigns_element_unconditionally(n, expr):
                        full.add(f)
                        sf = strip_field(expr["recv"])
                        if sf is not None:
                            self.writeonly.add(id(sf))
        # idiom B: unconditional send into a self store inside whole loops
        sends = set()
        if comps is not None and all(kind in ("iter", "iter_mut", "expr") for _, kind in comps):
            for f in self.unconditional_sends(body):
                sends.add(f)
        # reads: iterator expressions and the body, with the state before the loop (+ nothing from the body itself)
        self.scan_reads(n["iter"], st)
        self.pending_full = set()
        bst, _ = self.flow(body, set(st))
        full |= sends | getattr(self, "pending_full", set())
        self.pending_full = set()
        if comps is None:
            return st        # partial iteration: nothing is definitely (fully) written
        return st | full

    def assigns_element_unconditionally(self, forn, iter_mut_expr):
        """the for body (or one nested whole iter_mut loop) assigns the element / its .value at statement level"""
        body = strip(forn["body"])
        stmts = body.get("stmts", []) if body.get("k") == "block" else []
        tail = body.get("e") if body.get("k") == "block" else body
        tops = before_escape(stmts, tail)
        for e in tops:
            e = strip(e)
            if e.get("k") == "assign":
                l = e["l"]
                if l.get("k") == "un" and l.get("op") == "Deref":
                    return True
                if strip(l).get("k") == "field" and strip(l)["f"] == "value":
                    return True
            if e.get("k") == "for":
                inner = iter_components(e["iter"])
                if inner is not None and any(kind == "iter_mut" for _, kind in inner) and self.assigns_element_unconditionally(e, None):
                    return True
        return False

    def unconditional_sends(self, body):
        out = set()
        body = strip(body)
        stmts = body.get("stmts", []) if body.get("k") == "block" else []
        tail = body.get("e") if body.get("k") == "block" else body
        tops = before_escape(stmts, tail)
        for e in tops:
            e = strip(e)
            if e.get("k") == "mcall" and e["m"] == "send" and self_field(e["recv"]):
                out.add(self_field(e["recv"]))
            if e.get("k") == "for":
                comps = iter_components(e["iter"])
                if comps is not None:
                    out |= self.unconditional_sends(e["body"])
        return out


def before_escape(stmts, tail):
    """statement-level expressions of a loop body that are reached on *every* iteration: everything before the first statement
    that can leave the iteration early (continue / break / return / `?`), which makes what follows conditional"""
    out = []
    for s in stmts:
        node = s.get("init") if s.get("k") == "let" else s.get("e")
        if node is not None and any(x.get("k") in ("continue", "break", "ret", "try") for x in walk(node)):
            return out
        if s.get("k") == "let" and s.get("els") is not None:
            return out
        if s.get("k") == "semi":
            out.append(s["e"])
    if tail is not None:
        out.append(tail)
    return out


def strip_field(n):
    """the `self.f` field node at the root of a place, else None"""
    cur = n
    while True:
        cur = strip(cur)
        if cur.get("k") == "field":
            e = strip(cur["e"])
            if e.get("k") == "path" and e.get("res") == "local" and e["name"].split("#")[0] == "self":
                return cur
            cur = cur["e"]
        elif cur.get("k") == "index":
            cur = cur["e"]
        elif cur.get("k") == "mcall" and cur["m"] in ("iter", "iter_mut", "as_ref", "as_mut"):
            cur = cur["recv"]
        else:
            return None


def summarize(F, prefix, path, summaries=None):
    b = F.body(path)
    fl = Flow(F, prefix, summaries if summaries is not None else {})
    st, _ = fl.flow(b.value, set())
    for nm, init in fl.iter_lets.items():
        if nm not in fl.iter_used:
            fl.scan_reads(init, set())
    fl.prune_len_reads(b.value)
    reads = [(f, sp) for f, sp, state, node in fl.reads if f not in state]
    return {"reads": reads, "writes": st}


def run(ck, F, tier):
    ck.explanation = (
        "Decided (S): the property is equivalent to 'every field of the decoder object that is modified during decode is "
        "completely rewritten in a later call before it is read'. Z1 classifies the fields of both schedule structs into constant "
        "(never written after construction) and per-call; Z2 is a forward must-analysis over the structured body of decode with "
        "callee summaries (fields read before written, fields fully overwritten), where 'fully overwritten' is recognised through "
        "five enumerated idioms (whole-slice iter_mut loop assigning every element, nested iter_mut loops assigning every .value, whole-buffer copy_from_slice/fill, "
        "unconditional store.send in loops over all edges, arithmetic send_* whose closure sends into the store); loops may run zero "
        "times, so the zero-iteration path is covered without any input; Z3 the arithmetic scratch vectors are only read through a zip "
        "over the same message slice that an earlier whole-prefix iter_mut loop in the same call has just written; Z4 long-lived holders "
        "(BER workers, C handles) use their decoder only through LdpcDecoder::decode. Residual assumption: user-defined arithmetics "
        "are themselves stateless.")
    ck.rule("Z1", "field classification: which fields are written anywhere under decode")
    ck.rule("Z2", "no per-call field is read in decode (or a callee) before this call has fully rewritten it, on any path incl. zero iterations")
    ck.rule("Z3", "arithmetic scratch vectors: read only over the prefix written earlier in the same call")
    ck.rule("Z5", "the message stores are completely rewritten in every iteration: each check rule of every arithmetic emits exactly one message per neighbour, addressed to it (C04-K1, run here; a neighbour left out keeps the previous frame's message)")
    ck.rule("Z4", "holders call only LdpcDecoder::decode on the stored decoder")
    ck.trust("idiom table of full overwrites (5 entries) and the equal-length premise asserted at the top of decode")
    ck.trust("premise from C03-F2 / C04-K1: stores are built from the matrix adjacency and every arithmetic emits one message per neighbour")
    ck.trust("Iterator::zip/enumerate visit every element of equal-length whole slices in order")

    from ..decmodel import phase_methods
    for sched, prefix in (("flooding", FL), ("horizontal_layered", HL)):
        summaries = {}
        allw = set()
        # every method of the decoder struct other than decode/new is summarised (state-changing steps and read-only helpers alike)
        callees = [p[len(prefix):] for p, bb in F.bodies.items() if p.startswith(prefix) and "{closure" not in p and bb.hir
                   and bb.d.get("def_kind") == "AssocFn" and p[len(prefix):] not in ("decode", "new")]
        for c in sorted(callees):
            if prefix + c not in summaries:
                summaries[prefix + c] = summarize(F, prefix, prefix + c, summaries)
            u = self_field_uses(F.body(prefix + c))
            allw |= {f for f, d in u.items() if "w" in d}
        summaries.pop("__active__", None)
        u = self_field_uses(F.body(prefix + "decode"))
        allw |= {f for f, d in u.items() if "w" in d}
        adt = F.adt("decoder::%s::Decoder" % sched)
        fields = [f["name"] for f in adt["variants"][0]["fields"]]
        const = [f for f in fields if f not in allw]
        percall = [f for f in fields if f in allw and f != "arithmetic"]
        ck.inst("Z1", sched + ":classification", "h" in const and set(percall) == set(fields) - {"h", "arithmetic"}, adt["span"],
                "constant after new(): %s ; per-call: %s ; arithmetic: scratch handled by Z3" % (const, percall), {"fields": fields})
        for c in callees:
            s = summaries[prefix + c]
            ck.ok("Z2", "%s:summary:%s" % (sched, c), F.body(prefix + c).span,
                  "%s: reads before writing %s ; fully overwrites %s" % (c, sorted({f for f, _ in s["reads"]}), sorted(s["writes"])),
                  {"reads": sorted({f for f, _ in s["reads"]}), "writes": sorted(s["writes"])})
        db = F.body(prefix + "decode")
        fl = Flow(F, prefix, summaries)
        st, _ = fl.flow(db.value, set())
        for nm, init in fl.iter_lets.items():
            if nm not in fl.iter_used:
                fl.scan_reads(init, set())
        fl.prune_len_reads(db.value)
        bad = {}
        nreads = 0
        for f, sp, state, node in fl.reads:
            if f in ("h", "arithmetic"):
                continue
            nreads += 1
            if f not in state:
                via = node.get("via") if isinstance(node, dict) else None
                bad.setdefault((f, via or "decode"), sp)
        for f in percall:
            offenders = [(k, sp) for k, sp in bad.items() if k[0] == f]
            if offenders:
                (ff, via), sp = offenders[0]
                ck.fail("Z2", "%s:stale-read:%s" % (sched, f), sp,
                        "field `%s` can be read by %s before this call has rewritten it (e.g. on the path that runs zero iterations): a value "
                        "left by the previous frame leaks into the result" % (f, via.rsplit("::", 1)[-1]))
            else:
                ck.ok("Z2", "%s:fresh:%s" % (sched, f), db.span, "every read of `%s` under decode is preceded in the same call by a full overwrite" % f)
        ck.floor("Z2", "%s: reads of per-call fields inspected" % sched, nreads, 3)

    # ---- Z3 ------------------------------------------------------------------------------------------------
    n3 = 0
    for im in F.impls_of("decoder::arithmetic::DecoderArithmetic"):
        ty = im["self_ty"]
        adt = F.adts.get(ty)
        if not adt:
            continue
        scratch = [f["name"] for f in adt["variants"][0]["fields"] if f["ty"].startswith("std::vec::Vec<")]
        other = [f["name"] for f in adt["variants"][0]["fields"] if f["name"] not in scratch]
        for mem in im["members"]:
            bb = F.bodies.get(mem["path"])
            if bb is None or not bb.hir:
                continue
            uses = self_field_uses(bb)
            for f in other:
                if "w" in uses.get(f, {}):
                    ck.fail("Z3", "%s:%s:writes-%s" % (ty.rsplit("::", 1)[-1], mem["name"], f), bb.span, "method writes the non-scratch field `%s` (state carried between calls)" % f)
            for f in scratch:
                if f not in uses:
                    continue
                n3 += 1
                ok, why = scratch_discipline(bb, f)
                ck.inst("Z3", "%s:%s:%s" % (ty.rsplit("::", 1)[-1], mem["name"], f), ok, bb.span, why)
    ck.floor("Z3", "scratch uses", n3, 6)

    # ---- Z4 ------------------------------------------------------------------------------------------------
    n4 = 0
    for b in F.find_bodies(r"(simulation::ber|c_api::decoder)::.*"):
        if not b.hir:
            continue
        for n in walk(b.value):
            if n.get("k") == "field" and n["f"] == "decoder" and "dyn decoder::LdpcDecoder" in n.get("ty", ""):
                n4 += 1
                # must be the receiver of .decode(..)
                par = [p for p in walk(b.value) if p.get("k") == "mcall" and strip(p["recv"]) is n]
                ok = len(par) == 1 and par[0]["m"] == "decode" and (par[0].get("def") or "").endswith("LdpcDecoder::decode")
                if not ok:
                    ok = handed_to_decode_only(F, b, n)
                ck.inst("Z4", "holder-use:%s#%d" % (b.path.rsplit("::", 1)[-1], n4), ok, n["sp"],
                        "%s uses its stored decoder %s" % (b.path, "only as receiver of LdpcDecoder::decode" if ok else "in another way"))
    ck.floor("Z4", "uses of a stored Box<dyn LdpcDecoder>", n4, 2)

    # Z5: completeness of the per-iteration rewrite of the message stores rests on the arithmetics' emission discipline
    from ..report import RuleAlias
    from . import c04
    c04.run(RuleAlias(ck, "Z5", only=lambda r_, k_: r_ == "K1"), F, "quick", only=("K1",))


def handed_to_decode_only(F, body, node, depth=0):
    """the stored decoder (possibly through as_mut()/&mut/deref) is passed to a private function that uses that parameter only as the
    receiver of LdpcDecoder::decode (or passes it on in the same way)"""
    VIEW = ("as_mut", "as_ref", "deref_mut", "deref", "borrow_mut")

    def peel_up(x):
        # the expression that wraps node through view calls / borrows
        cur = x
        changed = True
        while changed:
            changed = False
            for p in walk(body.value):
                if p.get("k") == "mcall" and p["m"] in VIEW and strip(p["recv"]) is cur and not p["args"]:
                    cur, changed = p, True
                elif p.get("k") in ("ref", "un") and p.get("e") is not None and strip(p["e"]) is cur:
                    cur, changed = p, True
        return cur
    top = peel_up(node)
    for c in walk(body.value):
        if c.get("k") in ("call", "mcall"):
            args = c.get("args", [])
            for i, a in enumerate(args):
                if strip(a) is top or a is top:
                    hb = F.private_helper(callee(c) or "", "")
                    if hb is None or depth > 2:
                        return False
                    pi = i + (1 if c.get("k") == "mcall" else 0)
                    if pi >= len(hb.params) or hb.params[pi].get("k") != "bind":
                        return False
                    pname = hb.params[pi]["name"]
                    uses = [x for x in walk(hb.value) if x.get("k") == "path" and x.get("res") == "local" and x.get("name") == pname]
                    for u in uses:
                        recv_of = [m for m in walk(hb.value) if m.get("k") == "mcall" and strip(m["recv"]) is u]
                        if len(recv_of) == 1 and recv_of[0]["m"] == "decode" and (recv_of[0].get("def") or "").endswith("LdpcDecoder::decode"):
                            continue
                        if not handed_to_decode_only(F, hb, u, depth + 1):
                            return False
                    return bool(uses)
    return False


def scratch_discipline(body, field):
    """prefix-write then same-slice zip-read discipline for an arithmetic scratch vector"""
    written_over = []   # access paths of the message slice X in zip(X.iter(), self.S.iter_mut()) loops with `*s = ..`
    problems = []
    order = []
    pos = {id(x): i for i, x in enumerate(walk(body.value))}     # program (pre-)order of the nodes
    for n in walk(body.value):
        if n.get("k") == "for":
            comps = iter_components(n["iter"])
            if comps is None:
                if any(x.get("k") == "field" and x["f"] == field for x in walk(n["iter"])):
                    problems.append("partial iterator over %s at %s" % (field, n.get("sp")))
                continue
            mine = [c for c in comps if c[1] in ("iter", "iter_mut") and strip_field(c[0]["recv"]) is not None and strip_field(c[0]["recv"])["f"] == field]
            if not mine:
                continue
            others = [access_path(c[0]["recv"]) for c in comps if c not in mine and c[1] in ("iter", "iter_mut")]
            if mine[0][1] == "iter_mut":
                fl = Flow(None, "", {})
                if fl.assigns_element_unconditionally(n, mine[0][0]) and others:
                    written_over.append(others[0])
                    order.append(("w", others[0], n.get("sp"), pos[id(n)]))
                    # ... and the element must not be read before it is written in that iteration (it still holds what the previous
                    # call - possibly the previous frame - left there)
                    body_ = strip(n["body"])
                    stmts_ = body_.get("stmts", []) if body_.get("k") == "block" else []
                    first_w = None
                    for i_, st_ in enumerate(stmts_):
                        e_ = strip(st_.get("e")) if st_.get("k") != "let" and st_.get("e") is not None else None
                        if e_ is not None and e_.get("k") == "assign" and e_["l"].get("k") == "un" and e_["l"].get("op") == "Deref":
                            tgt_ = strip(e_["l"]["e"])
                            if tgt_.get("k") == "path" and tgt_.get("res") == "local":
                                first_w = (i_, tgt_.get("name"), e_)
                                break
                    if first_w is not None:
                        i_, nm_, asg_ = first_w
                        reads = []
                        for st_ in stmts_[:i_]:
                            reads += [x for x in walk(st_) if x.get("k") == "un" and x.get("op") == "Deref" and strip(x["e"]).get("k") == "path" and strip(x["e"]).get("name") == nm_]
                        reads += [x for x in walk(asg_["r"]) if x.get("k") == "un" and x.get("op") == "Deref" and strip(x["e"]).get("k") == "path" and strip(x["e"]).get("name") == nm_]
                        if reads:
                            problems.append("%s: the element is read before it is written in the write loop at %s" % (field, n.get("sp")))
                else:
                    problems.append("iter_mut loop over %s does not assign every element" % field)
            else:
                order.append(("r", others[0] if others else None, n.get("sp"), pos[id(n)]))
    # the same discipline for zipped iterator chains consumed by an adaptor pipeline (X.iter().zip(self.S.iter()).filter_map(..).product())
    in_for = set()
    for n in walk(body.value):
        if n.get("k") == "for":
            in_for.update(id(x) for x in walk(n["iter"]))
    inner_zip = set()
    for n in walk(body.value):
        if n.get("k") == "mcall" and n["m"] == "zip" and id(n) not in in_for and id(n) not in inner_zip:
            inner_zip.update(id(x) for x in walk(n) if x is not n)
            if not any(x.get("k") == "field" and x["f"] == field for x in walk(n)):
                continue
            comps = iter_components(n)
            if comps is None:
                problems.append("%s is zipped with a partial iterator (skip / take / filter before the zip) at %s" % (field, n.get("sp")))
                continue
            mine = [c for c in comps if c[1] in ("iter", "iter_mut") and strip_field(c[0]["recv"]) is not None and strip_field(c[0]["recv"])["f"] == field]
            others = [access_path(c[0]["recv"]) for c in comps if c not in mine and c[1] in ("iter", "iter_mut")]
            if mine and mine[0][1] == "iter":
                order.append(("r", others[0] if others else None, n.get("sp"), pos[id(n)]))
    order.sort(key=lambda o: o[3])
    seen_w = []
    for kind, x, sp, _ in order:
        if kind == "w":
            seen_w.append(x)
        elif x not in seen_w:
            problems.append("%s read at %s zipped with %s, which no earlier loop of this call has written over" % (field, sp, x))
    # any other content use of the scratch field?
    for n in walk(body.value):
        if n.get("k") == "field" and n["f"] == field:
            pass
    for n in walk(body.value):
        if n.get("k") == "mcall":
            sf = strip_field(n["recv"])
            if sf is not None and sf["f"] == field and n["m"] not in ("iter", "iter_mut", "len", "resize"):
                problems.append("%s.%s() at %s" % (field, n["m"], n.get("sp")))
        if n.get("k") == "index":
            sf = strip_field(n["e"])
            if sf is not None and sf["f"] == field:
                problems.append("%s indexed directly at %s" % (field, n.get("sp")))
    # the scratch vector is grown to the number of messages whenever it is shorter: `if S.len() < X.len() { S.resize(X.len(), ..) }`
    # (or an unconditional resize); a guard that lets a too-short vector through makes the zipped loops stop early
    def is_len_of(n_, want_field):
        n_ = strip(n_)
        if n_.get("k") != "mcall" or n_["m"] != "len":
            return False
        sf_ = strip_field(n_["recv"])
        return (sf_ is not None and sf_["f"] == field) if want_field else (sf_ is None or sf_["f"] != field)
    for n in walk(body.value):
        if n.get("k") == "if":
            rs = [x for x in walk(n["t"]) if x.get("k") == "mcall" and x["m"] == "resize" and strip_field(x["recv"]) is not None and strip_field(x["recv"])["f"] == field]
            if not rs:
                continue
            c_ = strip(n["c"])
            ok_guard = False
            if c_.get("k") == "bin" and c_.get("op") in ("Lt", "Le"):
                ok_guard = is_len_of(c_["l"], True) and is_len_of(c_["r"], False)
            elif c_.get("k") == "bin" and c_.get("op") in ("Gt", "Ge"):
                ok_guard = is_len_of(c_["r"], True) and is_len_of(c_["l"], False)
            elif c_.get("k") == "bin" and c_.get("op") == "Ne":
                ok_guard = (is_len_of(c_["l"], True) and is_len_of(c_["r"], False)) or (is_len_of(c_["r"], True) and is_len_of(c_["l"], False))
            if not ok_guard:
                problems.append("%s is resized only under a condition that is not `%s.len() < messages.len()` (at %s)" % (field, field, n.get("sp")))
            if not all(is_len_of(x["args"][0], False) for x in rs if x.get("args")):
                problems.append("%s is not resized to the number of messages" % field)
    if problems:
        return False, "; ".join(problems[:3])
    return bool(order), "%s: %d whole-prefix write loop(s) precede %d zip-read loop(s) over the same message slice; only len()/resize() otherwise" % (
        field, len([o for o in order if o[0] == "w"]), len([o for o in order if o[0] == "r"]))

