"""C04 - every arithmetic's check-node message is a faithful box-plus: emission discipline, leave-one-out structure,
sibling operator profiles, constants. Numeric agreement with 2*atanh(prod tanh(x/2)) is NOT decided."""
import re
from collections import Counter
from fractions import Fraction

from ..extract import AnalysisError
from ..facts import walk, strip, callee, lit_value, access_path, plain_local
from ..symx import SymEval, Poly, Unsupported, app, var, num, single_atom, atom_fn, atom_args, contains_atom, vkey
from ..trace import Tracer
from ..profiles import profile, diff, fmt
from ..absint import AInt, ABool
from .c05 import mk_eval

LEVEL = "other"
ARI = "decoder::arithmetic::"
TRAIT = ARI + "DecoderArithmetic"
FAMILY = [("Phif", "phif"), ("Tanhf", "tanhf"), ("Minstarapproxf", "minstarapproxf"), ("Minstarapproxi8", "minstarapproxi8"),
          ("Aminstarf", "aminstarf"), ("Aminstari8", "aminstari8")]
CORE_CALLS = {"abs", "min", "max", "exp", "ln_1p", "ln", "tanh", "atanh", "clamp", "lookup", "saturating_add", "phi", "expect", "min_by",
              "min_by_key", "partial_cmp", "product"}


def family_of(ty):
    for pre, fam in sorted(FAMILY, key=lambda x: -len(x[0])):
        if ty.startswith(pre):
            return fam
    return None


def core(p):
    """sign / magnitude / exclusion core of a profile, with operand roles normalised"""
    c = Counter()
    for k, v in p.items():
        if k[0] == "cmp":
            op, l, r = k[1], k[2], k[3]
            if op == "Lt" and r in ("lit:0", "lit:0.0"):
                c[("sign-test",)] += v
            elif op in ("Ne", "Eq") and l.startswith("field:") and r.startswith("field:"):
                c[("exclude-by-tag",)] += v
            elif op in ("Ne", "Eq") and ((l.startswith("field:") and r == "index") or (r.startswith("field:") and l == "index")):
                c[("exclude-by-tag",)] += v          # the excluded message's tag copied into a local first
            elif op in ("Ne", "Eq") and l == "index" and r == "index":
                c[("exclude-by-index",)] += v
            elif op in ("Eq", "Ne") and r in ("lit:0",) and l.startswith("var:u32"):
                c[("sign-select",)] += v
            elif l.startswith("call:len") or r.startswith("call:len"):
                pass
            else:
                c[("cmp", op, l.split(":")[0], r)] += v
        elif k[0] == "bin" and k[1] == "BitXor":
            c[("xor",)] += v
        elif k[0] == "assignop" and k[1] == "BitXorAssign":
            c[("xor-assign",)] += v
        elif k[0] == "neg":
            c[("neg",)] += v
        elif k[0] == "call" and k[1] in CORE_CALLS:
            c[("call", k[1])] += v
        elif k[0] == "lit" and k[1] not in (0, 1, 0.0, 1.0):
            c[("lit", k[1])] += v
    return c


def hooks_of(body):
    """hook call nodes (closure literal or `identity` applied directly) - excluded from profiles"""
    out = []
    for n in walk(body.value):
        if n.get("k") == "call":
            f = strip(n["f"])
            if f.get("k") == "closure" or (f.get("k") == "path" and f.get("def") == "std::convert::identity"):
                out.append(f)
    return out


def _deep_atoms(v):
    if isinstance(v, Poly):
        return list(v.atoms_deep())
    out = []
    if isinstance(v, (tuple, list)):
        for x in v:
            out += _deep_atoms(x)
    if isinstance(v, dict):
        for x in v.values():
            out += _deep_atoms(x)
    return out


def sign_and_step_rules(ck, F, ty, fam, tag, tr_, body):
    """K5 / K7 for the min* families, read from the traced values of one check rule (flooding or layered)"""
    from ..symx import evaluate, NotEvaluable, unkey, num_call
    what = "%s:%s" % (ty, tag)
    # -- the loop-carried parity and running-magnitude variables
    par = [st for st in tr_.assign_sites if isinstance(st[1], Poly) and single_atom(st[1]) is not None and atom_fn(single_atom(st[1])) == "bitxor" and st[2]]
    fold = [st for st in tr_.assign_sites if isinstance(st[1], tuple) and len(st[1]) == 3 and st[1][:2] == ("ctor", "Some") and st[2] and "@loop" in repr(st[1])]
    if len(par) != 1 or len(fold) != 1:
        ck.inst("K5", what, False, body.span, "expected one parity accumulator and one running magnitude (%d / %d found)" % (len(par), len(fold)))
        return
    pname = par[0][0].split("#")[0]
    ploop = single_atom(var(pname + "@loop"))
    # parity update: flips exactly when the message quantity X is negative; the other path conditions are those of the magnitude fold
    xs = [(g, p) for g, p in par[0][3] if isinstance(g, Poly) and single_atom(g) is not None and atom_fn(single_atom(g)) == "lt" and atom_args(single_atom(g))[1] == num(0)]
    rest = [(g, p) for g, p in par[0][3] if (g, p) not in xs]
    upd_ok = False
    X = None
    if len(xs) == 1 and xs[0][1] is True:
        X = atom_args(single_atom(xs[0][0]))[0]
        try:
            upd_ok = all(int(evaluate(par[0][1], {ploop: old})) == old ^ 1 for old in (0, 1))
        except NotEvaluable:
            upd_ok = False
    same_guards = [(repr(g), p) for g, p in rest] == [(repr(g), p) for g, p in fold[0][3] if not (fam.startswith("aminstar"))] or \
        (fam.startswith("aminstar") and not rest)
    # -- outgoing values: every signed selection ite(c, +-Z, -+Z)
    if tag == "flooding":
        outs = [e.args[1][2].get("value") for e in tr_.events if e.callee == "<apply>" and isinstance(e.args[1], tuple) and e.args[1][0] == "struct"]
    else:
        outs = [e.args[1] for e in tr_.events if e.callee == "<assign>"]
    signed = []
    seen = set()
    for a_ in _deep_atoms(outs):
        if a_[0] == "f" and atom_fn(a_) == "ite" and a_ not in seen:
            seen.add(a_)
            c_, t_, e_ = atom_args(a_)
            t_, e_ = unkey(t_), unkey(e_)
            if isinstance(t_, Poly) and isinstance(e_, Poly) and t_ == -e_ and isinstance(c_, Poly):
                signed.append((c_, t_, e_))
    after = single_atom(var(pname + "@after"))

    def unhook(m):
        """magnitude under the documented partial hard limit  z -> -127 if z <= -100, 127 if z >= 100, else z   (identity otherwise)"""
        a_ = single_atom(m) if isinstance(m, Poly) else None
        if a_ is not None and atom_fn(a_) == "ite":
            c1, t1, e1 = atom_args(a_)
            e1 = unkey(e1)
            a2 = single_atom(e1) if isinstance(e1, Poly) else None
            if a2 is not None and atom_fn(a2) == "ite":
                c2, t2, z = atom_args(a2)
                z = unkey(z)
                if isinstance(z, Poly) and unkey(t1) == num(-127) and unkey(t2) == num(127) and c1 == app("le", z, num(-100)) and c2 == app("le", num(100), z):
                    return z
        return m

    def positive_arm(t_, e_):
        """which arm is +Z: the magnitude is built around min(..) / the running value, which enters +Z with a positive coefficient"""
        for arm, other in ((t_, e_), (e_, t_)):
            if single_atom(arm) is not None and single_atom(-other) is not None:
                return arm
        for arm, other in ((t_, e_), (e_, t_)):
            for mono, coef in arm.t.items():
                if coef > 0 and any(a_[0] == "f" and (atom_fn(a_) in ("min", "max") or atom_fn(a_).endswith("::expect") or atom_fn(a_).endswith("::unwrap")) for a_, _ in mono):
                    return arm
        return None
    tables_ok = bool(signed)
    shown = []
    for c_, t_, e_ in signed:
        pos = positive_arm(t_, e_)
        lts = sorted({a_ for a_ in c_.atoms_deep() if a_[0] == "f" and atom_fn(a_) == "lt"}, key=repr)
        pars = sorted({a_ for a_ in c_.atoms_deep() if a_ == after}, key=repr)
        if pos is None or len(pars) != 1 or len(lts) > 1:
            tables_ok = False
            shown.append("unreadable selection %r" % (c_,))
            continue
        try:
            for pv_ in (0, 1):
                for nv_ in ((0, 1) if lts else (0,)):
                    env_ = {pars[0]: pv_}
                    if lts:
                        env_[lts[0]] = nv_
                    takes_t = bool(evaluate(c_, env_))
                    negative = (e_ is pos) if takes_t else (t_ is pos)
                    if negative != bool(pv_ ^ nv_):
                        tables_ok = False
                        shown.append("parity %d, own input negative %d -> %s" % (pv_, nv_, "negative" if negative else "positive"))
        except NotEvaluable as ex:
            tables_ok = False
            shown.append("not evaluable: %s" % ex)
    want_n = 1 if fam.startswith("minstarapprox") else 2
    ck.inst("K5", what, upd_ok and same_guards and tables_ok and len(signed) == want_n, body.span,
            "parity flips exactly on negative inputs (%s) over the same messages as the magnitude fold (%s); %d signed selection(s), each negative "
            "exactly when parity XOR own sign is odd (%s)%s" % (upd_ok, same_guards, len(signed), tables_ok, (" : " + "; ".join(shown[:3])) if shown else ""))
    # -- K7: the fold step
    fv = fold[0][1][2][0]
    fa = single_atom(fv) if isinstance(fv, Poly) else None
    step_ok = init_ok = False
    why = "running magnitude is not `match acc { None => |x|, Some(y) => step(|x|, y) }`"
    if fa is not None and atom_fn(fa) == "match" and X is not None:
        fname = fold[0][0].split("#")[0]
        acc = var(fname + "@loop")
        if atom_args(fa)[0] == acc:
            arms = {k: unkey(v) for k, v in fa[3]}
            A = num_call("abs", X)
            Y = app("payload0", acc)
            corr = lambda z: app("ln_1p", app("exp", -z)) if fam.endswith("f") else app("%s%s::lookup" % (ARI, ty), var("self.table"), z)
            base = num_call("min", A, Y) - corr(num_call("abs", A - Y))
            if fam.startswith("minstarapprox"):
                spec = num_call("max", base, num(0))
            elif fam == "aminstarf":
                spec = base + corr(A + Y)
            else:
                spec = num_call("max", base + corr(app("saturating_add", A, Y)), num(0))
            init_ok = arms.get("'None'") == A
            step_ok = arms.get("('Some', '_')") == spec
            why = "first element: |x| (%s); then step(|x|, y) = %r (%s)" % (init_ok, spec, step_ok)
    ck.inst("K7", what, init_ok and step_ok, body.span, why[:700])
    if fam.startswith("aminstar"):
        # one more fold with the least reliable input: the others get box-plus(D, |x_min|) with D the fold over j != argmin
        D = app("std::option::Option::<T>::expect", var(fold[0][0].split("#")[0] + "@after"))
        mags = []
        for c_, t_, e_ in signed:
            pos = positive_arm(t_, e_)
            if pos is not None:
                mags.append(unhook(pos))
        Ds = [m for m in mags if single_atom(m) is not None and atom_fn(single_atom(m)).endswith("::expect") and (fold[0][0].split("#")[0] + "@after") in repr(m)]
        others = [m for m in mags if m not in Ds]
        fin_ok = False
        whyf = "%d signed magnitudes (%d the plain fold)" % (len(mags), len(Ds))
        if len(Ds) == 1 and len(others) == 1:
            Dv = Ds[0]
            cands = [a_ for a_ in others[0].atoms_deep() if a_[0] == "f" and atom_fn(a_) == "abs" and "min_by" in repr(a_) and Dv.atoms() and not any(x in _deep_atoms(list(a_[2:])) for x in Dv.atoms())]
            for a_ in cands:
                V = Poly.atom(a_)
                corr = lambda z: app("ln_1p", app("exp", -z)) if fam.endswith("f") else app("%s%s::lookup" % (ARI, ty), var("self.table"), z)
                base = num_call("min", Dv, V) - corr(num_call("abs", Dv - V))
                spec = base + corr(Dv + V) if fam == "aminstarf" else num_call("max", base + corr(app("saturating_add", Dv, V)), num(0))
                spec2 = base + corr(Dv + V) if fam == "aminstarf" else num_call("max", base + corr(app("saturating_add", V, Dv)), num(0))
                if others[0] in (spec, spec2):
                    fin_ok = True
            whyf = "towards the least reliable input: D = fold over the others; towards every other input: step(D, |x_min|) (%s)" % fin_ok
        ck.inst("K7", what + ":final", fin_ok, body.span, whyf)


def run(ck, F, tier, only=None):
    """only: a set of rule ids when another property borrows some of these rules (the others are then not computed)"""
    ck.explanation = (
        "Decided (S): K1 every check rule emits exactly one message per neighbour, addressed to that neighbour (flooding: one send per "
        "element of the incoming slice with dest = its source tag; A-Min*: one send to the least reliable input plus one per j != argmin; "
        "layered: every message's value assigned once and vars[msg.dest] updated once per element); K2 leave-one-out structure: the inner "
        "reduction excludes exactly the destination (tag inequality), phi subtracts the own term and removes the own sign, A-Min* folds over "
        "j != argmin with argmin taken on |value|; K3 sibling cross-check: the flooding and the layered implementation of each arithmetic "
        "(independent code) have the same sign/magnitude/exclusion operator core, the float and 8-bit families differ exactly by the "
        "documented substitutions (exp.ln_1p -> table lookup, max(0) clamps, saturating_add), and the 8 variants of each 8-bit family are "
        "identical outside their hook closures; K4 constants: clip saturates at +-127, lookup needs a non-negative index and returns 0 past "
        "the table, the table is round(C*ln_1p(exp(-t/C))) for t in 0..=127 cut at the first non-positive entry with C = 8, tanh clamp 18 (f64) "
        "/ 9 (f32), phi floor 1e-30, 2*atanh / 0.5*x factors; K5 the range clause of 8-bit check messages is C05-V1. NOT decided: agreement "
        "with 2*atanh(prod tanh(x/2)) within tolerance, the (d-2)*ln2 bracket, tracking of the real-valued counterpart within table rounding "
        "and the sign clause as a numeric statement - floating-point value properties over all inputs.")
    ck.rule("K1", "one message per neighbour, correctly addressed")
    ck.rule("K2", "leave-one-out structure")
    ck.rule("K3", "sibling operator profiles agree (flooding vs layered; float vs 8-bit; the 8 variants of a family)")
    ck.rule("K4", "constants named by the property")
    ck.rule("K5", "sign application: an outgoing message is negative exactly when the parity of negative inputs (XOR its own input's sign, where the own input takes part in the parity) is odd")
    ck.rule("K7", "fold step: the pairwise min* recurrence named by the property (approximation: positive term dropped and clamped at 0; A-Min*: exact)")
    ck.rule("K8", "the variants apply exactly the hooks their names and documentation state (Jones clipping, partial hard limit, degree-one clipping): the documented exception of the magnitude bound applies to the *PartialHardLimit* types only (the rule C05-V4, run here)")
    ck.rule("K6", "every reduction ranges over exactly the messages of the node being processed (scratch vectors are read only over the prefix just written, zipped with the same message slice)")
    ck.assume("K3 compares independent implementations of the same rule; it cannot see an error made identically in both")
    impls = F.impls_of(TRAIT)
    ck.floor("K1", "impl DecoderArithmetic", len(impls), 24)
    types = sorted(i["self_ty"].rsplit("::", 1)[-1] for i in impls)
    prof = {}
    for ty in types:
        fam = family_of(ty)
        if fam is None:
            ck.fail("K3", "family:" + ty, "", "arithmetic %s does not belong to a known family" % ty)
            continue
        # ---- K1 flooding -------------------------------------------------------------------------
        b = F.body("<%s%s as %s>::send_check_messages" % (ARI, ty, TRAIT))
        t = Tracer(F, "NONE")
        env = {}
        for p, nm in zip(b.params, ("self", "var_messages", "send")):
            t.bind(p, var(nm), env)
        try:
            t.eval(b.value, env)
        except Unsupported as e:
            raise AnalysisError("%s::send_check_messages: unreadable shape: %s" % (ty, e))
        sends = [e for e in t.events if e.callee == "<apply>" and e.args[0] == var("send")]
        VM = var("var_messages")
        ok = False
        why = "%d send sites" % len(sends)

        def dest_src(e):
            st = e.args[1]
            if not (isinstance(st, tuple) and st[0] == "struct" and st[1] == "SentMessage"):
                return None
            d = st[2].get("dest")
            a = single_atom(d) if isinstance(d, Poly) else None
            if a and atom_fn(a) == ".source":
                return atom_args(a)[0]
            if a and a[0] == "v" and a[1].endswith(".source"):
                return var(a[1][:-7])
            return None
        if fam.startswith("aminstar"):
            ok = len(sends) == 2
            if ok:
                e1, e2 = sends
                s1, s2 = dest_src(e1), dest_src(e2)
                min_ok = s1 is not None and not e1.loops and not e1.guards and "min_by" in repr(s1) and "proj1" in repr(s1) and "var_messages" in repr(s1)
                lp = e2.loops
                rest_ok = s2 is not None and len(lp) == 1 and lp[0][0] == "iter" and not e2.guards
                if s2 is not None and len(lp) == 1 and lp[0][0] == "enumerate" and lp[0][2] == ("elems", VM):
                    # explicit form: for (j, msg) in var_messages.iter().enumerate() { if j == argmin { continue } send(..) }
                    from ..symx import canon_cond
                    jv = var(lp[0][1])
                    gs = [canon_cond(g, p) for g, p in e2.guards]
                    excl = len(gs) == 1 and gs[0][1] is False and single_atom(gs[0][0]) is not None and atom_fn(single_atom(gs[0][0])) == "eq" \
                        and jv in atom_args(single_atom(gs[0][0])) and any("proj0" in repr(x) and "min_by" in repr(x) for x in atom_args(single_atom(gs[0][0])))
                    rest_ok = excl and s2 == app("elem", VM, var("msg")) or (excl and "elem(var_messages" in repr(s2))
                elif rest_ok:
                    d = lp[0][2]
                    rest_ok = d[0] == "filter_map" and d[1] == ("enumerate", ("elems", VM))
                    clo = d[2]
                    tr2 = Tracer(F, "NONE")
                    r = tr2.apply(clo, [("tuple", [var("j"), var("m")])])
                    ra = single_atom(r) if isinstance(r, Poly) else None
                    excl = False
                    if ra and atom_fn(ra) == "ite":
                        from ..symx import canon_cond
                        c, tv, fv = atom_args(ra)
                        c, pol = canon_cond(c if isinstance(c, Poly) else c[1], True)
                        if not pol:
                            tv, fv = fv, tv
                        # canonical reading: if j == argmin { None } else { Some(m) }
                        ca = single_atom(c)
                        unp = lambda k: k[1] if isinstance(k, tuple) and len(k) == 2 and k[0] == "P" else k
                        excl = ca is not None and atom_fn(ca) == "eq" and var("j") in atom_args(ca) and unp(fv) in (("ctor", "Some", (("P", var("m")),)), ("ctor", "Some", [var("m")])) \
                            and unp(tv) == ("variant", "None") and any("argmin" in repr(x) or "proj0" in repr(x) for x in atom_args(ca))
                    rest_ok = rest_ok and excl
                ok = min_ok and rest_ok
                why = "one send to the argmin element (dest = msgmin.source: %s) and one per element with j != argmin (%s)" % (min_ok, rest_ok)
        else:
            ok = len(sends) == 1
            if ok:
                e = sends[0]
                s = dest_src(e)
                lp = e.loops
                whole = len(lp) == 1 and lp[0][0] == "iter" and (lp[0][2] == ("elems", VM) or (lp[0][2][0] == "zip" and lp[0][2][1] == ("elems", VM)))
                elem_ok = s is not None and (s == app("elem", VM, var(lp[0][1])) if whole else False)
                ok = whole and elem_ok and not e.guards
                why = "one send per element of var_messages (whole slice: %s), dest = that element's source tag (%s), unconditional" % (whole, elem_ok)
        ck.inst("K1", ty + ":flooding", ok, b.span, why)
        # ---- K1 layered ----------------------------------------------------------------------------
        bl = F.body("<%s%s as %s>::update_check_messages_and_vars" % (ARI, ty, TRAIT))
        tl = Tracer(F, "NONE")
        env = {}
        for p, nm in zip(bl.params, ("self", "check_messages", "vars")):
            tl.bind(p, var(nm), env)
        tl.eval(bl.value, env)
        asg = [e for e in tl.events if e.callee == "<assign>"]
        msg_st = [e for e in asg if repr(e.args[0]).startswith(".value(")]
        var_st = [e for e in asg if repr(e.args[0]).startswith("index(vars") or repr(e.args[0]).startswith("index(mutated(vars")]
        CMs = var("check_messages")
        okl = len(msg_st) == 1 and len(var_st) == 1
        if okl:
            for e in (msg_st[0], var_st[0]):
                lp = e.loops
                whole = len(lp) == 1 and (("elems" in repr(lp[0]) and "check_messages" in repr(lp[0])) or (lp[0][0] == "range" and lp[0][2] == num(0) and "len(check_messages)" in repr(lp[0][3]).replace("core::slice::<impl [T]>::", "")))
                partial = any(x in repr(lp[0]) for x in ("'skip'", "'take'", "'step_by'", "'filter'"))
                okl = okl and whole and not partial and not e.guards
        ck.inst("K1", ty + ":layered", okl, bl.span, "every message value is assigned once and vars[msg.dest] updated once, in one whole pass over check_messages (%d / %d store sites)" % (len(msg_st), len(var_st)))
        # profiles (hooks excluded)
        # (private helper functions of the module are expanded; trait hooks and the shared lookup/clip primitives are not)
        helper = lambda cp: cp.startswith(ARI) and "DecoderArithmetic" not in cp
        prof[(ty, "f")] = profile(b.value, hooks_of(b), F, helper)
        prof[(ty, "l")] = profile(bl.value, hooks_of(bl), F, helper)

        # ---- K2 -----------------------------------------------------------------------------------------
        for tag, body, fld in (("flooding", b, "source"), ("layered", bl, "dest")):
            tr_ = t if tag == "flooding" else tl
            from ..symx import canon_cond, evaluate, NotEvaluable
            from ..idioms import as_closure
            if fam in ("tanhf", "minstarapproxf", "minstarapproxi8"):
                # leave-one-out: the inner reduction keeps exactly the messages whose tag differs from the excluded message's tag.
                # Every filter / filter_map predicate of the body is evaluated on a symbolic element m and read as a canonical condition.
                conds = []
                for n in walk(body.value):
                    if n.get("k") == "mcall" and n["m"] in ("filter", "filter_map") and n["args"] and strip(n["args"][0]).get("k") == "closure":
                        clo = strip(n["args"][0])
                        try:
                            pv = tr_.apply(("closure", clo, dict(getattr(tr_, "closure_envs", {}).get(clo.get("def"), {}))), [var("m")])
                        except Unsupported:
                            conds.append(None)
                            continue
                        if isinstance(pv, tuple) and len(pv) == 3 and pv[0] == "opt":
                            ca_ = single_atom(pv[1])
                            pv = atom_args(ca_)[0] if ca_ and atom_fn(ca_) == "bool_to_option" else None
                        elif isinstance(pv, Poly) and single_atom(pv) is not None and atom_fn(single_atom(pv)) == "ite":
                            c_, tv_, fv_ = atom_args(single_atom(pv))
                            pv = c_ if fv_ == ("variant", "None") else (app("not", c_) if tv_ == ("variant", "None") else None)
                        conds.append(pv)
                ok2 = False
                shown = None
                if len(conds) == 1 and isinstance(conds[0], Poly):
                    c_, pol_ = canon_cond(conds[0], True)
                    shown = (repr(c_)[:120], pol_)
                    ca_ = single_atom(c_)
                    if ca_ and atom_fn(ca_) == "eq" and pol_ is False:
                        sides = atom_args(ca_)
                        has_m = [contains_atom(vkey(x), lambda a_: a_ == ("v", "m") or (a_[0] == "v" and a_[1].startswith("m."))) for x in sides]

                        def is_tag(x):
                            xa = single_atom(x) if isinstance(x, Poly) else None
                            return xa is not None and ((xa[0] == "f" and atom_fn(xa) == "." + fld) or (xa[0] == "v" and xa[1].endswith("." + fld)))
                        ok2 = sorted(has_m) == [False, True] and all(is_tag(x) for x in sides)
                ck.inst("K2", "%s:%s" % (ty, tag), ok2, body.span, "inner reduction keeps msg exactly when msg.%s != excluded.%s: %s" % (fld, fld, shown))
            elif fam == "phif":
                # per destination: magnitude phi(SUM - own phi) with SUM = sum of phi(|x|) over all messages; sign negative iff the parity of
                # negative inputs XOR (own x < 0) - read from the traced values, the sign logic by its truth table
                if tag == "flooding":
                    outs = [e.args[1][2].get("value") for e in tr_.events if e.callee == "<apply>" and isinstance(e.args[1], tuple) and e.args[1][0] == "struct"]
                else:
                    outs = [e.args[1] for e in tr_.events if e.callee == "<assign>" and repr(e.args[0]).startswith(".value(")]
                own = sign_ok = acc_ok = False
                if len(outs) == 1 and isinstance(outs[0], Poly) and single_atom(outs[0]) is not None and atom_fn(single_atom(outs[0])) == "ite":
                    c_, a1, a2 = atom_args(single_atom(outs[0]))
                    from ..symx import unkey
                    a1, a2 = unkey(a1), unkey(a2)
                    neg_first = isinstance(a1, Poly) and isinstance(a2, Poly) and a1 == -a2 and single_atom(a2) is not None and atom_fn(single_atom(a2)).endswith("::phi")
                    pos_first = isinstance(a1, Poly) and isinstance(a2, Poly) and a2 == -a1 and single_atom(a1) is not None and atom_fn(single_atom(a1)).endswith("::phi")
                    Y = a2 if neg_first else (a1 if pos_first else None)
                    if Y is not None:
                        arg = atom_args(single_atom(Y))[-1]
                        arg = unkey(arg)
                        sums = [a_ for a_ in arg.atoms() if a_[0] == "v" and a_[1].endswith("@after")] if isinstance(arg, Poly) else []
                        phis_ = [a_ for a_ in arg.atoms() if a_[0] == "f" and atom_fn(a_) == "elem" and "phis" in repr(a_)] if isinstance(arg, Poly) else []
                        own = len(sums) == 1 and len(phis_) == 1 and arg == Poly.atom(sums[0]) - Poly.atom(phis_[0])
                        # accumulation of SUM: s += phi(|x|) for every message, unconditionally
                        sname = sums[0][1][:-6] if sums else None
                        accs = [st for st in tr_.assign_sites if st[0].split("#")[0].split("@")[0] == (sname or "").split("@")[0] and st[2]]
                        acc_ok = len(accs) == 1 and not accs[0][3] and "::phi(abs(" in repr(accs[0][1]) and (sname.split("@")[0] + "@loop") in repr(accs[0][1])
                        # sign: negative exactly when (number of negative inputs is odd) XOR (own input negative)
                        lts = sorted({a_ for a_ in unkey(c_).atoms_deep() if a_[0] == "f" and atom_fn(a_) == "lt"}, key=repr) if hasattr(unkey(c_), "atoms_deep") else []
                        pars = sorted({a_ for a_ in unkey(c_).atoms_deep() if a_[0] == "v" and a_[1].endswith("@after")}, key=repr) if hasattr(unkey(c_), "atoms_deep") else []
                        if len(lts) == 1 and len(pars) == 1:
                            try:
                                table = {(pv_, nv_): bool(evaluate(unkey(c_), {lts[0]: nv_, pars[0]: pv_})) for pv_ in (0, 1) for nv_ in (0, 1)}
                                want_neg = {(pv_, nv_): bool(pv_ ^ nv_) for pv_ in (0, 1) for nv_ in (0, 1)}
                                sign_ok = table == (want_neg if neg_first else {k_: not v_ for k_, v_ in want_neg.items()})
                            except NotEvaluable:
                                sign_ok = False
                            # the parity variable flips exactly on negative inputs
                            pname = pars[0][1][:-6]
                            pacc = [st for st in tr_.assign_sites if st[0].split("#")[0] == pname.split("#")[0] and st[2]]
                            if len(pacc) == 1:
                                val_, gs_ = pacc[0][1], pacc[0][3]
                                loopv = single_atom(var(pname.split("@")[0] + "@loop"))
                                try:
                                    upd = {}
                                    for old in (0, 1):
                                        for neg in (0, 1):
                                            env_ = {loopv: old}
                                            for a_ in (val_.atoms_deep() if isinstance(val_, Poly) else []):
                                                if a_[0] == "f" and atom_fn(a_) == "lt":
                                                    env_[a_] = neg
                                            taken = True
                                            for g_, p_ in gs_:
                                                genv = dict(env_)
                                                for a_ in (g_.atoms_deep() if isinstance(g_, Poly) else []):
                                                    if a_[0] == "f" and atom_fn(a_) == "lt":
                                                        genv[a_] = neg
                                                taken = taken and (bool(evaluate(g_, genv)) == p_)
                                            upd[(old, neg)] = int(evaluate(val_, env_)) if taken else old
                                    sign_ok = sign_ok and upd == {(o_, n_): o_ ^ n_ for o_ in (0, 1) for n_ in (0, 1)}
                                except NotEvaluable:
                                    sign_ok = False
                            else:
                                sign_ok = False
                ck.inst("K2", "%s:%s" % (ty, tag), own and acc_ok and sign_ok, body.span,
                        "per destination: magnitude phi(SUM - own phi) (%s), SUM accumulates phi(|x|) of every message (%s); sign = parity of negative inputs XOR own sign, by truth table (%s)" % (own, acc_ok, sign_ok))
            else:
                # the running box-plus `delta` is updated exactly for the elements other than the least reliable one: every assignment
                # to a loop-carried local inside the pass over the messages that combines magnitudes (min) is guarded by index != argmin
                folds = []
                for nm, val, loops, guards in tr_.assign_sites:
                    if loops and "min(" in repr(val) and "@loop" in repr(val):
                        idxs = [var(l[1]) for l in loops if l[0] == "enumerate"] + [var(l[1]) for l in loops if l[0] == "range"]
                        gs = [canon_cond(g, p) for g, p in guards]
                        ex = [g for g, p in gs if p is False and single_atom(g) is not None and atom_fn(single_atom(g)) == "eq"
                              and any(i in atom_args(single_atom(g)) for i in idxs) and "min_by" in repr(g)]
                        folds.append(bool(ex))
                amin = [n for n in walk(body.value) if n.get("k") == "mcall" and n["m"] in ("min_by", "min_by_key")]
                # the least reliable input is chosen by magnitude: the comparator orders |key(a)| against |key(b)| with the same key on both
                # sides (min_by), or the key function is |key(m)| (min_by_key); read by applying the closure to symbolic elements
                abs_ok = False
                if len(amin) == 1:
                    clo_ = strip(amin[0]["args"][0])
                    cenv_ = dict(getattr(tr_, "closure_envs", {}).get(clo_.get("def"), {})) if clo_.get("k") == "closure" else {}
                    try:
                        if clo_.get("k") != "closure":
                            cv_ = None
                        elif amin[0]["m"] == "min_by":
                            cv_ = tr_.apply(("closure", clo_, cenv_), [("tuple", [var("j1"), var("m1")]), ("tuple", [var("j2"), var("m2")])])
                        else:
                            cv_ = tr_.apply(("closure", clo_, cenv_), [("tuple", [var("j1"), var("m1")])])
                    except Unsupported:
                        cv_ = None
                    ca_ = single_atom(cv_) if isinstance(cv_, Poly) else None
                    while ca_ is not None and atom_fn(ca_).endswith(("::unwrap", "::expect")):
                        ca_ = single_atom(atom_args(ca_)[0]) if isinstance(atom_args(ca_)[0], Poly) else None
                    key_of = lambda m_: (var(m_ + ".value") if tag == "flooding" else var(m_))
                    from ..symx import num_call
                    if ca_ is not None and amin[0]["m"] == "min_by" and atom_fn(ca_).rsplit("::", 1)[-1] in ("partial_cmp", "cmp", "total_cmp"):
                        abs_ok = list(atom_args(ca_)) == [num_call("abs", key_of("m1")), num_call("abs", key_of("m2"))]
                    elif ca_ is not None and amin[0]["m"] == "min_by_key":
                        abs_ok = Poly.atom(ca_) == num_call("abs", key_of("m1"))
                ck.inst("K2", "%s:%s" % (ty, tag), bool(folds) and all(folds) and abs_ok, body.span,
                        "the box-plus fold skips exactly the least reliable element (%d fold update(s), all under index != argmin: %s), argmin by |value| (%s)" % (
                            len(folds), bool(folds) and all(folds), abs_ok))
            if fam in ("minstarapproxf", "minstarapproxi8", "aminstarf", "aminstari8"):
                if only is None or {"K5", "K7"} & set(only):
                    sign_and_step_rules(ck, F, ty, fam, tag, tr_, body)

    if only is not None and set(only) <= {"K1", "K2", "K5", "K7"}:
        return
    # ---- K6 -------------------------------------------------------------------------------------------------
    from .c10 import scratch_discipline
    from ..decmodel import self_field_uses
    n6 = 0
    for im in impls:
        ty = im["self_ty"].rsplit("::", 1)[-1]
        adt = F.adts.get(im["self_ty"])
        scratch = [f["name"] for f in adt["variants"][0]["fields"] if f["ty"].startswith("std::vec::Vec<")] if adt else []
        for meth in ("send_check_messages", "update_check_messages_and_vars"):
            bb = F.body("<%s%s as %s>::%s" % (ARI, ty, TRAIT, meth))
            uses = self_field_uses(bb)
            for f in scratch:
                if f in uses:
                    n6 += 1
                    ok6, why6 = scratch_discipline(bb, f)
                    ck.inst("K6", "%s:%s:%s" % (ty, meth, f), ok6, bb.span, why6)
    ck.floor("K6", "scratch uses in check rules", n6, 6)

    # ---- K3 -------------------------------------------------------------------------------------------------
    # Sibling cross-check on the *presence* of the sign / magnitude / exclusion operators: how often an operator is written down
    # changes with hoisting or duplicating a sub-expression and says nothing about behaviour, a missing or foreign operator does.
    def kinds(c):
        return set(c)

    def fmts(x):
        return ", ".join(":".join(str(y) for y in k) for k in sorted(x, key=repr))
    for ty in types:
        a, b_ = kinds(core(prof[(ty, "f")])), kinds(core(prof[(ty, "l")]))
        da, db = a - b_, b_ - a
        ck.inst("K3", "flooding~layered:" + ty, not da and not db, F.body("<%s%s as %s>::send_check_messages" % (ARI, ty, TRAIT)).span,
                "sign/magnitude/exclusion core uses the same operators" if not da and not db else "siblings disagree - only in send_check_messages: [%s] ; only in update_check_messages_and_vars: [%s]" % (fmts(da), fmts(db)))
    # reasons: the float rules compute ln_1p(exp(-|..|)) (negation) where the 8-bit rules look the value up; A-Min* 8-bit clamps
    # at 0 (max) and uses saturating_add for x (+) y; the float argmin compares |a|,|b| through partial_cmp/min_by, the 8-bit one uses a key
    PAIRS = {("Minstarapproxf64", "Minstarapproxi8"): ({("call", "exp"), ("call", "ln_1p"), ("neg",)}, {("call", "lookup")}),
             ("Aminstarf64", "Aminstari8"): ({("call", "exp"), ("call", "ln_1p"), ("call", "partial_cmp"), ("call", "min_by")},
                                               {("call", "lookup"), ("call", "max"), ("call", "saturating_add"), ("call", "min_by_key")})}
    for (fty, ity), (only_f, only_i) in PAIRS.items():
        for side in ("f", "l"):
            a, b_ = kinds(core(prof[(fty, side)])), kinds(core(prof[(ity, side)]))
            da = {k for k in a - b_ if k[0] != "lit"}
            db = {k for k in b_ - a if k[0] != "lit"}
            # `neg` may or may not survive in the 8-bit rule (sign application); it is compared by the flooding~layered check of each
            ck.inst("K3", "float~8bit:%s~%s:%s" % (fty, ity, "flooding" if side == "f" else "layered"), da - {("neg",)} == only_f - {("neg",)} and db == only_i,
                    F.body("<%s%s as %s>::send_check_messages" % (ARI, ity, TRAIT)).span,
                    "8-bit differs from float exactly by: -[%s] +[%s] ; expected -[%s] +[%s]" % (fmts(da), fmts(db), fmts(only_f), fmts(only_i)))
    for a_, b__ in (("Phif64", "Phif32"), ("Tanhf64", "Tanhf32"), ("Minstarapproxf64", "Minstarapproxf32"), ("Aminstarf64", "Aminstarf32")):
        for side in ("f", "l"):
            x, y = kinds(core(prof[(a_, side)])), kinds(core(prof[(b__, side)]))
            dx = {k for k in x - y if k[0] != "lit"}
            dy = {k for k in y - x if k[0] != "lit"}
            ck.inst("K3", "f64~f32:%s:%s" % (a_, side), not dx and not dy, F.body("<%s%s as %s>::send_check_messages" % (ARI, a_, TRAIT)).span,
                    "f64 and f32 instantiations have the same operators (only literals / operand types differ)")
    for fam_prefix in ("Minstarapproxi8", "Aminstari8"):
        vs = [t for t in types if t.startswith(fam_prefix)]
        ck.floor("K3", fam_prefix + " variants", len(vs), 8)
        for side in ("f", "l"):
            base = kinds(core(prof[(vs[0], side)]))
            same = all(kinds(core(prof[(v, side)])) == base for v in vs)
            ck.inst("K3", "variants:%s:%s" % (fam_prefix, side), same, F.body("<%s%s as %s>::send_check_messages" % (ARI, vs[0], TRAIT)).span,
                    "the %d variants use the same operators outside their hook closures" % len(vs))

    # ---- K4 -------------------------------------------------------------------------------------------------
    eight = [t for t in types if "i8" in t]
    for ty in eight:
        ev = mk_eval(F, ty)
        cb = F.body(ARI + ty + "::clip")
        outs = []
        for x in (127, 128, 126, -127, -128, -126, 0, 30000, -30000):
            ev.obls = []
            e = {}
            ev.bind(cb.params[0], AInt(x, x, "i16"), e)
            outs.append(repr(ev.eval(cb.value, e)))
        want = ["i8[127,127]", "i8[127,127]", "i8[126,126]", "i8[-127,-127]", "i8[-127,-127]", "i8[-126,-126]", "i8[0,0]", "i8[127,127]", "i8[-127,-127]"]
        ck.inst("K4", ty + ":clip", outs == want, cb.span, "clip saturates symmetrically at +-127 and is the identity in between (abstract evaluation on 9 singletons)")
        lb = F.body(ARI + ty + "::lookup")
        es = SymEval(F)
        env = {}
        for p, nm in zip(lb.params, ("table", "x")):
            es.bind(p, var(nm), env)
        lv = es.eval(lb.value, env)
        want_l = app("std::option::Option::<T>::unwrap_or", app("core::slice::<impl [T]>::get", var("table"), var("x")), num(0))
        nonneg = len(es.asserts) == 1 and any(x.get("k") == "bin" and x["op"] == "Ge" and lit_value(x["r"]) == 0 for x in walk(es.asserts[0]))
        ck.inst("K4", ty + ":lookup", lv == want_l and nonneg, lb.span, "lookup(table, x) = the table entry at x, or 0 past its end (get + unwrap_or / match), with assert!(x >= 0): %s / %s" % (lv == want_l, nonneg))
        nb = F.body(ARI + ty + "::new")
        okt = False
        # table = the values x_t = round(C*ln_1p(exp(-t/C))) as i8 for t = 0, 1, .. 127, kept while x_t > 0
        # (map_while with an `if x > 0 { Some(x) } else { None }`, or map followed by take_while(|&x| x > 0))
        tnew = Tracer(F, "NONE", mode="real")
        try:
            nv_ = tnew.eval(nb.value, {})
        except Unsupported:
            nv_ = None
        tb = nv_[2].get("table") if isinstance(nv_, tuple) and nv_ and nv_[0] == "struct" else None
        ta_ = single_atom(tb) if isinstance(tb, Poly) else None
        while ta_ is not None and atom_fn(ta_) != "std::iter::Iterator::collect" and len(atom_args(ta_)) == 1 and isinstance(atom_args(ta_)[0], Poly):
            ta_ = single_atom(atom_args(ta_)[0])         # into_boxed_slice / into
        d_ = ta_[2][1] if ta_ is not None and atom_fn(ta_) == "std::iter::Iterator::collect" and isinstance(ta_[2], tuple) and ta_[2][0] == "iterdesc" else None
        C = var(ARI + ty + "::QUANTIZER_C")
        from ..symx import Rat

        def table_value(xv):
            """xv == cast_i8(round(C * ln_1p(exp(-t/C))))"""
            xa = single_atom(xv) if isinstance(xv, Poly) else None
            if not (xa and atom_fn(xa) == "cast_i8"):
                return False
            rd = single_atom(atom_args(xa)[0])
            if not (rd and atom_fn(rd) == "round"):
                return False
            body = atom_args(rd)[0]
            ln = [a_ for a_ in body.atoms() if atom_fn(a_) == "ln_1p"] if isinstance(body, Poly) else []
            if not (len(ln) == 1 and body in (C * Poly.atom(ln[0]), num(8) * Poly.atom(ln[0]))):
                return False
            ex = single_atom(atom_args(ln[0])[0])
            if not (ex and atom_fn(ex) == "exp"):
                return False
            arg = ex[2]
            return (isinstance(arg, tuple) and arg[0] == "R" and Rat(arg[1], arg[2]) == Rat(-var("t"), C)) or \
                (isinstance(arg, tuple) and arg[0] == "P" and arg[1] == num(Fraction(-1, 8)) * var("t"))
        from ..idioms import as_closure
        from ..symx import unkey

        def is_range(d):
            if isinstance(d, tuple) and len(d) == 4 and d[0] == "range" and unkey(d[1]) == num(0) and unkey(d[2]) == num(127) and d[3] is True:
                return True
            if isinstance(d, tuple) and d and d[0] == "elems":
                v_ = d[1][1] if isinstance(d[1], tuple) and len(d[1]) == 2 and d[1][0] == "P" else d[1]
                va_ = single_atom(v_) if isinstance(v_, Poly) else None
                return va_ is not None and atom_fn(va_).endswith("RangeInclusive::<Idx>::new") and atom_args(va_) == (num(0), num(127))
            return False
        try:
            if d_ is not None and d_[0] == "map_while" and is_range(d_[1]):
                r = tnew.apply(as_closure(F, tnew, d_[2]), [var("t")])
                ra = single_atom(r) if isinstance(r, Poly) else None
                if ra and atom_fn(ra) == "ite":
                    c_, tv, fv = atom_args(ra)
                    ca = single_atom(c_)
                    okt = ca is not None and atom_fn(ca) == "lt" and atom_args(ca)[0] == num(0) and fv == ("variant", "None") and \
                        tv == ("ctor", "Some", (("P", atom_args(ca)[1]),)) and table_value(atom_args(ca)[1])
                elif isinstance(r, tuple) and len(r) == 3 and r[0] == "opt":
                    # (x > 0).then_some(x)
                    okt = r[1] == app("bool_to_option", app("lt", num(0), r[2])) and table_value(r[2])
            elif d_ is not None and d_[0] == "take_while" and d_[1][0] == "map" and is_range(d_[1][1]):
                xv = tnew.apply(as_closure(F, tnew, d_[1][2]), [var("t")])
                kv = tnew.apply(as_closure(F, tnew, d_[2]), [var("x")])
                okt = table_value(xv) and kv == app("lt", num(0), var("x"))
        except Unsupported:
            okt = False
        ck.inst("K4", ty + ":table", okt, nb.span, "table = (0..=127).map_while(t -> x = round(C*ln_1p(exp(-t/C))) as i8; x > 0 ? Some(x) : None)")
    for ty in eight:
        dimpl = [i for i in F.impls if i.get("trait") == "std::default::Default" and i.get("self_ty") == ARI + ty]
        ok = False
        why = "no Default impl" if not dimpl else ""
        if dimpl:
            derived = "derive" in (dimpl[0].get("expn") or "")
            db = F.bodies.get("<%s%s as std::default::Default>::default" % (ARI, ty))
            delegates = db is not None and db.hir is not None and (callee(strip(db.value.get("e") or {})) or "") == ARI + ty + "::new"
            ok = (not derived) and delegates
            why = "Default::default() %s" % ("delegates to new(), so every constructor builds the lookup table" if ok else
                                           "is %s: a value built this way has an empty lookup table and degrades to plain min-sum" % ("derived" if derived else "not a call of new()"))
        ck.inst("K4", ty + ":default-builds-table", ok, F.body(ARI + ty + "::new").span, why)
    consts = {"Tanhf64": [18.0, -18.0], "Tanhf32": [9.0, -9.0]}
    for ty, want in consts.items():
        for meth in ("send_check_messages", "update_check_messages_and_vars"):
            b = F.body("<%s%s as %s>::%s" % (ARI, ty, TRAIT, meth))
            cl = [n for n in walk(b.value) if n.get("k") == "mcall" and n["m"] == "clamp"]
            vals = sorted(lit_value(a) for c in cl for a in c["args"])
            half = [n for n in walk(b.value) if n.get("k") == "bin" and n["op"] == "Mul" and lit_value(n["l"]) == 0.5]
            two = [n for n in walk(b.value) if n.get("k") == "bin" and n["op"] == "Mul" and lit_value(n["l"]) == 2.0 and any(x.get("k") == "mcall" and x["m"] == "atanh" for x in walk(n["r"]))]
            # composition: the clamp is applied to the halved value and tanh to the clamped value - tanh(clamp(0.5 * x, -c, c))
            def through(n_):
                n_ = strip(n_)
                while n_.get("k") == "path" and n_.get("res") == "local":
                    # a local bound once to an expression: follow the binding
                    lets = [st_ for blk_ in walk(b.value) if blk_.get("k") == "block" for st_ in blk_.get("stmts", [])
                            if st_.get("k") == "let" and st_.get("pat", {}).get("k") == "bind" and st_["pat"].get("name") == n_.get("name") and "init" in st_]
                    if len(lets) != 1:
                        break
                    n_ = strip(lets[0]["init"])
                return n_
            tanhs = [n for n in walk(b.value) if n.get("k") == "mcall" and n["m"] == "tanh"]
            nest_ok = len(tanhs) == 1 and len(cl) == 1 and len(half) == 1 and through(tanhs[0]["recv"]) is cl[0] and through(cl[0]["recv"]) is half[0]
            ck.inst("K4", "%s:%s:tanh-constants" % (ty, meth), vals == sorted(want) and len(half) == 1 and len(two) == 1 and len(cl) == 1 and nest_ok, b.span,
                    "tanh(clamp(0.5*x, %s)) and 2*atanh(product): clamp bounds %s, 0.5* sites %d, 2*atanh sites %d, tanh of the clamp of the halved value: %s" % (
                        want, vals, len(half), len(two), nest_ok))
    for ty in ("Phif64", "Phif32"):
        pb = F.body(ARI + ty + "::phi")
        e = SymEval(F, mode="real")
        env = {}
        e.bind(pb.params[0], var("x"), env)
        v = e.eval(pb.value, env)
        want_v = -app("ln", app("tanh", num(Fraction(1, 2)) * app("max", *sorted([var("x"), num(Fraction("1e-30"))], key=lambda z: 0))))
        m1 = app("max", var("x"), num(Fraction("1e-30")))
        m2 = app("max", num(Fraction("1e-30")), var("x"))
        ok = any(v == -app("ln", app("tanh", num(Fraction(1, 2)) * m)) for m in (m1, m2))
        ck.inst("K4", ty + ":phi", ok, pb.span, "phi(x) = -ln(tanh(0.5 * max(x, 1e-30))): %r" % (v,))
    # K8: which variants may exceed the smallest other magnitude (partial hard limit) is a matter of the hooks each type is built with
    if only is None:
        from ..report import RuleAlias
        from . import c05
        c05.run(RuleAlias(ck, "K8", only=lambda r_, k_: r_ == "V4"), F, "quick", only=("V4",))
