"""C17 - sparse-matrix editing behaves like a set of positions: mirror discipline of every mutator."""
import re

from ..extract import AnalysisError
from ..facts import walk, strip, callee, access_path
from ..symx import SymEval, Poly, Unsupported, app, var, num, single_atom, atom_fn, atom_args, subst, vkey
from ..trace import Tracer

LEVEL = "other"
SM = "sparse::SparseMatrix::"
VEC = r"std::vec::Vec::<T, A>::\w+|std::vec::Vec::<T>::\w+|core::slice::<impl \[T\]>::\w+"
MUTATING_VEC = {"push", "pop", "retain", "clear", "truncate", "resize", "remove", "insert", "swap_remove", "drain", "append",
                "extend", "sort", "sort_unstable", "dedup", "resize_with", "split_off", "retain_mut", "extend_from_slice"}


def trace(F, fn, names):
    b = F.body(SM + fn)
    t = Tracer(F, VEC + "|" + SM + r"\w+", mode="int")
    env = {}
    for p, nm in zip(b.params, names):
        t.bind(p, var(nm), env)
    try:
        ret = t.eval(b.value, env)
    except Unsupported as e:
        raise AnalysisError("SparseMatrix::%s: unreadable shape: %s" % (fn, e))
    return b, t, ret


def norm_effects(F, t, swap=False):
    """Set of effect descriptions (method, receiver, args, loops, guards) as strings, optionally mirrored."""
    SW = {"rows": "cols", "cols": "rows", "row": "col", "col": "row"}

    def mir(s):
        if not swap:
            return s
        s = re.sub(r"(?<![A-Za-z0-9])(rows|cols|row|col)(?![A-Za-z0-9_])", lambda m: SW[m.group(1)], s)
        return s
    out = []
    for e in t.events:
        if e.callee.startswith("<"):
            continue
        base = e.callee.rsplit("::", 1)[-1]
        args = []
        for a in e.args:
            if isinstance(a, tuple) and a and a[0] == "closure":
                v = SymEval(F).apply(a, [var("x")])
                args.append("pred:" + repr(v))
            else:
                args.append(repr(a))
        # insert(row, col) mirrors to insert(col, row) with swapped roles: normalise argument order for the two-index calls
        desc = "%s(%s) loops=%s guards=%s" % (base, ", ".join(args), [repr(l) for l in e.loops], [(repr(g), p) for g, p in e.guards])
        desc = mir(desc)
        if swap and base in ("insert", "remove", "toggle", "contains"):
            m = re.match(r"(\w+)\(self, (.*?), (.*?)\) (.*)", desc)
            if m:
                desc = "%s(self, %s, %s) %s" % (m.group(1), m.group(3), m.group(2), m.group(4))
        desc = re.sub(r"contains\(self, (\w+), (\w+)\)", lambda m: "contains(self, %s)" % ", ".join(sorted([m.group(1), m.group(2)], reverse=True)), desc)
        out.append(desc)
    return out


def run(ck, F, tier):
    ck.explanation = (
        "Decided (S): X1 every &mut method of SparseMatrix performs mirrored effects on the row lists and the column lists "
        "(the effect set of each mutator is invariant under rows<->cols, row<->col, and the row/col variants are each other's "
        "mirror), with the exact per-method contents: insert pushes (col into rows[row], row into cols[col]) only when the entry is "
        "absent; remove retains x != col / x != row; toggle = contains ? remove : insert on the same coordinates; clear_row removes "
        "`row` from every cols[c], c in rows[row], then clears rows[row]; set_* = clear_* then insert_*; insert_row/col = insert per "
        "element; X2 no method other than `new` changes the outer vectors (dimensions are fixed); X3 queries read the lists "
        "consistently (contains searches cols[col] for row, weights are lengths, iter_all enumerates rows with their index); "
        "X4 the fields are private and equality is the derived field-wise one. Together these are the premises of the induction "
        "'mirror invariant + no duplicates hold after every history'. NOT decided as such: the equivalence to a mathematical set "
        "for all histories as a proved theorem.")
    ck.rule("X1", "mutators have mirrored, correctly addressed effects")
    ck.rule("X2", "dimensions are fixed: the outer vectors are only built in `new`")
    ck.rule("X3", "queries read the mirrored lists consistently")
    ck.rule("X4", "fields private; PartialEq derived")
    ROWS, COLS = var("self.rows"), var("self.cols")
    R, Cc = var("row"), var("col")

    def idx(b, i):
        return app("index", b, i)

    # ---- insert ----------------------------------------------------------------------
    b, t, _ = trace(F, "insert", ("self", "row", "col"))
    ev = [e for e in t.events if e.callee.rsplit("::", 1)[-1] in MUTATING_VEC]
    guard = (app(SM + "contains", var("self"), R, Cc), False)     # path conditions store !c as (c, False); guard clauses read alike
    want = {("push", repr(idx(ROWS, R)), repr(Cc)), ("push", repr(idx(COLS, Cc)), repr(R))}
    got = {(e.callee.rsplit("::", 1)[-1], repr(e.args[0]), repr(e.args[1]) if len(e.args) > 1 else "") for e in ev}
    ck.inst("X1", "insert", got == want and all(e.guards == [guard] for e in ev) and len(ev) == 2, b.span,
            "insert: %s under guard %s ; required rows[row].push(col) and cols[col].push(row), both only if !contains(row, col)" % (
                sorted(got), ev[0].guards if ev else None))
    # ---- remove ----------------------------------------------------------------------
    b, t, _ = trace(F, "remove", ("self", "row", "col"))
    ev = [e for e in t.events if e.callee.rsplit("::", 1)[-1] in MUTATING_VEC]
    got = set()
    for e in ev:
        pred = SymEval(F).apply(e.args[1], [var("x")]) if len(e.args) > 1 and isinstance(e.args[1], tuple) and e.args[1][0] == "closure" else None
        got.add((e.callee.rsplit("::", 1)[-1], repr(e.args[0]), repr(pred)))
    X = var("x")
    want = {("retain", repr(idx(ROWS, R)), repr(app("ne", Cc, X))), ("retain", repr(idx(COLS, Cc)), repr(app("ne", R, X)))}
    want2 = {(a, b_, c.replace("ne(col, x)", "ne(x, col)")) for a, b_, c in want}
    def canon(s):
        return {(a, b_, re.sub(r"ne\((\w+), (\w+)\)", lambda m: "ne(%s)" % ",".join(sorted(m.groups())), c)) for a, b_, c in s}
    ck.inst("X1", "remove", canon(got) == canon(want) and len(ev) == 2 and not any(e.guards for e in ev), b.span,
            "remove: %s ; required rows[row].retain(x != col) and cols[col].retain(x != row), unconditionally" % sorted(got))
    # ---- toggle ----------------------------------------------------------------------
    b, t, _ = trace(F, "toggle", ("self", "row", "col"))
    ev = [e for e in t.events if e.callee.rsplit("::", 1)[-1] in ("insert", "remove")]
    S = var("self")
    cont = app(SM + "contains", S, R, Cc)
    ok = len(ev) == 2
    if ok:
        m = {e.callee.rsplit("::", 1)[-1]: e for e in ev}
        ok = set(m) == {"insert", "remove"} and all(e.args[1:] == [R, Cc] for e in ev)
        if ok:
            def pol(e):
                g, p = e.guards[0]
                if g == app("matches", cont, "True"):
                    return p
                if g == app("matches", cont, "False"):
                    return not p
                if g == cont:
                    return p
                return None
            ok = len(m["remove"].guards) == 1 and len(m["insert"].guards) == 1 and pol(m["remove"]) is True and pol(m["insert"]) is False
    ck.inst("X1", "toggle", ok, b.span, "toggle(row, col) = if contains(row, col) { remove(row, col) } else { insert(row, col) } on the same coordinates")
    # ---- clear_row / clear_col (mirror pair) -------------------------------------------
    for fn, names, lst, oth, ix in (("clear_row", ("self", "row"), ROWS, COLS, R), ("clear_col", ("self", "col"), COLS, ROWS, Cc)):
        b, t, _ = trace(F, fn, names)
        ev = [e for e in t.events if e.callee.rsplit("::", 1)[-1] in MUTATING_VEC]
        ok = len(ev) == 2
        why = "%d list mutations" % len(ev)
        if ok:
            e1, e2 = ev
            # e1: oth[c].retain(x != ix) for c in lst[ix]
            lp = e1.loops
            el = None
            if len(lp) == 1 and lp[0][0] == "iter" and lp[0][2] == ("elems", idx(lst, ix)):
                el = app("elem", idx(lst, ix), var(lp[0][1]))
            pred = SymEval(F).apply(e1.args[1], [var("x")]) if len(e1.args) > 1 and isinstance(e1.args[1], tuple) else None
            ok = (e1.callee.endswith("::retain") and el is not None and e1.args[0] == idx(oth, el)
                  and pred in (app("ne", ix, var("x")), app("ne", var("x"), ix)) and not e1.guards
                  and e2.callee.endswith("::clear") and e2.args[0] == idx(lst, ix) and not e2.loops and not e2.guards
                  and t.events.index(e1) < t.events.index(e2))
            why = "for c in %s[i]: %s[c].retain(x != i); then %s[i].clear()  [%s]" % (repr(lst)[5:], repr(oth)[5:], repr(lst)[5:], ok)
        ck.inst("X1", fn, ok, b.span, why)
    # ---- insert_row / insert_col, set_row / set_col -------------------------------------
    for fn, names, order in (("insert_row", ("self", "row", "cols"), "rc"), ("insert_col", ("self", "col", "rows"), "cr")):
        b, t, _ = trace(F, fn, names)
        ev = [e for e in t.events if e.callee.startswith(SM)]
        ok = len(ev) == 1 and ev[0].callee == SM + "insert" and len(ev[0].loops) == 1
        if ok:
            e = ev[0]
            it = var(names[2])
            el = app("elem", it, var(e.loops[0][1]))
            fixed = var(names[1])
            ok = e.args[1:] == ([fixed, el] if order == "rc" else [el, fixed]) and e.loops[0][2] == ("elems", it) and not e.guards
        ck.inst("X1", fn, ok, b.span, "%s(i, iter) = insert per element with the fixed index in the %s position" % (fn, "row" if order == "rc" else "column"))
    for fn, names, c1, c2 in (("set_row", ("self", "row", "cols"), "clear_row", "insert_row"), ("set_col", ("self", "col", "rows"), "clear_col", "insert_col")):
        b, t, _ = trace(F, fn, names)
        ev = [e for e in t.events if e.callee.startswith(SM)]
        ok = [e.callee.rsplit("::", 1)[-1] for e in ev] == [c1, c2] and ev[0].args[1:] == [var(names[1])] and \
            ev[1].args[1:] == [var(names[1]), var(names[2])] and not any(e.guards or e.loops for e in ev)
        ck.inst("X1", fn, ok, b.span, "%s = %s(i) then %s(i, iter)" % (fn, c1, c2))
    # ---- mirror symmetry of effect sets -------------------------------------------------
    for f1, n1, f2, n2 in (("insert", ("self", "row", "col"), "insert", ("self", "row", "col")),
                           ("remove", ("self", "row", "col"), "remove", ("self", "row", "col")),
                           ("toggle", ("self", "row", "col"), "toggle", ("self", "row", "col")),
                           ("clear_row", ("self", "row"), "clear_col", ("self", "col")),
                           ("insert_row", ("self", "row", "cols"), "insert_col", ("self", "col", "rows")),
                           ("set_row", ("self", "row", "cols"), "set_col", ("self", "col", "rows"))):
        _, t1, _ = trace(F, f1, n1)
        _, t2, _ = trace(F, f2, n2)
        a = sorted(norm_effects(F, t1, swap=True))
        b_ = sorted(norm_effects(F, t2, swap=False))
        ck.inst("X1", "mirror:%s~%s" % (f1, f2), a == b_, F.body(SM + f1).span,
                "effects of %s under rows<->cols, row<->col equal the effects of %s" % (f1, f2) if a == b_ else
                "not mirror images: %s vs %s" % ([x[:90] for x in a], [x[:90] for x in b_]))

    # ---- X2: outer vectors ------------------------------------------------------------------
    n_mut = 0
    viol = []
    for body in F.find_bodies(r"sparse::.*"):
        if not body.hir or body.path == SM + "new":
            continue
        for n in walk(body.value):
            k = n.get("k")
            if k in ("assign", "assignop"):
                ap = access_path(n["l"])
                if ap and len(ap) == 2 and ap[1] in ("rows", "cols") and "SparseMatrix" in strip(n["l"]).get("e", {}).get("ty", "SparseMatrix"):
                    viol.append((body.path, n["sp"], "assignment to self.%s" % ap[1]))
            if k == "mcall" and n["m"] in MUTATING_VEC | {"iter_mut", "as_mut_slice", "last_mut", "first_mut"}:
                ap = access_path(n["recv"])
                rty = strip(n["recv"]).get("ty", "")
                if ap and ap[-1] in ("rows", "cols") and rty.startswith("std::vec::Vec<std::vec::Vec<usize>>"):
                    if n["m"] in MUTATING_VEC:
                        viol.append((body.path, n["sp"], "%s() on the outer vector %s" % (n["m"], ".".join(x.split("#")[0] for x in ap))))
                n_mut += 1
            if k == "ref" and n.get("mut"):
                ap = access_path(n["e"])
                if ap and len(ap) == 2 and ap[-1] in ("rows", "cols") and strip(n["e"]).get("ty", "").startswith("std::vec::Vec<std::vec::Vec<usize>>"):
                    viol.append((body.path, n["sp"], "&mut borrow of the whole outer vector"))
    for v in viol:
        ck.fail("X2", "outer-vector-mutation:" + v[0].rsplit("::", 1)[-1], v[1], "%s: %s (changes the matrix dimensions or escapes the mirror discipline)" % (v[0], v[2]))
    ck.inst("X2", "outer-vectors-only-built-in-new", not viol, F.body(SM + "new").span,
            "no method of module `sparse` other than `new` assigns, resizes or mutably borrows rows/cols as a whole (%d list-level mutations inspected)" % n_mut)
    ck.floor("X2", "list-level mutation sites inspected", n_mut, 6)
    nb, tn, nv = trace(F, "new", ("nrows", "ncols"))
    okn = isinstance(nv, tuple) and nv[0] == "struct" and "nrows" in repr(nv[2].get("rows")) and "ncols" in repr(nv[2].get("cols")) \
        and "ncols" not in repr(nv[2].get("rows")) and "nrows" not in repr(nv[2].get("cols"))
    ck.inst("X2", "new", okn, nb.span, "new(nrows, ncols) builds `rows` from nrows and `cols` from ncols empty lists")

    # ---- X3: queries ------------------------------------------------------------------------------
    def ev_fn(fn, names):
        b = F.body(SM + fn)
        e = Tracer(F, "NONE", mode="int")
        en = {}
        for p, nm in zip(b.params, names):
            e.bind(p, var(nm), en)
        return b, e.eval(b.value, en)
    LEN = "std::vec::Vec::<T, A>::len"
    b, v = ev_fn("contains", ("self", "row", "col"))
    ck.inst("X3", "contains", v in (app("core::slice::<impl [T]>::contains", idx(COLS, Cc), R),
                                    app("core::slice::<impl [T]>::contains", idx(ROWS, R), Cc)), b.span,
            "contains(row, col) = %r (either mirrored list may be searched)" % (v,))
    for fn, nm, lst in (("row_weight", "row", ROWS), ("col_weight", "col", COLS)):
        b, v = ev_fn(fn, ("self", nm))
        ck.inst("X3", fn, v == app(LEN, idx(lst, var(nm))), b.span, "%s(i) = %r" % (fn, v))
    for fn, lst in (("num_rows", ROWS), ("num_cols", COLS)):
        b, v = ev_fn(fn, ("self",))
        ck.inst("X3", fn, v == app(LEN, lst), b.span, "%s() = %r" % (fn, v))
    for fn, nm, lst in (("iter_row", "row", ROWS), ("iter_col", "col", COLS)):
        b, v = ev_fn(fn, ("self", nm))
        ck.inst("X3", fn, v == ("iterdesc", ("elems", idx(lst, var(nm)))), b.span, "%s(i) iterates %r" % (fn, v))
    b, v = ev_fn("iter_all", ("self",))
    ok = False
    if isinstance(v, tuple) and v and v[0] == "iterdesc" and v[1][0] == "flat_map" and len(v[1]) == 3:
        src, clo = v[1][1], v[1][2]
        if src == ("enumerate", ("elems", ROWS)):
            tr = Tracer(F, "NONE", mode="int")
            r = tr.apply(clo, [("tuple", [var("j"), var("r")])])
            if isinstance(r, tuple) and r[0] == "iterdesc" and r[1][0] == "map" and r[1][1] == ("elems", var("r")):
                ok = tr.apply(r[1][2], [var("k")]) == ("tuple", [var("j"), var("k")])
    ck.inst("X3", "iter_all", ok, b.span, "iter_all() = rows.iter().enumerate().flat_map(|(j, r)| r.iter().map(|&k| (j, k)))")

    # ---- X4 --------------------------------------------------------------------------------------------
    adt = F.adt("sparse::SparseMatrix")
    fields = {f["name"]: f["vis"] for f in adt["variants"][0]["fields"]}
    priv = set(fields) == {"rows", "cols"} and all("Restricted" in v and "sparse" in v for v in fields.values())
    ck.inst("X4", "fields-private", priv, adt["span"], "fields %s" % fields)
    peq = [i for i in F.impls if i.get("trait") == "std::cmp::PartialEq" and i.get("self_ty") == "sparse::SparseMatrix"]
    derived = len(peq) == 1 and "derive" in (peq[0].get("expn") or "")
    ck.inst("X4", "derived-eq", derived, adt["span"], "PartialEq for SparseMatrix is the derived field-wise comparison (%s)" % (peq[0].get("expn") if peq else None))
    if tier == "thorough":
        from ..witness import check_witnesses
        check_witnesses(ck, "X4", ["W1"])
