"""C17 - sparse-matrix editing behaves like a set of positions: mirror discipline of every mutator."""
import re

from ..extract import AnalysisError
from ..facts import walk, strip, callee, access_path
from ..symx import SymEval, Poly, Unsupported, app, var, num, single_atom, atom_fn, atom_args, subst, vkey
from ..trace import Tracer

LEVEL = "other"
SM = "sparse::SparseMatrix::"
VEC = r"std::vec::Vec::<T, A>::\w+|std::vec::Vec::<T>::\w+|core::slice::<impl \[T\]>::\w+"
MUTATING_VEC = {"push", "pop", "retain", "clear", "truncate", "resize", "remove", "insert", "swap_remove", "drain", "append",
                "extend", "sort", "sort_unstable", "dedup", "resize_with", "split_off", "retain_mut", "extend_from_slice"}


def trace(F, fn, names, expand=()):
    b = F.body(SM + fn)
    # private helpers of the module (e.g. a "remove this value from a list" function) are expanded; `expand` names public methods of
    # SparseMatrix to expand as well (toggle is read through insert / remove)
    def inl(p):
        if p in [SM + x for x in expand]:
            return F.bodies.get(p)
        return F.private_helper(p, "sparse::")
    rx = VEC + "|" + SM + (r"(?!(?:%s)$)" % "|".join(expand) if expand else "") + r"\w+"
    t = Tracer(F, rx, mode="int", inline=inl)
    env = {}
    for p, nm in zip(b.params, names):
        t.bind(p, var(nm), env)
    try:
        ret = t.eval(b.value, env)
    except Unsupported as e:
        raise AnalysisError("SparseMatrix::%s: unreadable shape: %s" % (fn, e))
    return b, t, ret


def norm_effects(F, t, swap=False):
    """Set of effect descriptions (method, receiver, args, loops, guards) as strings, optionally mirrored."""
    SW = {"rows": "cols", "cols": "rows", "row": "col", "col": "row"}

    def mir(s):
        if not swap:
            return s
        s = re.sub(r"(?<![A-Za-z0-9])(rows|cols|row|col)(?![A-Za-z0-9_])", lambda m: SW[m.group(1)], s)
        return s
    out = []
    for e in t.events:
        if e.callee.startswith("<"):
            continue
        base = e.callee.rsplit("::", 1)[-1]
        args = []
        for a in e.args:
            if isinstance(a, tuple) and a and a[0] == "closure":
                v = SymEval(F).apply(a, [var("x")])
                args.append("pred:" + repr(v))
            else:
                args.append(repr(a))
        # insert(row, col) mirrors to insert(col, row) with swapped roles: normalise argument order for the two-index calls
        desc = "%s(%s) loops=%s guards=%s" % (base, ", ".join(args), [repr(l) for l in e.loops], [(repr(g), p) for g, p in e.guards])
        desc = mir(desc)
        if swap and base in ("insert", "remove", "toggle", "contains"):
            m = re.match(r"(\w+)\(self, (.*?), (.*?)\) (.*)", desc)
            if m:
                desc = "%s(self, %s, %s) %s" % (m.group(1), m.group(3), m.group(2), m.group(4))
        desc = re.sub(r"contains\(self, (\w+), (\w+)\)", lambda m: "contains(self, %s)" % ", ".join(sorted([m.group(1), m.group(2)], reverse=True)), desc)
        out.append(desc)
    return out


def list_effects(F, t, row=None, col=None):
    """canonical effects on the adjacency lists: (kind, list, value, loops, guards) with kind in push / remove-value / clear.
    `l.retain(|x| x != v)` and `if let Some(p) = l.iter().position(|x| x == v) { l.remove(p) }` are both remove-value(l, v) (lists hold
    no duplicates: insert is guarded by !contains); a test that (row, col) is present - contains(row, col), or the position search
    itself - is the guard token PRESENT."""
    from ..symx import canon_cond, unkey
    from ..idioms import as_closure
    R, Cc = var("row"), var("col")

    def pred_eq(clo_key, tr_):
        try:
            pv = tr_.apply(as_closure(F, tr_, clo_key), [var("x")])
        except Unsupported:
            return None
        if not isinstance(pv, Poly):
            return None
        c, pol = canon_cond(pv, True)
        a = single_atom(c)
        if a and atom_fn(a) == "eq" and var("x") in atom_args(a):
            other = [y for y in atom_args(a) if y != var("x")]
            return (other[0] if other else var("x")), pol
        return None

    def position_of(v):
        """v == payload0(position(iter(L), |x| x == w)) -> (L, w, the position value)"""
        a = single_atom(v) if isinstance(v, Poly) else None
        if a and atom_fn(a) in ("payload0",):
            pa = single_atom(atom_args(a)[0])
        else:
            pa = a
        if pa and atom_fn(pa) == "std::iter::Iterator::position":
            src, clo = pa[2], pa[3]
            if isinstance(src, tuple) and src[0] == "iterdesc" and src[1][0] == "elems":
                L = unkey(src[1][1])
                pe = pred_eq(clo, t)
                if pe and pe[1] is True:
                    return L, pe[0], Poly.atom(pa)
        return None

    def canon_guard(g, p):
        c, pol = canon_cond(g, p)
        a = single_atom(c) if isinstance(c, Poly) else None
        if a and atom_fn(a) == SM + "contains":
            return ("PRESENT", tuple(sorted(map(repr, atom_args(a)[1:]))), pol)
        if a and atom_fn(a) == "matches" and str(atom_args(a)[1]).startswith(("('Some'", "'None'")):
            po = position_of(atom_args(a)[0])
            if po is not None:
                L, w, _ = po
                la = single_atom(L)
                if la and atom_fn(la) == "index":
                    some = str(atom_args(a)[1]).startswith("('Some'")
                    return ("PRESENT", tuple(sorted([repr(unkey(atom_args(la)[1])), repr(w)])), pol if some else not pol)
        if a and atom_fn(a).endswith("::contains") and len(atom_args(a)) == 2:
            la = single_atom(atom_args(a)[0]) if isinstance(atom_args(a)[0], Poly) else None
            if la and atom_fn(la) == "index":
                return ("PRESENT", tuple(sorted([repr(unkey(atom_args(la)[1])), repr(atom_args(a)[1])])), pol)
        return (repr(c), pol)
    from ..panics import unwrap_mut
    out = []
    for e in t.events:
        base = e.callee.rsplit("::", 1)[-1]
        if e.callee.startswith("<") or base not in MUTATING_VEC or e.callee.startswith(SM):
            continue
        L = unwrap_mut(e.args[0]) if isinstance(e.args[0], Poly) else e.args[0]
        gs = [canon_guard(g, p) for g, p in e.guards]
        loops = tuple(repr(l[2]) if l[0] == "iter" else repr(l) for l in e.loops)
        if base == "push":
            out.append(("push", repr(L), repr(e.args[1]), loops, frozenset(gs), e))
        elif base == "retain":
            pe = pred_eq(vkey(e.args[1]) if isinstance(e.args[1], tuple) and isinstance(e.args[1][1], dict) else e.args[1], t)
            if pe and pe[1] is False:
                out.append(("remove-value", repr(L), repr(pe[0]), loops, frozenset(gs), e))
            else:
                out.append(("retain?", repr(L), repr(e.args[1])[:60], loops, frozenset(gs), e))
        elif base == "remove":
            po = position_of(e.args[1])
            if po is not None and repr(unwrap_mut(po[0])) == repr(L):
                # the guard "the position search found it" is intrinsic to the removal
                key = ("PRESENT", tuple(sorted([repr(unkey(atom_args(single_atom(L))[1])) if single_atom(L) is not None and atom_fn(single_atom(L)) == "index" else "?", repr(po[1])])), True)
                rest = [g for g in gs if g != key]
                intrinsic = len(rest) < len(gs)
                out.append(("remove-value" if intrinsic else "remove-unguarded?", repr(L), repr(po[1]), loops, frozenset(rest) | ({key} if False else set()), e, key))
            else:
                out.append(("remove-at?", repr(L), repr(e.args[1])[:60], loops, frozenset(gs), e))
        else:
            out.append((base, repr(L), "", loops, frozenset(gs), e))
    return out


def run(ck, F, tier):
    ck.explanation = (
        "Decided (S): X1 every &mut method of SparseMatrix performs mirrored effects on the row lists and the column lists "
        "(the effect set of each mutator is invariant under rows<->cols, row<->col, and the row/col variants are each other's "
        "mirror), with the exact per-method contents: insert pushes (col into rows[row], row into cols[col]) only when the entry is "
        "absent; remove retains x != col / x != row; toggle = contains ? remove : insert on the same coordinates; clear_row removes "
        "`row` from every cols[c], c in rows[row], then clears rows[row]; set_* = clear_* then insert_*; insert_row/col = insert per "
        "element; X2 no method other than `new` changes the outer vectors (dimensions are fixed); X3 queries read the lists "
        "consistently (contains searches cols[col] for row, weights are lengths, iter_all enumerates rows with their index); "
        "X4 the fields are private and equality is the derived field-wise one. Together these are the premises of the induction "
        "'mirror invariant + no duplicates hold after every history'. NOT decided as such: the equivalence to a mathematical set "
        "for all histories as a proved theorem.")
    ck.rule("X1", "mutators have mirrored, correctly addressed effects")
    ck.rule("X2", "dimensions are fixed: the outer vectors are only built in `new`")
    ck.rule("X3", "queries read the mirrored lists consistently")
    ck.rule("X4", "fields private; PartialEq derived")
    ROWS, COLS = var("self.rows"), var("self.cols")
    R, Cc = var("row"), var("col")

    def idx(b, i):
        return app("index", b, i)

    # ---- insert ----------------------------------------------------------------------
    b, t, _ = trace(F, "insert", ("self", "row", "col"))
    ev = [e for e in t.events if e.callee.rsplit("::", 1)[-1] in MUTATING_VEC]
    guard = (app(SM + "contains", var("self"), R, Cc), False)     # path conditions store !c as (c, False); guard clauses read alike
    want = {("push", repr(idx(ROWS, R)), repr(Cc)), ("push", repr(idx(COLS, Cc)), repr(R))}
    got = {(e.callee.rsplit("::", 1)[-1], repr(e.args[0]), repr(e.args[1]) if len(e.args) > 1 else "") for e in ev}
    ck.inst("X1", "insert", got == want and all(e.guards == [guard] for e in ev) and len(ev) == 2, b.span,
            "insert: %s under guard %s ; required rows[row].push(col) and cols[col].push(row), both only if !contains(row, col)" % (
                sorted(got), ev[0].guards if ev else None))
    def eff(fn, names, expand=()):
        b_, t_, _ = trace(F, fn, names, expand=expand)
        return b_, t_, list_effects(F, t_)

    def strip_present(gs, keep_false=True):
        """guards without the (redundant) 'the entry is present' condition of a removal"""
        return frozenset(g for g in gs if not (g[0] == "PRESENT" and g[2] is True))
    PRES = ("PRESENT", tuple(sorted(["row", "col"])))
    # ---- remove ----------------------------------------------------------------------
    b, t, fx = eff("remove", ("self", "row", "col"))
    got = {(k[0], k[1], k[2], strip_present(k[4])) for k in fx}
    want = {("remove-value", repr(idx(ROWS, R)), repr(Cc), frozenset()), ("remove-value", repr(idx(COLS, Cc)), repr(R), frozenset())}
    ck.inst("X1", "remove", got == want and len(fx) == 2 and not any(k[3] for k in fx), b.span,
            "remove: %s ; required: col leaves rows[row] and row leaves cols[col], whenever present" % sorted((k[0], k[1], k[2]) for k in fx))
    # ---- toggle (read through insert / remove) -----------------------------------------
    b, t, fx = eff("toggle", ("self", "row", "col"), expand=("insert", "remove"))
    pushes = {(k[1], k[2]) for k in fx if k[0] == "push" and {g for g in k[4]} == {PRES + (False,)}}
    removes = {(k[1], k[2]) for k in fx if k[0] == "remove-value" and strip_present(k[4]) == frozenset() and
               all(g[1] == PRES[1] for g in k[4] if g[0] == "PRESENT")}
    others = [k for k in fx if not ((k[0] == "push" and (k[1], k[2]) in pushes) or (k[0] == "remove-value" and (k[1], k[2]) in removes))]
    want_pairs = {(repr(idx(ROWS, R)), repr(Cc)), (repr(idx(COLS, Cc)), repr(R))}
    # the removals must be tied to presence (not unconditional) unless the pushes are tied to absence - both hold in a correct toggle
    rem_guarded = all(any(g[0] == "PRESENT" and g[2] is True for g in k[4]) or k[0] != "remove-value" or len(k) > 6 for k in fx)
    ok = pushes == want_pairs and removes == want_pairs and not others and rem_guarded and not any(k[3] for k in fx)
    ck.inst("X1", "toggle", ok, b.span, "toggle(row, col): when (row, col) is present it is removed from both lists, otherwise appended to both (same coordinates) "
            "[appends %s, removals %s, other effects %d]" % (sorted(pushes), sorted(removes), len(others)))
    # ---- clear_row / clear_col (mirror pair) -------------------------------------------
    for fn, names, lst, oth, ix in (("clear_row", ("self", "row"), ROWS, COLS, R), ("clear_col", ("self", "col"), COLS, ROWS, Cc)):
        b, t, fx = eff(fn, names)
        ok = len(fx) == 2
        why = "%d list mutations" % len(fx)
        if ok:
            e1, e2 = fx
            ev1, ev2 = e1[5], e2[5]
            lp = ev1.loops
            el = None
            if len(lp) == 1 and lp[0][0] == "iter" and lp[0][2] == ("elems", idx(lst, ix)):
                el = app("elem", idx(lst, ix), var(lp[0][1]))
            ok = (e1[0] == "remove-value" and el is not None and e1[1] == repr(idx(oth, el)) and e1[2] == repr(ix) and strip_present(e1[4]) == frozenset()
                  and e2[0] == "clear" and e2[1] == repr(idx(lst, ix)) and not ev2.loops and not ev2.guards
                  and ev1.seq < ev2.seq)
            why = "for c in %s[i]: i leaves %s[c]; then %s[i].clear()  [%s]" % (repr(lst)[5:], repr(oth)[5:], repr(lst)[5:], ok)
        ck.inst("X1", fn, ok, b.span, why)
    # ---- insert_row / insert_col, set_row / set_col -------------------------------------
    for fn, names, order in (("insert_row", ("self", "row", "cols"), "rc"), ("insert_col", ("self", "col", "rows"), "cr")):
        b, t, _ = trace(F, fn, names)
        ev = [e for e in t.events if e.callee.startswith(SM)]
        ok = len(ev) == 1 and ev[0].callee == SM + "insert" and len(ev[0].loops) == 1
        if ok:
            e = ev[0]
            it = var(names[2])
            el = app("elem", it, var(e.loops[0][1]))
            fixed = var(names[1])
            ok = e.args[1:] == ([fixed, el] if order == "rc" else [el, fixed]) and e.loops[0][2] == ("elems", it) and not e.guards
        ck.inst("X1", fn, ok, b.span, "%s(i, iter) = insert per element with the fixed index in the %s position" % (fn, "row" if order == "rc" else "column"))
    for fn, names, c1, c2 in (("set_row", ("self", "row", "cols"), "clear_row", "insert_row"), ("set_col", ("self", "col", "rows"), "clear_col", "insert_col")):
        b, t, _ = trace(F, fn, names)
        ev = [e for e in t.events if e.callee.startswith(SM)]
        ok = [e.callee.rsplit("::", 1)[-1] for e in ev] == [c1, c2] and ev[0].args[1:] == [var(names[1])] and \
            ev[1].args[1:] == [var(names[1]), var(names[2])] and not any(e.guards or e.loops for e in ev)
        ck.inst("X1", fn, ok, b.span, "%s = %s(i) then %s(i, iter)" % (fn, c1, c2))
    # ---- mirror symmetry of effect sets -------------------------------------------------
    for f1, n1, f2, n2 in (("insert", ("self", "row", "col"), "insert", ("self", "row", "col")),
                           ("remove", ("self", "row", "col"), "remove", ("self", "row", "col")),
                           ("toggle", ("self", "row", "col"), "toggle", ("self", "row", "col")),
                           ("clear_row", ("self", "row"), "clear_col", ("self", "col")),
                           ("insert_row", ("self", "row", "cols"), "insert_col", ("self", "col", "rows")),
                           ("set_row", ("self", "row", "cols"), "set_col", ("self", "col", "rows"))):
        _, t1, _ = trace(F, f1, n1)
        _, t2, _ = trace(F, f2, n2)
        SWm = {"rows": "cols", "cols": "rows", "row": "col", "col": "row"}

        def canon_side(t_, swap):
            out_ = []
            for k in list_effects(F, t_):
                gs = sorted((g if k[0] != "remove-value" else g) for g in k[4] if not (k[0] == "remove-value" and g[0] == "PRESENT" and g[2] is True))
                d = repr((k[0], k[1], k[2], k[3], gs))
                if swap:
                    d = re.sub(r"(?<![A-Za-z0-9])(rows|cols|row|col)(?![A-Za-z0-9_])", lambda m: SWm[m.group(1)], d)
                    d = re.sub(r"\('PRESENT', \('(\w+)', '(\w+)'\)", lambda m: "('PRESENT', ('%s', '%s')" % tuple(sorted(m.groups())), d)
                out_.append(d)
            # calls of other SparseMatrix methods (insert_row -> insert ..): as before, with canonical path conditions
            class _T:
                pass
            tt = _T()
            tt.events = [e for e in t_.events if e.callee.startswith(SM)]
            out_ += norm_effects(F, tt, swap=swap)
            return sorted(out_)
        a = canon_side(t1, True)
        b_ = canon_side(t2, False)
        ck.inst("X1", "mirror:%s~%s" % (f1, f2), a == b_, F.body(SM + f1).span,
                "effects of %s under rows<->cols, row<->col equal the effects of %s" % (f1, f2) if a == b_ else
                "not mirror images: %s vs %s" % ([x[:90] for x in a], [x[:90] for x in b_]))

    # ---- X2: outer vectors ------------------------------------------------------------------
    n_mut = 0
    viol = []
    for body in F.find_bodies(r"sparse::.*"):
        if not body.hir or body.path == SM + "new":
            continue
        for n in walk(body.value):
            k = n.get("k")
            if k in ("assign", "assignop"):
                ap = access_path(n["l"])
                if ap and len(ap) == 2 and ap[1] in ("rows", "cols") and "SparseMatrix" in strip(n["l"]).get("e", {}).get("ty", "SparseMatrix"):
                    viol.append((body.path, n["sp"], "assignment to self.%s" % ap[1]))
            if k == "mcall" and n["m"] in MUTATING_VEC | {"iter_mut", "as_mut_slice", "last_mut", "first_mut"}:
                ap = access_path(n["recv"])
                rty = strip(n["recv"]).get("ty", "")
                if ap and ap[-1] in ("rows", "cols") and rty.startswith("std::vec::Vec<std::vec::Vec<usize>>"):
                    if n["m"] in MUTATING_VEC:
                        viol.append((body.path, n["sp"], "%s() on the outer vector %s" % (n["m"], ".".join(x.split("#")[0] for x in ap))))
                n_mut += 1
            if k == "ref" and n.get("mut"):
                ap = access_path(n["e"])
                if ap and len(ap) == 2 and ap[-1] in ("rows", "cols") and strip(n["e"]).get("ty", "").startswith("std::vec::Vec<std::vec::Vec<usize>>"):
                    viol.append((body.path, n["sp"], "&mut borrow of the whole outer vector"))
    for v in viol:
        ck.fail("X2", "outer-vector-mutation:" + v[0].rsplit("::", 1)[-1], v[1], "%s: %s (changes the matrix dimensions or escapes the mirror discipline)" % (v[0], v[2]))
    ck.inst("X2", "outer-vectors-only-built-in-new", not viol, F.body(SM + "new").span,
            "no method of module `sparse` other than `new` assigns, resizes or mutably borrows rows/cols as a whole (%d list-level mutations inspected)" % n_mut)
    ck.floor("X2", "list-level mutation sites inspected", n_mut, 6)
    nb, tn, nv = trace(F, "new", ("nrows", "ncols"))
    okn = isinstance(nv, tuple) and nv[0] == "struct" and "nrows" in repr(nv[2].get("rows")) and "ncols" in repr(nv[2].get("cols")) \
        and "ncols" not in repr(nv[2].get("rows")) and "nrows" not in repr(nv[2].get("cols"))
    ck.inst("X2", "new", okn, nb.span, "new(nrows, ncols) builds `rows` from nrows and `cols` from ncols empty lists")

    # ---- X3: queries ------------------------------------------------------------------------------
    def ev_fn(fn, names):
        b = F.body(SM + fn)
        e = Tracer(F, "NONE", mode="int")
        en = {}
        for p, nm in zip(b.params, names):
            e.bind(p, var(nm), en)
        return b, e.eval(b.value, en)
    LEN = "std::vec::Vec::<T, A>::len"
    b, v = ev_fn("contains", ("self", "row", "col"))
    ck.inst("X3", "contains", v in (app("core::slice::<impl [T]>::contains", idx(COLS, Cc), R),
                                    app("core::slice::<impl [T]>::contains", idx(ROWS, R), Cc)), b.span,
            "contains(row, col) = %r (either mirrored list may be searched)" % (v,))
    for fn, nm, lst in (("row_weight", "row", ROWS), ("col_weight", "col", COLS)):
        b, v = ev_fn(fn, ("self", nm))
        ck.inst("X3", fn, v == app(LEN, idx(lst, var(nm))), b.span, "%s(i) = %r" % (fn, v))
    for fn, lst in (("num_rows", ROWS), ("num_cols", COLS)):
        b, v = ev_fn(fn, ("self",))
        ck.inst("X3", fn, v == app(LEN, lst), b.span, "%s() = %r" % (fn, v))
    for fn, nm, lst in (("iter_row", "row", ROWS), ("iter_col", "col", COLS)):
        b, v = ev_fn(fn, ("self", nm))
        ck.inst("X3", fn, v == ("iterdesc", ("elems", idx(lst, var(nm)))), b.span, "%s(i) iterates %r" % (fn, v))
    b, v = ev_fn("iter_all", ("self",))
    ok = False
    if isinstance(v, tuple) and v and v[0] == "iterdesc" and v[1][0] == "flat_map" and len(v[1]) == 3:
        src, clo = v[1][1], v[1][2]
        if src == ("enumerate", ("elems", ROWS)):
            tr = Tracer(F, "NONE", mode="int")
            r = tr.apply(clo, [("tuple", [var("j"), var("r")])])
            if isinstance(r, tuple) and r[0] == "iterdesc" and r[1][0] == "map" and r[1][1] == ("elems", var("r")):
                ok = tr.apply(r[1][2], [var("k")]) == ("tuple", [var("j"), var("k")])
    ck.inst("X3", "iter_all", ok, b.span, "iter_all() = rows.iter().enumerate().flat_map(|(j, r)| r.iter().map(|&k| (j, k)))")

    # ---- X4 --------------------------------------------------------------------------------------------
    adt = F.adt("sparse::SparseMatrix")
    fields = {f["name"]: f["vis"] for f in adt["variants"][0]["fields"]}
    priv = set(fields) == {"rows", "cols"} and all("Restricted" in v and "sparse" in v for v in fields.values())
    ck.inst("X4", "fields-private", priv, adt["span"], "fields %s" % fields)
    peq = [i for i in F.impls if i.get("trait") == "std::cmp::PartialEq" and i.get("self_ty") == "sparse::SparseMatrix"]
    derived = len(peq) == 1 and "derive" in (peq[0].get("expn") or "")
    ck.inst("X4", "derived-eq", derived, adt["span"], "PartialEq for SparseMatrix is the derived field-wise comparison (%s)" % (peq[0].get("expn") if peq else None))
    if tier == "thorough":
        from ..witness import check_witnesses
        check_witnesses(ck, "X4", ["W1"])
