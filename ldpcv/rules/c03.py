"""C03 - both schedules are textbook belief propagation: routing, store topology, phase order, field effects."""
import re

from ..extract import AnalysisError
from ..facts import walk, strip, callee
from ..symx import SymEval, Poly, Unsupported, app, var, num, single_atom, atom_fn, atom_args, vkey
from ..trace import Tracer
from ..decmodel import trace_fn, self_field_uses, FL, HL, ARI

LEVEL = "other"
SM = "sparse::SparseMatrix::"


def elem_of(v):
    """v == elem(base, _) -> base"""
    a = single_atom(v) if isinstance(v, Poly) else None
    if a and atom_fn(a) == "elem":
        return atom_args(a)[0]
    return None


def run(ck, F, tier):
    ck.explanation = (
        "Decided (S), once for the polymorphic schedule bodies (hence for any arithmetic, built-in or user-defined): F1 message "
        "routing - every Messages::send receives (source = the node being processed, destination = the message's own dest, value = "
        "its value), Messages::send stores into the slot of `destination` whose source tag matches; F2 the message stores are built "
        "from the right adjacency (check messages per variable from iter_col, variable messages per check from iter_row; layered "
        "store per check from iter_row); F3 phase order per iteration: all check nodes, then all variable nodes (flooding), then the "
        "syndrome test, unconditionally; initialisation after the failed shortcut and before the loop; F4 two-phase field effects: "
        "the check pass reads only variable messages and writes only check messages, the variable pass reads check messages and channel "
        "LLRs and writes variable messages and outputs; F5 layered: checks processed in storage (row) order with the same &mut LLR "
        "vector handed to every update, LLRs initialised positionally from the quantised channel values and all check messages reset. "
        "NOT decided: equality of results with a reference BP for arbitrary arithmetics and posterior exactness on forests "
        "(behavioural equivalence over all programs/inputs).")
    ck.rule("F1", "message routing (source, destination, value) at every send; slot selection inside Messages::send")
    ck.rule("F2", "store topology built from the matrix adjacency")
    ck.rule("F3", "phase order inside decode")
    ck.rule("F4", "field effects of the two flooding passes")
    ck.rule("F5", "layered order, in-place update and initialisation")
    ck.rule("F8", "exact sum-product on cycle-free graphs rests on the phi and tanh check rules: their emission, leave-one-out and sign rules (C04 K1/K2 for Phif*/Tanhf*), run here")
    ck.rule("F7", "immediate variable update of the layered schedule, for every built-in arithmetic: vars[d] <- vars[d] - old message + new message in the pass that stores the new message (the rule C05-V5, run here because the layered schedule delegates this step to the arithmetic)")
    ck.rule("F6", "zero-iteration shortcut of both schedules: the raw channel LLRs are tested with 'non-positive means 1' before any message is computed")

    from ..decmodel import phase_roles, decode_contracts
    fl_roles = phase_roles(F, FL)

    def fl(role):
        ps = [p for p, r in fl_roles.items() if r == role]
        if len(ps) != 1:
            raise AnalysisError("flooding decoder: expected exactly one %s step, found %s" % (role, fl_roles))
        return ps[0]
    FL_CHECK, FL_VAR, FL_INIT = fl("check"), fl("variable"), fl("init")
    # ---- F1: flooding sends ---------------------------------------------------------------------
    def sends(calls):
        return [s for s in t.sites if s["kind"] == "contract" and s["detail"].endswith("::send")]

    b, t, _, calls = trace_fn(F, FL_CHECK, ("self",))
    ss = sends(calls)
    arith = [s for s in calls if s["detail"] == ARI + "send_check_messages"]
    ok = len(ss) == 1 and len(arith) == 1
    why = "expected one send_check_messages call and one send in its closure"
    if ok:
        s, a = ss[0], arith[0]
        lp = a["loops"]
        enum_ok = len(lp) == 1 and lp[0][0] == "enumerate" and lp[0][2] == ("elems", var("self.variable_messages.per_destination"))
        c = var(lp[0][1]) if enum_ok else None
        msgs_ok = enum_ok and elem_of(a["vals"][1]) == var("self.variable_messages.per_destination")
        store, src, dst, val = s["vals"]
        m = None
        da = single_atom(dst) if isinstance(dst, Poly) else None
        if da and da[0] == "v" and da[1].endswith(".dest"):
            m = da[1][:-5]
        ok = enum_ok and msgs_ok and store == var("self.check_messages") and src == c and m is not None and val == var(m + ".value") \
            and not s["guards"] and not a["guards"]
        why = "for (c, messages) in variable_messages.per_destination.enumerate(): send_check_messages(messages, |msg| %r.send(%r, %r, %r))" % (store, src, dst, val)
    ck.inst("F1", "flooding:check-pass", ok, b.span, why + " ; required check_messages.send(c, msg.dest, msg.value)")

    from ..decmodel import loop_positional
    from ..panics import unwrap_mut
    b, t, _, calls = trace_fn(F, FL_VAR, ("self",))
    ss = sends(calls)
    arith = [s for s in calls if s["detail"] == ARI + "send_var_messages"]
    ok = len(ss) == 1 and len(arith) == 1
    why = "expected one send_var_messages call and one send in its closure"
    asg = [e for e in t.events if e.callee == "<assign>"]
    if ok:
        s, a = ss[0], arith[0]
        store, src, dst, val = s["vals"]
        # one pass over the positions v of the three per-variable sequences, however the zip/enumerate is grouped
        shape = False
        idx_names = set()
        if len(a["loops"]) == 1:
            idx_names, leaves, enum = loop_positional(a["loops"][0])
            want_leaves = [("elems", var("self.check_messages.per_destination")), ("elems", var("self.output_llrs")), ("elems", var("self.input_llrs"))]
            shape = enum and sorted(map(repr, leaves)) == sorted(map(repr, want_leaves))
        da = single_atom(dst) if isinstance(dst, Poly) else None
        m = da[1][:-5] if da and da[0] == "v" and da[1].endswith(".dest") else None
        sa_ = single_atom(src) if isinstance(src, Poly) else None
        src_ok = sa_ is not None and sa_[0] == "v" and sa_[1] in idx_names
        out_ok = len(asg) == 1 and "self.output_llrs" in repr(asg[0].args[0]) and repr(asg[0].args[1]).startswith(ARI + "send_var_messages(") and not asg[0].guards
        llr_ok = "self.input_llrs" in repr(a["vals"][1]) and "self.check_messages.per_destination" in repr(a["vals"][2])
        ok = shape and store == var("self.variable_messages") and src_ok and m is not None and val == var(m + ".value") and out_ok and llr_ok and not a["guards"]
        why = ("one pass over the positions of check_messages.per_destination, output_llrs and input_llrs [%s]: output[v] = send_var_messages(input[v], "
               "messages[v], |msg| %r.send(%r, %r, %r)) [index %s, out %s, args %s]" % (shape, store, src, dst, val, src_ok, out_ok, llr_ok))
    ck.inst("F1", "flooding:variable-pass", ok, b.span, why + " ; required variable_messages.send(v, msg.dest, msg.value)")

    b, t, _, calls = trace_fn(F, FL_INIT, ("self", "llrs"))
    ss = sends(calls)
    ok = len(ss) == 1
    why = "expected one send in initialize"
    if ok:
        s = ss[0]
        store, src, dst, val = s["vals"]
        lp = s["loops"]
        # for every variable v (position in input_llrs) and every check c of h.iter_col(v): nested loops or a flat_map of the same nest
        shape = len(lp) == 2 and lp[0][0] in ("enumerate", "iter") and lp[1][0] == "iter"
        col_ok = dst_ok = val_ok = False
        v = None
        if shape:
            names0, leaves0, enum0 = loop_positional(lp[0])
            shape = enum0 and [repr(x) for x in leaves0] == [repr(("elems", var("self.input_llrs")))]
            sa_ = single_atom(src) if isinstance(src, Poly) else None
            v = src if (sa_ is not None and sa_[0] == "v" and sa_[1] in names0) else None
        if shape and v is not None:
            COL = app(SM + "iter_col", var("self.h"), v)
            d1 = lp[1][2]
            while isinstance(d1, tuple) and d1 and d1[0] == "map":
                d1 = d1[1]          # a map that only repackages (v, c, llr) keeps the visited checks
            col_ok = d1 in (("elems", COL), ("elems", ("P", COL)))
            dst_ok = col_ok and (elem_of(dst) == COL)
            va = single_atom(val) if isinstance(val, Poly) else None
            val_ok = va is not None and atom_fn(va) == ARI + "llr_to_var_message" and elem_of(atom_args(va)[1]) == var("self.input_llrs")
        ok = bool(shape) and v is not None and store == var("self.variable_messages") and dst_ok and val_ok and not s["guards"]
        why = "for every variable v of input_llrs and every c of h.iter_col(v): %r.send(%r, %r, llr_to_var_message(llr_v)) [%s %s %s]" % (store, src, dst, col_ok, dst_ok, val_ok)
    asg = [e for e in t.events if e.callee == "<assign>"]
    q_ok = len(asg) == 1 and elem_of(asg[0].args[0]) == var("self.input_llrs") and repr(asg[0].args[1]).startswith(ARI + "input_llr_quantize(self.arithmetic, elem(") \
        and "llrs" in repr(asg[0].args[1]) and t.events.index(asg[0]) == 0 and not asg[0].guards
    ck.inst("F1", "flooding:initialize", ok and q_ok, b.span, why + " ; input_llrs[i] = input_llr_quantize(llrs[i]) first: %s" % q_ok)

    sb = F.body("decoder::Messages::<T>::send")
    ts = Tracer(F, "NONE")
    env = {}
    for p, nm in zip(sb.params, ("self", "source", "destination", "value")):
        ts.bind(p, var(nm), env)
    ts.eval(sb.value, env)
    asg = [e for e in ts.events if e.callee == "<assign>"]
    ok = False
    SEQ = app("index", var("self.per_destination"), var("destination"))
    UNW = ("std::option::Option::<T>::expect", "std::option::Option::<T>::unwrap")

    def pred_of(clo):
        node = F.closures.get(clo[1]) if isinstance(clo, tuple) and clo and clo[0] == "closure" and isinstance(clo[1], str) else None
        if node is None:
            return None
        try:
            return Tracer(F, "NONE").apply(("closure", node, dict(ts.closure_envs.get(clo[1], {}))), [var("m")])
        except Unsupported:
            return None

    def seq_is(d):
        return isinstance(d, tuple) and d and d[0] == "iterdesc" and d[1][0] == "elems" and unwrap_mut(d[1][1][1] if isinstance(d[1][1], tuple) and d[1][1][0] == "P" else d[1][1]) == SEQ
    TAGEQ = (app("eq", var("m.source"), var("source")), app("eq", var("source"), var("m.source")))
    if len(asg) == 1 and asg[0].args[1] == var("value") and not asg[0].guards and not asg[0].loops:
        tgt = asg[0].args[0]
        ta = single_atom(tgt) if isinstance(tgt, Poly) else None
        if ta and atom_fn(ta) == ".value":
            inner = single_atom(atom_args(ta)[0])
            if inner and atom_fn(inner) in UNW:
                # per_destination[d].iter_mut().find(|m| m.source == source).expect(..).value = value
                f = single_atom(atom_args(inner)[0])
                if f and atom_fn(f) == "std::iter::Iterator::find":
                    ok = seq_is(f[2]) and pred_of(f[3]) in TAGEQ
            elif inner and atom_fn(inner) == "index":
                # let i = per_destination[d].iter().position(|m| m.source == source).expect(..); per_destination[d][i].value = value
                base_, i_ = atom_args(inner)
                ia = single_atom(i_) if isinstance(i_, Poly) else None
                if unwrap_mut(base_) == SEQ and ia and atom_fn(ia) in UNW:
                    f = single_atom(atom_args(ia)[0])
                    if f and atom_fn(f) == "std::iter::Iterator::position":
                        ok = seq_is(f[2]) and pred_of(f[3]) in TAGEQ
        elif ta and atom_fn(ta) in UNW:
            # *per_destination[d].iter_mut().find_map(|m| (m.source == source).then_some(&mut m.value)).expect(..) = value
            f = single_atom(atom_args(ta)[0])
            if f and atom_fn(f) == "std::iter::Iterator::find_map":
                pv = pred_of(f[3])
                ok = seq_is(f[2]) and isinstance(pv, tuple) and len(pv) == 3 and pv[0] == "opt" and pv[2] == var("m.value") and \
                    pv[1] in (app("bool_to_option", TAGEQ[0]), app("bool_to_option", TAGEQ[1]))
    ck.inst("F1", "Messages::send", ok, sb.span, "send(source, destination, value): the (first) slot of per_destination[destination] whose source tag equals `source` receives the value")

    # ---- F2 -----------------------------------------------------------------------------------------
    def store_src(path, field, ctor):
        nb = F.body(path)
        tn = Tracer(F, re.escape(ctor))
        en = {}
        for p, nm in zip(nb.params, ("h", "arithmetic")):
            tn.bind(p, var(nm), en)
        nv = tn.eval(nb.value, en)
        evs = [e for e in tn.events if e.callee == ctor]
        out = []
        for e in evs:
            d = e.args[0]
            if isinstance(d, tuple) and d[0] == "iterdesc" and d[1][0] == "map" and d[1][1][0] == "range":
                rng = d[1][1]
                el = tn.apply(d[1][2], [var("i")])
                out.append((rng, el, e))
        fv = nv[2].get(field) if isinstance(nv, tuple) and nv[0] == "struct" else None
        return nb, out, fv, evs
    H = var("h")
    for sched, path, field, ctor, bound, adj in (
            ("flooding", FL + "new", "check_messages", "decoder::Messages::<T>::from_iter", "num_cols", "iter_col"),
            ("flooding", FL + "new", "variable_messages", "decoder::Messages::<T>::from_iter", "num_rows", "iter_row"),
            ("layered", HL + "new", "check_messages", "decoder::SentMessages::<T>::from_iter", "num_rows", "iter_row")):
        nb, srcs, fv, evs = store_src(path, field, ctor)
        ok = False
        why = "store not built by %s over a mapped range" % ctor
        for rng, el, e in srcs:
            if fv == app(ctor, e.args[0]) or repr(vkey(fv)) == repr(vkey(app(ctor, e.args[0]))):
                ok = rng == ("range", num(0), app(SM + bound, H), False) and el == app(SM + adj, H, var("i"))
                why = "%s = from_iter((%r..%r).map(|i| %r))" % (field, rng[1], rng[2], el)
        ck.inst("F2", "%s:%s" % (sched, field), ok, nb.span, why + " ; required (0..h.%s()).map(|i| h.%s(i))" % (bound, adj))
    def peel_collect_map(v, tr_, env_):
        """collect(map(SRC, clo)) [possibly .into_boxed_slice()] -> (SRC value/desc, closure value) or None"""
        for _ in range(4):
            a_ = single_atom(v) if isinstance(v, Poly) else None
            if a_ is None:
                return None
            fn_ = atom_fn(a_)
            if fn_.endswith("into_boxed_slice") or fn_.endswith("Vec::<T>::into") or fn_.endswith("From::from"):
                v = atom_args(a_)[0]
                continue
            if fn_ == "std::iter::Iterator::collect":
                d = a_[2]
                if isinstance(d, tuple) and d and d[0] == "iterdesc" and d[1][0] == "map":
                    return d[1][1], d[1][2]
                da_ = single_atom(d[1]) if isinstance(d, tuple) and len(d) == 2 and d[0] == "P" and isinstance(d[1], Poly) else None
                if da_ and atom_fn(da_) == "std::iter::Iterator::map":
                    return da_[2], da_[3]
            return None
        return None

    def as_closure(c, tr_):
        if isinstance(c, tuple) and c and c[0] == "closure" and isinstance(c[1], str):
            return ("closure", F.closures.get(c[1]), dict(getattr(tr_, "closure_envs", {}).get(c[1], {})))
        return c
    for ctor, tagf, sname in (("decoder::Messages::<T>::from_iter", "source", "Message"), ("decoder::SentMessages::<T>::from_iter", "dest", "SentMessage")):
        fb = F.body(ctor)
        tg = Tracer(F, "NONE", inline=lambda p: F.private_helper(p, "decoder::", keep=r"decoder::(flooding|horizontal_layered|arithmetic|factory)::.*"))
        envg = {}
        tg.bind(fb.params[0], var("iter"), envg)
        ok = False
        try:
            rv = tg.eval(fb.value, envg)
            fld = list(rv[2].values())[0] if isinstance(rv, tuple) and rv[0] == "struct" and len(rv[2]) == 1 else None
            outer = peel_collect_map(fld, tg, envg)
            is_src = lambda d, v_: d in (v_, ("P", v_), ("elems", v_), ("elems", ("P", v_)))
            if outer is not None and is_src(outer[0], var("iter")):
                inner_v = tg.apply(as_closure(outer[1], tg), [var("nodes")])
                inner = peel_collect_map(inner_v, tg, envg)
                if inner is not None and is_src(inner[0], var("nodes")):
                    ent = tg.apply(as_closure(inner[1], tg), [var("node")])
                    ok = isinstance(ent, tuple) and ent[0] == "struct" and ent[1] == sname and ent[2].get(tagf) == var("node") and \
                        ent[2].get("value") == app("std::default::Default::default") and set(ent[2]) == {tagf, "value"}
        except Unsupported:
            ok = False
        ck.inst("F2", ctor.split("::")[1] + ":tags", ok, fb.span, "one slot per adjacency entry, in order, tagged with that entry (%s = node) and holding a default value" % tagf)

    # ---- F3 -----------------------------------------------------------------------------------------
    for sched, prefix, want in (("flooding", FL, ["check", "variable", "check_llrs"]),
                                ("layered", HL, ["check", "check_llrs"])):
        roles = {p.rsplit("::", 1)[-1]: r for p, r in phase_roles(F, prefix).items()}
        b, t, _, calls = trace_fn(F, prefix + "decode", ("self", "llrs", "max_iterations"), contracts=decode_contracts(F, prefix))
        calls = [s for s in calls if not s["detail"].startswith(("decoder::arithmetic::", "sparse::"))]
        inloop = [s for s in calls if s["loops"] and not s["detail"].endswith("hard_decisions")]
        names = [roles.get(s["detail"].rsplit("::", 1)[-1], s["detail"].rsplit("::", 1)[-1]) for s in inloop]
        init = [s for s in calls if roles.get(s["detail"].rsplit("::", 1)[-1]) == "init"]
        base_guards = repr(init[0]["guards"]) if init else None
        uncond = all(repr(s["guards"]) == base_guards for s in inloop)
        init_ok = len(init) == 1 and not init[0]["loops"] and any("check_llrs" in repr(g) and not p for g, p in init[0]["guards"]) \
            and bool(inloop) and calls.index(init[0]) < calls.index(inloop[0])
        ck.inst("F3", sched + ":phase-order", names == want and uncond and init_ok, b.span,
                "per iteration %s (unconditional: %s); initialisation once after the failed shortcut and before the loop: %s ; required %s "
                "(steps are classified by the store they write, not by name)" % (names, uncond, init_ok, want))

    # ---- F6 -----------------------------------------------------------------------------------------
    from .c01 import trace_decode, hd_of
    for sched, prefix in (("flooding", FL), ("layered", HL)):
        b6, t6, _ = trace_decode(F, prefix)
        sites6 = [x for x in t6.sites if x["kind"] == "contract" and not x["detail"].startswith(("decoder::arithmetic::", "sparse::"))]
        first = sites6[0] if sites6 else None
        ok6 = False
        why6 = "the first step of decode is not the syndrome test of the input"
        if first is not None and first["detail"] == "decoder::check_llrs":
            hv = hd_of(F, first["vals"][2])
            raw = first["vals"][1] == var("llrs") and first["vals"][0] == var("self.h")
            nonpos = hv in (app("le", var("x"), num(0)), app("not", app("lt", num(0), var("x"))))
            ok6 = raw and nonpos and not first["loops"]
            why6 = "decode first tests check_llrs(h, llrs, hd) on the caller's LLRs (%s) with hd(x) = %r; the textbook convention is x <= 0 -> bit 1 (%s)" % (raw, hv, nonpos)
        ck.inst("F6", sched + ":shortcut-test", ok6, first["sp"] if first else b6.span, why6)

    # ---- F4 -----------------------------------------------------------------------------------------
    def fields(path):
        u = self_field_uses(F.body(path))
        r = sorted(f for f, d in u.items() if "r" in d)
        w = sorted(f for f, d in u.items() if "w" in d)
        return r, w
    r, w = fields(FL_CHECK)
    ck.inst("F4", "check-pass-effects", r == ["variable_messages"] and w == ["arithmetic", "check_messages"], F.body(FL_CHECK).span,
            "reads %s, writes %s ; required reads [variable_messages], writes [arithmetic (scratch), check_messages]" % (r, w))
    r, w = fields(FL_VAR)
    ck.inst("F4", "variable-pass-effects", r == ["check_messages", "input_llrs"] and w == ["arithmetic", "output_llrs", "variable_messages"],
            F.body(FL_VAR).span,
            "reads %s, writes %s ; required reads [check_messages, input_llrs], writes [arithmetic (scratch), output_llrs, variable_messages]" % (r, w))

    # ---- F5 -----------------------------------------------------------------------------------------
    hl_roles = phase_roles(F, HL)
    hl_check = [p for p, r in hl_roles.items() if r == "check"]
    hl_init = [p for p, r in hl_roles.items() if r == "init"]
    if len(hl_check) != 1 or len(hl_init) != 1:
        raise AnalysisError("layered decoder: expected one check-processing step and one initialisation step, found %s" % hl_roles)
    b, t, _, calls = trace_fn(F, hl_check[0], ("self",))
    up = [s for s in calls if s["detail"] == ARI + "update_check_messages_and_vars"]
    ok = len(up) == 1 and len(calls) == 1
    if ok:
        s = up[0]
        lp = s["loops"]
        # one loop over the whole per-check store in storage order (a plain elems() description: no rev/skip/step_by/filter),
        # handing each check's own messages and the one shared LLR vector to the update
        ok = len(lp) == 1 and lp[0][0] == "iter" and lp[0][2] == ("elems", var("self.check_messages.per_source")) \
            and elem_of(s["vals"][1]) == var("self.check_messages.per_source") and s["vals"][2] == var("self.llrs") and not s["guards"]
    ck.inst("F5", "layered:row-order-in-place", ok, b.span,
            "for messages in check_messages.per_source (storage order, no rev/skip/step_by): update_check_messages_and_vars(messages, &mut self.llrs)")
    b, t, _, calls = trace_fn(F, hl_init[0], ("self", "llrs"))
    asg = [e for e in t.events if e.callee == "<assign>"]
    ok = len(asg) == 2
    if ok:
        a1, a2 = asg
        if elem_of(a1.args[0]) != var("self.llrs"):
            a1, a2 = a2, a1
        # llrs[i] = llr_to_var_llr(input_llr_quantize(y[i])): target and source are the elements at the same position of the two
        # whole slices (a zip, in a for loop or under for_each)
        ok1 = zip_ok = False
        if len(a1.loops) == 1 and a1.loops[0][0] == "iter" and isinstance(a1.loops[0][1], str) and not a1.guards:
            h_ = a1.loops[0][1]
            _, leaves1, _ = loop_positional(a1.loops[0])
            Q = app(ARI + "llr_to_var_llr", var("self.arithmetic"), app(ARI + "input_llr_quantize", var("self.arithmetic"), var("Y")))
            ys = [app("elem", var("llrs"), var(h_ + "_z")), app("elem", ("iterdesc", ("elems", var("llrs"))), var(h_ + "_z"))]
            from ..symx import replace_atom
            ok1 = a1.args[0] == app("elem", var("self.llrs"), var(h_)) and any(a1.args[1] == replace_atom(Q, single_atom(var("Y")), y) for y in ys)
            zip_ok = repr(("elems", var("self.llrs"))) in [repr(x) for x in leaves1] and all(repr(x) in (repr(("elems", var("self.llrs"))), repr(("elems", var("llrs")))) for x in leaves1)
        t2 = single_atom(a2.args[0])
        ok2 = False
        if t2 is not None and atom_fn(t2) == ".value" and len(a2.loops) == 2 and not a2.guards and a2.args[1] == app("std::default::Default::default"):
            l0, l1 = a2.loops
            ok2 = l0[0] == "iter" and l0[2] == ("elems", var("self.check_messages.per_source")) and isinstance(l0[1], str) and \
                l1[0] == "iter" and l1[2] == ("elems", app("elem", var("self.check_messages.per_source"), var(l0[1]))) and isinstance(l1[1], str) and \
                atom_args(t2)[0] == app("elem", app("elem", var("self.check_messages.per_source"), var(l0[1])), var(l1[1]))
        ok = ok1 and zip_ok and ok2
    ck.inst("F5", "layered:initialize", ok, b.span,
            "llrs[i] = llr_to_var_llr(input_llr_quantize(y[i])) by position (zip of the two whole slices) and every check message value reset to Default")
    # F7: the layered schedule's immediate variable update lives in the arithmetic (update_check_messages_and_vars)
    from ..report import RuleAlias
    from .c05 import layered_update_rule
    from .c05 import TRAIT as _TRAIT
    impls_ = F.impls_of(_TRAIT)
    ck.floor("F7", "impl DecoderArithmetic", len(impls_), 24)
    for im_ in impls_:
        layered_update_rule(RuleAlias(ck, "F7"), F, im_["self_ty"].rsplit("::", 1)[-1], rule="V5")

    # F8: the posterior clause needs the exact check rules (phi / tanh) to be the box-plus: their C04 structure rules
    from . import c04
    c04.run(RuleAlias(ck, "F8", only=lambda r_, k_: r_ in ("K1", "K2", "K4") and k_.startswith(("Phif", "Tanhf"))), F, "quick", only=("K1", "K2", "K4"))
