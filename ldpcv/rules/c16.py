"""C16 - pseudorandom constructions honour their configuration and are reproducible (source of randomness, filters,
undo pairing, seed/result coupling, PEG selection order)."""
import re

from ..extract import AnalysisError
from ..facts import walk, strip, callee, calls_to, access_path
from ..symx import SymEval, Poly, Unsupported, app, var, num, single_atom, atom_fn, atom_args, contains_atom, vkey, cmp_atom, unkey
from ..trace import Tracer
from ..panics import SiteTracer, reachable, mir_callees, mir_fn_refs

LEVEL = "other"
MN = "mackay_neal::MacKayNeal::"
SM = "sparse::SparseMatrix::"
NONDET = re.compile(r"rand::(rng|thread_rng|random|random_range|random_bool).*|rand::rngs::.*|.*::from_os_rng|.*::from_entropy|.*::try_from_os_rng|"
                    r"std::time::(SystemTime|Instant).*::now|getrandom::.*|std::collections::hash::map::RandomState::new|std::hash::RandomState::new|<std::hash::RandomState as std::default::Default>::default|<std::collections::Hash(Map|Set)<.*> as std::default::Default>::default|std::collections::hash_map::RandomState::new|std::hash::random::RandomState::new|std::collections::HashMap::<K, V>::new|std::collections::HashSet::<T>::new")
RX = r"sparse::.*|mackay_neal::.*|peg::.*|util::.*|rand::.*|rand_chacha::.*|std::vec::Vec::<T, A>::(truncate|pop|sort_unstable_by|drain|clear|append)|rayon::.*"


STEPS = "try_insert_column|backtrack|retry_girth|select_rows|run|new"


def trace(F, fn, names, mode="int", expand_helpers=False):
    b = F.body(fn)
    rx = RX
    if expand_helpers == "steps":
        # the named steps of the construction stay calls (each has its own rule); any other private method is a helper of the
        # step being read and is expanded at its call site
        rx = RX.replace("mackay_neal::.*", r"mackay_neal::(?!MacKayNeal::).*|mackay_neal::MacKayNeal::(%s)" % STEPS) \
            .replace("peg::.*", r"peg::(?!Peg::).*|peg::Peg::(insert_edge|run|new)")
    elif expand_helpers:
        # private methods of MacKayNeal called from this step (e.g. one per fill policy) are expanded at their call sites
        rx = RX.replace("mackay_neal::.*", r"mackay_neal::(?!MacKayNeal::).*")
    t = SiteTracer(F, contracts=rx, no_inline=rx + "|std::.*|core::.*", mode=mode)
    t.track_fields = expand_helpers == "steps"      # the transformer readings see stores in program order
    env = {}
    for p, nm in zip(b.params, names):
        t.bind(p, var(nm), env)
    t.fn_stack.append(fn)
    try:
        ret = t.eval(b.value, env)
    except Unsupported as e:
        raise AnalysisError("%s: unreadable shape: %s" % (fn, e))
    calls = [s for s in t.sites if s["kind"] == "contract"]
    return b, t, ret, calls


def resolve_place(mir, l, depth=8):
    """Follow `_l = copy/move _x`, `_l = &[mut] (*_x)` and `_l = &[mut] ((*_x).f..)` definitions back to (root local, [field names])."""
    fields = []
    for _ in range(depth):
        d = None
        for bb in mir["blocks"]:
            for st in bb["stmts"]:
                if st["k"] == "assign" and st["p"]["l"] == l and not st["p"].get("proj"):
                    d = st["rv"]
        if d is None:
            break
        if d["k"] == "use" and d["op"].get("k") in ("copy", "move"):
            pl = d["op"]["p"]
        elif d["k"] in ("ref", "copyforderef"):
            pl = d["p"]
        else:
            break
        fields = [x[2] for x in pl.get("proj", []) if x[0] == "field"] + fields
        l = pl["l"]
    return l, fields


def by_name(calls, name):
    return [s for s in calls if s["detail"].rsplit("::", 1)[-1] == name]


def selftest(C):
    """Canary for Q1 (expected count on the analysed tree: zero): the scan must see every ambient source of the positive example."""
    b = C.body("zero::ambient")
    hits = set()
    for fn, inst, t, i in mir_callees(b):
        for cand in (fn, inst):
            if cand and NONDET.fullmatch(cand):
                hits.add(cand)
    need = ("Instant::now", "SystemTime::now", "HashMap::<K, V>::new", "RandomState::new", "HashSet::<T>::new", "HashMap<K, V, S> as std::default::Default",
            "HashSet<T, S> as std::default::Default", "RandomState as std::default::Default")
    missing = [n for n in need if not any(n in h for h in hits)]
    if missing:
        raise AnalysisError("C16 canary: the nondeterminism scan does not recognise %s (found %s)" % (missing, sorted(hits)))


def run(ck, F, tier):
    ck.explanation = (
        "Decided (S): Q1 everything reachable from mackay_neal::Config::{run,search} and peg::Config::run (MIR call graph incl. "
        "closures and util.rs) draws randomness only from one ChaCha8Rng built by seed_from_u64(seed) with the caller's seed, handed to "
        "every choose/choose_multiple; no thread RNG, OS entropy, clock or randomly-seeded hash container is reachable - necessary and, "
        "with no other nondeterminism source in the reachable set, sufficient for 'same configuration and seed give the same result'; "
        "Q2 MacKay-Neal: both fill policies select only rows with row_weight < wr (strict), exactly wc rows or NoAvailRows, inserted into "
        "column current_col; the girth test is girth_at_node_with_max(Col(current_col), g-1).is_some() and a rejected column is cleared "
        "before Err(GirthTooSmall); backtrack clears exactly columns a..current_col with a = current_col - min(current_col, backtrack_cols) "
        "and resets current_col; run advances only on Ok and returns h only when current_col == num_cols; trial counters decrease by one; "
        "Q3 search returns (s, run(s)) for the same s of start..start+max_tries, filtered on Ok, found over the whole range; Q4 PEG: "
        "candidates are all rows with (bfs distance from Col(col), row weight), ordered by compare_some reversed then weight ascending, the "
        "minimum chosen among equals by the seeded RNG, inserted at (row, col), wc edges per column in column order; compare_some orders "
        "None greatest; BFS structural rules (FIFO, first-visit labelling) are reported. NOT decided: the quantitative guarantees (girth >= "
        "requested, row weights within one, column weight min(wc, rows)) - they rest on the exactness of girth/bfs (C11) - and 'different "
        "seeds explore different choices' (statistical).")
    ck.rule("Q1", "single seeded source of randomness in the reachable set")
    ck.rule("Q2", "MacKay-Neal filters, insert/undo pairing, backtracking, run loop")
    ck.rule("Q3", "seed search returns the matrix of the seed it reports")
    ck.rule("Q4", "PEG candidate set and selection order; compare_some; random tie-break helpers")
    ck.rule("Q5", "BFS structure (reported; Q2/Q4 rely on it)")
    ck.trust("rand_chacha::ChaCha8Rng is a deterministic function of its seed; IteratorRandom::choose/choose_multiple use only the RNG passed in")
    ck.trust("rayon find_any returns some element of the filtered stream, None iff it is empty")

    # ---- Q1 ---------------------------------------------------------------------------------------
    entries = ["mackay_neal::Config::run", "mackay_neal::Config::search", "peg::Config::run"]
    R = reachable(F, entries)
    ck.floor("Q1", "bodies reachable from the three entry points", len(R), 20)
    bad = []
    ctors = []
    consumers = []
    ncalls = 0
    for b in R.values():
        for fn, inst, t, i in mir_callees(b):
            ncalls += 1
            for cand in (fn, inst):
                if cand and NONDET.fullmatch(cand):
                    bad.append((b.path, cand, t["sp"]))
            if fn and fn.endswith("SeedableRng::seed_from_u64"):
                ctors.append((b, t))
            if fn and re.search(r"IteratorRandom::(choose|choose_multiple|choose_stable|choose_multiple_fill)$", fn):
                consumers.append((b, t))
        for ref in mir_fn_refs(b):
            if NONDET.fullmatch(ref):
                bad.append((b.path, ref, b.span))
    for path, cand, sp in bad:
        ck.fail("Q1", "nondeterministic-source:%s" % path.rsplit("::", 1)[-1], sp, "%s reaches %s: the result would not be a function of (configuration, seed)" % (path, cand))
    ck.inst("Q1", "no-ambient-randomness", not bad, F.body(entries[0]).span,
            "no thread RNG / OS entropy / clock / RandomState among %d call sites in %d reachable bodies" % (ncalls, len(R)))
    alias = [a for a in F.items["aliases"] if a["path"] == "rand::Rng"]
    ck.inst("Q1", "rng-type", bool(alias) and alias[0]["ty"] == "rand_chacha::ChaCha8Rng", F.body(entries[0]).span, "rand::Rng = %s" % (alias[0]["ty"] if alias else None))
    ck.floor("Q1", "seed_from_u64 constructors", len(ctors), 2)
    for b, t in ctors:
        # the argument must be the `seed` parameter of the constructor function
        arg = t["args"][0]
        dbg = {d["name"]: d["p"]["l"] for d in b.mir["debug"] if not d["p"].get("proj")}
        ok = False
        if arg.get("k") in ("copy", "move") and not arg["p"].get("proj"):
            root, flds = resolve_place(b.mir, arg["p"]["l"])
            ok = dbg.get("seed") == root and not flds and root <= b.mir["arg_count"]
        ck.inst("Q1", "seeded:%s" % b.path, ok and "ChaCha8Rng" in t["func"].get("ty", ""), t["sp"],
                "%s builds its RNG as ChaCha8Rng::seed_from_u64(seed parameter)" % b.path)
    ck.floor("Q1", "choose/choose_multiple call sites", len(consumers), 3)
    for i, (b, t) in enumerate(consumers):
        # the RNG argument: a &mut to self.rng or to the rng parameter
        dbg = {d["p"]["l"]: d["name"] for d in b.mir["debug"] if not d["p"].get("proj")}
        rng_arg = t["args"][1]
        src = None
        if rng_arg.get("k") in ("copy", "move"):
            root, flds = resolve_place(b.mir, rng_arg["p"]["l"])
            src = (dbg.get(root), flds)
        ok = src is not None and ((src[0] == "self" and src[1][-1:] == ["rng"]) or src[0] == "rng")
        ck.inst("Q1", "rng-threaded#%d:%s" % (i + 1, b.path.rsplit("::", 1)[-1]), ok, t["sp"], "%s draws from %s" % (t["func"].get("fn", "").rsplit("::", 1)[-1], src))

    # ---- Q2 ---------------------------------------------------------------------------------------
    b, t, ret, calls = trace(F, MN + "select_rows", ["self"], expand_helpers=True)
    # both policies filter rows by a closure whose predicate, evaluated in the environment of its call site, must be
    # row_weight(self.h, r) < self.wr (strict). Name-independent: locals are resolved to what they were bound to.
    tf = Tracer(F, r"std::iter::Iterator::(filter|filter_map)", mode="int")
    envf = {}
    tf.bind(b.params[0], var("self"), envf)
    # Tracer turns filter/filter_map into iterator descriptions; collect the closures from the descriptions of the consumers
    preds = []

    def closures_of(d):
        out = []
        if isinstance(d, tuple):
            if d and d[0] in ("filter", "filter_map") and len(d) > 2 and isinstance(d[2], tuple) and d[2] and d[2][0] == "closure":
                out.append(d[2])
            for x in d:
                out += closures_of(x)
        return out
    seen_cl = set()
    sources = []
    from ..transformer import StepReading, compare, Grid
    from ..symx import NotEvaluable
    from itertools import product
    H = "<self.h>"

    def upstream_filters(d):
        """(filter kind, upstream description, closure) of every filter / filter_map stage in an iterator description"""
        out = []
        if isinstance(d, tuple):
            if d and d[0] in ("filter", "filter_map") and len(d) > 2 and isinstance(d[2], tuple) and d[2] and d[2][0] == "closure":
                out.append((d[0], d[1], d[2]))
            for x in d:
                out += upstream_filters(x)
        return out

    class T2(Tracer):
        def e_mcall(self_, n, env):
            v = Tracer.e_mcall(self_, n, env)
            if isinstance(v, tuple) and v and v[0] == "iterdesc":
                for kind, up, c in upstream_filters(v[1]):
                    if id(c[1]) not in seen_cl:
                        seen_cl.add(id(c[1]))
                        try:
                            # the predicate applied to the element the upstream stages produce for row r
                            preds.append((kind, self_.apply(c, [self_.elem_value(up, "r")]), c[1].get("sp")))
                            sources.append(up)
                        except Unsupported:
                            pass
            return v
    from ..idioms import PUSH_RX, exits
    t2 = T2(F, PUSH_RX, mode="int", inline=lambda p: F.private_helper(p, MN))
    env2 = {}
    t2.bind(b.params[0], var("self"), env2)
    ret2 = t2.eval(b.value, env2)
    # explicit-loop spelling of a filter: `for r in 0..num_rows { if pred(r) { candidates.push(..) } }`
    for e in t2.events:
        if e.callee.endswith("::push") and e.loops and e.loops[-1][0] == "range" and len(e.guards) >= 1:
            lp = e.loops[-1]
            if lp[2] == num(0) and lp[3] == app(SM + "num_rows", var("self.h")) and not lp[4]:
                from ..symx import replace_atom
                own = [(g, p) for g, p in e.guards if contains_atom(vkey(g), lambda a_: a_ == ("v", lp[1]))]
                if len(own) == 1:
                    g_ = replace_atom(own[0][0], single_atom(var(lp[1])), var("r"))
                    preds.append(("filter", g_ if own[0][1] else app("not", g_), e.site))
    # each predicate is evaluated on a grid of (row weight, wr): row r is kept exactly when row_weight(h, r) < wr
    from ..transformer import Grid
    from ..symx import NotEvaluable
    nread = 0
    for i, (kind, v, sp) in enumerate(preds):
        okp, bad = True, None
        try:
            for w, wr_ in ((w, x) for w in range(4) for x in range(4)):
                seen_r = []
                g = Grid({"r": 1, "self.wr": wr_}, {"row_weight": lambda h_, r_, w=w: (seen_r.append((h_, r_)), w)[1], "num_rows": lambda *a_: 3})
                val = g.value(v)
                kept = (isinstance(val, tuple) and val[0] == "Some") if kind == "filter_map" else bool(val)
                if kept != (w < wr_) or any(x != ("<self.h>", 1) for x in seen_r):
                    okp, bad = False, (w, wr_, kept)
                    break
            nread += 1
        except (NotEvaluable, TypeError) as ex:
            okp, bad = False, "not evaluable: %s" % ex
        ck.inst("Q2", "select_rows:weight-filter#%d" % (i + 1), okp, sp or b.span,
                "row r stays a candidate exactly when row_weight(h, r) < wr (strict)%s" % ("" if okp else " ; differs at (weight, wr, kept) = %r" % (bad,)))
    # ... and the candidates are drawn from every row 0..num_rows (only element-wise stages between the range and the filter)
    def whole_rows(d):
        while isinstance(d, tuple) and d and d[0] in ("map", "iterdesc"):
            d = d[1]
        unp = lambda x: x[1] if isinstance(x, tuple) and len(x) == 2 and x[0] == "P" else x
        return isinstance(d, tuple) and d and d[0] == "range" and unp(d[1]) == num(0) and unp(d[2]) == app(SM + "num_rows", var("self.h")) and not d[3]
    for i, up_ in enumerate(sources):
        ck.inst("Q2", "select_rows:candidates-all-rows#%d" % (i + 1), whole_rows(up_), b.span, "the rows offered to the weight filter are 0..num_rows(h): %r" % (up_[:4] if isinstance(up_, tuple) else up_,))
    ck.inst("Q2", "select_rows:both-policies-filter", len(preds) == 2 and nread == 2, b.span,
            "both fill policies filter the candidate rows by weight (%d filter predicates read)" % len(preds))
    cm = by_name(calls, "choose_multiple")
    srs = by_name(calls, "sort_by_random_sel")
    ok = len(cm) == 1 and cm[0]["vals"][1:] == [var("self.rng"), var("self.wc")] and len(srs) == 1 and srs[0]["vals"][1] == var("self.wc") and srs[0]["vals"][3] == var("self.rng")
    # Random policy: Err(NoAvailRows) exactly when fewer than wc rows could be chosen (early return or final if/else alike)
    # Uniform policy: candidates are ordered by their current weight *only*, so that equal-weight rows are tied and the tie is broken by
    # the construction's rng inside sort_by_random_sel (a comparator that also orders by row index leaves nothing to choose)
    cmp_ok, whyc = False, "sort_by_random_sel call not found"
    if len(srs) == 1:
        cmpv = srs[0]["vals"][2]
        try:
            from ..idioms import as_closure
            cv_ = Tracer(F, "NONE", inline=lambda p_: F.private_helper(p_, MN)).apply(as_closure(F, t2, vkey(cmpv) if isinstance(cmpv, tuple) and len(cmpv) > 1 and isinstance(cmpv[1], dict) else cmpv),
                                                                                 [("tuple", [var("r1"), var("w1")]), ("tuple", [var("r2"), var("w2")])])
            cmp_ok = cv_ == app("std::cmp::Ord::cmp", var("w1"), var("w2"))
            whyc = "comparator((r1, w1), (r2, w2)) = %r ; required w1.cmp(w2) (weights only)" % (cv_,)
        except Unsupported as ex:
            whyc = "comparator unreadable: %s" % ex
    ck.inst("Q2", "select_rows:uniform-orders-by-weight-only", cmp_ok, srs[0]["sp"] if srs else b.span, whyc)
    # evaluated for every (number of rows chosen, wc): the Random policy fails exactly when fewer than wc rows could be chosen
    short = True
    try:
        rdr = StepReading(t2, ret2, what="select_rows (Random)", ignore=lambda it: it["kind"] in ("call", "<assign>", "<try>"))
        for L_, W_ in product(range(4), range(4)):
            out_ = rdr.run(Grid({"self.wc": W_, "self.fill_policy": "Random", "self.wr": 3},
                                {"len": lambda *a_, L_=L_: L_, "choose_multiple": lambda *a_: "SEL", "num_rows": lambda *a_: 5, "row_weight": lambda *a_: 0}))
            failed = out_.exit == ("Err", "NoAvailRows")
            okv = isinstance(out_.exit, tuple) and out_.exit[0] == "Ok"
            if failed != (L_ < W_) or not (failed or okv):
                short = False
    except (NotEvaluable, AnalysisError, TypeError):
        short = False
    okor = bool(by_name(calls, "ok_or")) or "NoAvailRows" in repr(ret)
    ck.inst("Q2", "select_rows:exactly-wc", ok and short and okor, b.span,
            "Random: choose_multiple(rng, wc) and Err(NoAvailRows) when fewer than wc were available; Uniform: sort_by_random_sel(wc, .., rng) or NoAvailRows")
    b, t, ret, calls = trace(F, MN + "try_insert_column", ["self"], expand_helpers="steps")
    ROWS = ("elems", "ROWS")
    pts = []
    for cc, mg, sel, girth in product((0, 2), ("None", ("Some", 4), ("Some", 6)), (("Ok", "ROWS"), ("Err", "NoAvailRows")), ("None", ("Some", 3))):
        pts.append(({"self.current_col": cc, "self.min_girth": mg, "$sel": sel, "$girth": girth},
                    {"select_rows": lambda *a, sel=sel: sel, "girth_at_node_with_max": lambda *a, girth=girth: girth,
                     "into_iter": lambda x: ("elems", x), "iter": lambda x: ("elems", x)}))

    def tic_spec(v):
        cc, mg, sel, girth = v["self.current_col"], v["self.min_girth"], v["$sel"], v["$girth"]
        cs = [("select_rows", "<self>")]
        if sel[0] == "Err":
            return sel, {}, cs
        cs.append(("insert_col", H, cc, ROWS))
        if mg != "None":
            cs.append(("girth_at_node_with_max", H, ("Col", cc), mg[1] - 1))
            if girth != "None":
                return ("Err", "GirthTooSmall"), {}, cs + [("clear_col", H, cc)]
        return ("Ok", ()), {}, cs
    compare(ck, "Q2", "try_insert_column", StepReading(t, ret, what="try_insert_column"), pts, tic_spec, b.span,
            "rows = select_rows()? are inserted into column current_col; with min_girth = Some(g), a cycle of length <= g-1 through that column "
            "(girth_at_node_with_max(Col(current_col), g-1) is Some) clears the column again and gives Err(GirthTooSmall); otherwise Ok")
    b, t, ret, calls = trace(F, MN + "backtrack", ["self"], expand_helpers="steps")
    pts = [({"self.backtrack_trials": T, "self.current_col": C, "self.backtrack_cols": B}, {}) for T, C, B in product(range(3), range(4), range(4))]

    def backtrack_spec(v):
        T, C, B = v["self.backtrack_trials"], v["self.current_col"], v["self.backtrack_cols"]
        if T == 0:
            return ("Err", "NoMoreBacktrack"), {"self.backtrack_trials": T, "self.current_col": C}, []
        a = C - min(C, B)
        return ("Ok", ()), {"self.backtrack_trials": T - 1, "self.current_col": a}, [("clear_col", H, c) for c in range(a, C)]
    compare(ck, "Q2", "backtrack", StepReading(t, ret, what="backtrack"), pts, backtrack_spec, b.span,
            "no trials left: Err(NoMoreBacktrack) and nothing changes; otherwise trials - 1, exactly the columns a..current_col cleared (in any order) and "
            "current_col = a, with a = current_col - min(current_col, backtrack_cols)", unordered=True)
    b, t, ret, calls = trace(F, MN + "retry_girth", ["self"], expand_helpers="steps")

    def retry_spec(v):
        G = v["self.girth_trials"]
        return (("Err", "NoMoreTrials"), {"self.girth_trials": G}, []) if G == 0 else (("Ok", ()), {"self.girth_trials": G - 1}, [])
    compare(ck, "Q2", "retry_girth", StepReading(t, ret, what="retry_girth"), [({"self.girth_trials": G}, {}) for G in range(4)], retry_spec, b.span,
            "girth trials decrease by one per retry and Err(NoMoreTrials) at zero")
    b, t, ret, calls = trace(F, MN + "run", ["self"], expand_helpers="steps")
    # the loop: its condition and one iteration read as a transformer; after the loop the function returns Ok(h)
    wl = [it for e in list(t.events) + [type("S", (), {"loops": s_["loops"]})() for s_ in t.sites] for it in e.loops[:1] if it and it[0] == "while"]
    conds = {repr(l[1]) for l in wl}
    okc = len(conds) == 1
    if okc:
        c = wl[0][1]
        for cc, n in product(range(4), range(1, 4)):
            g = Grid(dict({"self.current_col": cc}, **{"self.current_col@loop%d" % l_[2]: cc for l_ in wl if len(l_) == 3}), {"num_cols": lambda *a, n=n: n})
            try:
                okc = okc and bool(g.value(c)) == (cc < n)
            except Exception:
                okc = False
    ck.inst("Q2", "run-loop:condition", okc and ret == ("ctor", "Ok", [var("self.h")]), b.span,
            "the construction continues exactly while current_col < num_cols and then returns Ok(h) (%d loop conditions read)" % len(conds))
    pts = []
    E = lambda x: ("Err", x)
    for cc, tic, bt, rg in product((0, 1), (("Ok", ()), E("NoAvailRows"), E("GirthTooSmall"), E("NoMoreTrials")), (("Ok", ()), E("NoMoreBacktrack")), (("Ok", ()), E("NoMoreTrials"))):
        pts.append(({"self.current_col": cc, "$tic": tic, "$bt": bt, "$rg": rg},
                    {"num_cols": lambda *a: 2, "try_insert_column": lambda *a, tic=tic: tic, "backtrack": lambda *a, bt=bt: bt, "retry_girth": lambda *a, rg=rg: rg}))

    def iter_spec(v):
        cc, tic, bt, rg = v["self.current_col"], v["$tic"], v["$bt"], v["$rg"]
        cs = [("try_insert_column", "<self>")]
        if tic[0] == "Ok":
            return None, {"self.current_col": cc + 1}, cs
        if tic[1] == "NoAvailRows":
            return (None if bt[0] == "Ok" else bt), {"self.current_col": cc}, cs + [("backtrack", "<self>")]
        if tic[1] == "GirthTooSmall":
            return (None if rg[0] == "Ok" else rg), {"self.current_col": cc}, cs + [("retry_girth", "<self>")]
        return tic, {"self.current_col": cc}, cs
    rd = StepReading(t, None, strip_loop=lambda l: l[0] == "while", what="run (one iteration)", pure=("num_cols",))
    ok_out = not [it for it in rd.outside if it["kind"] in ("call", "<assign>")]
    compare(ck, "Q2", "run-loop", rd, pts, iter_spec, b.span,
            "one iteration: try_insert_column once; Ok => current_col + 1; NoAvailRows => backtrack()?; GirthTooSmall => retry_girth()?; "
            "any other error is returned; nothing else changes the state")
    ck.inst("Q2", "run-loop:nothing-outside", ok_out, b.span, "no store or call of run() happens outside its loop")
    nb = F.body(MN + "new")
    tn = Tracer(F, "NONE")
    env = {}
    for p, nm in zip(nb.params, ("conf", "seed")):
        tn.bind(p, var(nm), env)
    nv = tn.eval(nb.value, env)
    ok = isinstance(nv, tuple) and nv[0] == "struct" and all(nv[2].get(f) == var("conf." + f) for f in ("wr", "wc", "backtrack_cols", "backtrack_trials", "min_girth", "girth_trials", "fill_policy")) \
        and nv[2].get("h") == app(SM + "new", var("conf.nrows"), var("conf.ncols")) and nv[2].get("current_col") == num(0) and "seed_from_u64(seed)" in repr(nv[2].get("rng"))
    ck.inst("Q2", "state-from-config", ok, nb.span, "the working state copies every configuration field, starts from new(nrows, ncols), column 0 and the seeded RNG")

    # ---- Q3 ---------------------------------------------------------------------------------------
    sb = F.body("mackay_neal::Config::search")
    cl = [c for c in walk(sb.value) if c.get("k") == "closure"]
    ts = Tracer(F, "NONE")
    env = {}
    for p, nm in zip(sb.params, ("self", "start_seed", "max_tries")):
        ts.bind(p, var(nm), env)
    v = ts.eval(sb.value, env)
    ok = False
    why = "search is not range.into_par_iter().filter_map(..).find_any(..)"
    a = single_atom(v) if isinstance(v, Poly) else None
    if a and atom_fn(a).endswith("find_any") and cl:
        d = a[2]
        want_src = ("elems", ("P", app("rayon::iter::IntoParallelIterator::into_par_iter",
                                        ("struct", "Range", {"start": var("start_seed"), "end": var("start_seed") + var("max_tries")}))))
        rng_ok = isinstance(d, tuple) and d[0] == "iterdesc" and d[1][0] == "filter_map" and d[1][1] == want_src
        r = ts.apply(("closure", cl[0], dict(env)), [var("s")])
        ra = single_atom(r) if isinstance(r, Poly) else None
        pair_ok = False
        OKRUN = app("std::result::Result::<T, E>::ok", app("mackay_neal::Config::run", var("self"), var("s")))
        if isinstance(r, tuple) and len(r) == 3 and r[0] == "opt":
            # Some((s, x)) exactly when run(s) is Ok(x)
            pair_ok = r[1] == OKRUN and r[2] == ("tuple", [var("s"), app("payload0", OKRUN)])
        elif ra and atom_fn(ra) == "std::option::Option::<T>::map":
            okv = atom_args(ra)[0]
            pair_ok = okv == app("std::result::Result::<T, E>::ok", app("mackay_neal::Config::run", var("self"), var("s")))
            inner = [c for c in walk(cl[0]["body"]) if c.get("k") == "closure"]
            if inner:
                env2 = dict(env)
                ts.bind(cl[0]["params"][0], var("s"), env2)
                pv = ts.apply(("closure", inner[0], env2), [var("x")])
                pair_ok = pair_ok and pv == ("tuple", [var("s"), var("x")])
            else:
                pair_ok = False
        nested = [c for c in walk(cl[0]["body"]) if c.get("k") == "closure"]
        last = [c for c in cl if c is not cl[0] and not any(c is n for n in nested)]
        always = bool(last) and ts.apply(("closure", last[-1], dict(env)), [var("_y")]) == ("bool", True)
        ok = rng_ok and pair_ok and always
        why = "search = (start..start+max_tries).into_par_iter().filter_map(|s| run(s).ok().map(|x| (s, x))).find_any(|_| true) [range %s, pair (s, run(s)) %s, accept-any %s]" % (rng_ok, pair_ok, always)
    ck.inst("Q3", "search-coupling", ok, sb.span, why)
    for ent, ctor in (("mackay_neal::Config::run", MN), ("peg::Config::run", "peg::Peg::")):
        eb = F.body(ent)
        te = Tracer(F, "NONE")
        env = {}
        for p, nm in zip(eb.params, ("self", "seed")):
            te.bind(p, var(nm), env)
        v = te.eval(eb.value, env)
        ck.inst("Q3", "run-uses-seed:" + ent.split("::")[0], v == app(ctor + "run", app(ctor + "new", var("self"), var("seed"))), eb.span, "Config::run(seed) = %r" % (v,))

    # ---- Q4 ---------------------------------------------------------------------------------------
    b, t, ret, calls = trace(F, "peg::Peg::insert_edge", ["self", "col"], expand_helpers="steps")
    bf = by_name(calls, "bfs")
    ins = by_name(calls, "insert")
    srm = by_name(calls, "sort_by_random_min")
    rw = by_name(calls, "row_weight")

    def selection_source(v):
        """strip tuple projection / ? / ok_or / Some-payload from the inserted row -> (the value it comes from, saw an ok_or(NoAvailRows))"""
        okor_ = False
        for _ in range(6):
            a_ = single_atom(v) if isinstance(v, Poly) else None
            if a_ is None:
                break
            fn_ = atom_fn(a_)
            if fn_ in (".0", "proj0", "try", "payload0", "either_payload"):
                v = atom_args(a_)[0]
            elif fn_ == "std::option::Option::<T>::ok_or":
                okor_ = "NoAvailRows" in repr(atom_args(a_)[1])
                v = atom_args(a_)[0]
            else:
                break
        return v, okor_
    from ..transformer import ANY
    pts = []
    for col_, sel in product((0, 3), ("None", ("Some", (5, "D", "W")))):
        pts.append(({"col": col_, "$sel": sel}, {"bfs": lambda *a_: "BFS", "sort_by_random_min": lambda *a_, sel=sel: sel, "insert": lambda *a_: ()}))

    def edge_spec(v):
        cs = [("bfs", "<self.h>", ("Col", v["col"])), ("sort_by_random_min", ANY, ANY, "<self.rng>")]
        if v["$sel"] == "None":
            return ("Err", "NoAvailRows"), {}, cs
        return ("Ok", ()), {}, cs + [("insert", "<self.h>", v["$sel"][1][0], v["col"])]
    compare(ck, "Q4", "peg:insert_edge-wiring", StepReading(t, ret, what="insert_edge", pure=("row_weight", "compare_some")), pts, edge_spec, b.span,
            "one bfs from Col(col), one selection with the construction's rng; no candidate: Err(NoAvailRows) and no insertion; otherwise "
            "insert(row of the selected candidate, col) and Ok")
    # the candidates handed to the selection come from that bfs' row distances
    ok = len(srm) == 1 and len(bf) == 1 and "row_nodes_distance" in repr(srm[0]["vals"][0])[:2000] and "SparseMatrix::bfs(self.h" in repr(srm[0]["vals"][0])[:2000]
    ck.inst("Q4", "peg:insert_edge-candidates-from-bfs", ok, b.span, "the candidate list is built from bfs(Col(col)).row_nodes_distance")
    # candidate list: one (j, distance_j, row_weight(j)) per entry of the distance vector, in order (map+collect or push loop)
    cand_ok = False
    if len(srm) == 1 and len(rw) == 1:
        cv = srm[0]["vals"][0]
        RW_ = app(SM + "row_weight", var("self.h"), var("j"))
        ca = single_atom(cv) if isinstance(cv, Poly) else None
        if ca and atom_fn(ca) == "std::iter::Iterator::collect" and isinstance(ca[2], tuple) and ca[2][0] == "iterdesc" and ca[2][1][0] == "map" \
                and ca[2][1][1][0] == "enumerate" and "row_nodes_distance" in repr(ca[2][1][1][1]) and ca[2][1][1][1][0] == "elems":
            clo = ca[2][1][2]
            from ..idioms import as_closure
            try:
                clv = as_closure(F, t, clo)
            except Unsupported:
                clv = None
            if clv is not None and isinstance(clv, tuple) and clv[0] == "closure":
                envc = dict(clv[2])
                envc.setdefault("self#", var("self"))
                fv = Tracer(F, "NONE").apply(("closure", clv[1], envc), [("tuple", [var("j"), var("d")])])
                cand_ok = fv == ("tuple", [var("j"), var("d"), RW_]) or (isinstance(fv, tuple) and fv[0] == "tuple" and fv[1][:2] == [var("j"), var("d")] and "row_weight" in repr(fv[1][2]))
        else:
            pushes = [x for x in t.sites if x["kind"] == "call" and x["detail"].endswith("::push")] or [e for e in t.events if e.callee.endswith("::push")]
            lp0 = rw[0]["loops"]
            cand_ok = len(lp0) == 1 and lp0[0][0] == "enumerate" and lp0[0][2][0] == "elems" and "row_nodes_distance" in repr(lp0[0][2]) and not rw[0]["guards"] \
                and rw[0]["vals"][1] == var(lp0[0][1]) and "with_capacity" in repr(cv) or ("Vec::<T>::new" in repr(cv) and len(lp0) == 1 and lp0[0][0] == "enumerate")
    ck.inst("Q4", "peg:candidates-all-rows", bool(cand_ok), b.span, "every row j is a candidate with (j, distance, row_weight(j)) (one per entry of the whole distance vector, in order)")
    ok = False
    why = "comparator not found"
    if len(srm) == 1:
        cmpv = srm[0]["vals"][1]
        if isinstance(cmpv, tuple) and cmpv and cmpv[0] == "closure" and isinstance(cmpv[1], str):
            cmpv = ("closure", F.closures.get(cmpv[1]), {})
        tc = Tracer(F, "NONE", inline=lambda p: F.private_helper(p, "peg::"))
        try:
            v = tc.apply(cmpv, [("tuple", [var("j1"), var("x"), var("w")]), ("tuple", [var("j2"), var("y"), var("v")])])
        except (Unsupported, TypeError, KeyError):
            v = None
        want = app("ordering_then", app("std::cmp::Ordering::reverse", app("util::compare_some", var("x"), var("y"))), app("std::cmp::Ord::cmp", var("w"), var("v")))
        ok = v == want
        why = "cmp((_,x,w),(_,y,v)) = compare_some(x,y).reverse() then, on Equal, w.cmp(v) (reversed distance order, ties by ascending weight): %r" % (v,)
    ck.inst("Q4", "peg:selection-order", ok, b.span, why)
    # compare_some by cases on the shape of its two optional arguments
    cb = F.body("util::compare_some")
    got = {}
    for xn, xv in (("None", ("variant", "None")), ("Some", ("ctor", "Some", [var("a")]))):
        for yn, yv in (("None", ("variant", "None")), ("Some", ("ctor", "Some", [var("b")]))):
            tcs = Tracer(F, "NONE")
            env = {}
            tcs.bind(cb.params[0], xv, env)
            tcs.bind(cb.params[1], yv, env)
            try:
                got[(xn, yn)] = tcs.eval(cb.value, env)
            except Unsupported as e:
                got[(xn, yn)] = "unreadable: %s" % e
    want = {("None", "None"): ("variant", "Equal"), ("None", "Some"): ("variant", "Greater"), ("Some", "None"): ("variant", "Less"),
            ("Some", "Some"): app("std::cmp::Ord::cmp", var("a"), var("b"))}
    ck.inst("Q4", "compare_some", got == want, cb.span, "compare_some: None == None, None greater than Some, Some less than None, otherwise a.cmp(b): %s" % (
        got == want or {k: repr(v)[:60] for k, v in got.items() if want[k] != v}))
    b, t, ret, calls = trace(F, "<std::vec::Vec<T> as util::SortedRandomSel>::sort_by_random_min", ["self", "compare", "rng"])
    ch = by_name(calls, "choose")
    tr_ = by_name(calls, "truncate")
    pp = by_name(calls, "pop")
    UNWRAP = "std::option::Option::<T>::unwrap"
    IDX = app(UNWRAP, app(ch[0]["detail"], *ch[0]["vals"])) if len(ch) == 1 else None
    # the element handed back is the one at the chosen index: truncate(idx + 1) then pop, or into_iter().nth(idx), or (swap_)remove(idx)
    at_idx = False
    if IDX is not None:
        ra = single_atom(ret) if isinstance(ret, Poly) else None
        if isinstance(ret, tuple) and len(ret) == 3 and ret[:2] == ("ctor", "Some") and len(ret[2]) == 1:
            pa = single_atom(ret[2][0]) if isinstance(ret[2][0], Poly) else None
            if pa is not None and atom_fn(pa) == UNWRAP and len(tr_) == 1 and len(pp) == 1 and tr_[0]["vals"] == [var("self"), IDX + num(1)] \
                    and pp[0]["vals"] == [var("self")] and atom_args(pa)[0] == app(pp[0]["detail"], var("self")) and pp[0]["seq"] > tr_[0]["seq"] \
                    and not tr_[0]["guards"] and not pp[0]["guards"] and not tr_[0]["loops"] and not pp[0]["loops"]:
                at_idx = True
            if pa is not None and atom_fn(pa).startswith("std::vec::Vec::<T, A>::") and atom_fn(pa).rsplit("::", 1)[-1] in ("remove", "swap_remove") \
                    and list(atom_args(pa)) == [var("self"), IDX] and not tr_:
                at_idx = True
        elif ra is not None and atom_fn(ra) == "std::iter::Iterator::nth" and unkey(ra[2]) in (("iterdesc", ("elems", var("self"))), ("iterdesc", ("elems", ("P", var("self"))))) \
                and atom_args(ra)[1] == IDX and not tr_ and not pp:
            at_idx = True
    ok = len(ch) == 1 and ch[0]["vals"][1] == var("rng") and at_idx
    # the population handed to choose(): the indices j with compare(x_j, min) == Equal, read by evaluating the selection stage for the
    # three possible comparison results
    eqsel = False
    if len(ch) == 1 and isinstance(ch[0]["vals"][0], tuple) and ch[0]["vals"][0][0] == "iterdesc":
        d = ch[0]["vals"][0][1]
        tq = Tracer(F, "NONE")
        J, X = var("j"), var("x")
        from ..symx import NotEvaluable

        def sel_at(v, outcome, seen):
            return Grid({"j": 7}, {"apply": lambda f_, a_, b_, outcome=outcome: (seen.append((f_, a_, b_)), outcome)[1]}).value(v)
        try:
            stage = None
            if d[0] == "filter_map" and d[1][0] == "enumerate" and d[1][1] == ("elems", var("self")):
                stage = ("filter_map", tq.apply(d[2], [("tuple", [J, X])]), None)
            elif d[0] == "map" and d[1][0] == "filter" and d[1][1][0] == "enumerate" and d[1][1][1] == ("elems", var("self")):
                stage = ("filter", tq.apply(d[1][2], [("tuple", [J, X])]), tq.apply(d[2], [("tuple", [J, X])]))
            # the minimum the elements are compared with: min_by over the whole list with the caller's comparator
            mins = [e.args[0] for e in t.events if e.callee == "<try>" and "min_by" in repr(e.args[0])[:200]]
            MINV = mins[0] if len(mins) == 1 else None
            min_ok = False
            if MINV is not None:
                ma = single_atom(atom_args(single_atom(MINV))[0]) if single_atom(MINV) is not None and atom_fn(single_atom(MINV)) == "try" else None
                if ma is not None and atom_fn(ma) == "std::iter::Iterator::min_by" and unkey(ma[2]) in (("iterdesc", ("elems", var("self"))), ("iterdesc", ("elems", ("P", var("self"))))):
                    from ..idioms import as_closure
                    cv = tq.apply(as_closure(F, t, ma[3]), [var("a"), var("b")])
                    min_ok = cv == app("apply", var("compare"), var("a"), var("b"))
            if stage is not None and min_ok:
                want_cmp = single_atom(app("apply", var("compare"), X, MINV))
                cmp_with_min = contains_atom(vkey(stage[1]) if not isinstance(stage[1], Poly) else stage[1], lambda a_: a_ == want_cmp)
                eqsel = cmp_with_min
                for outcome in ("Less", "Equal", "Greater"):
                    seen = []
                    r = sel_at(stage[1], outcome, seen)
                    kept = (r == ("Some", 7)) if stage[0] == "filter_map" else bool(r)
                    none = (r == "None") if stage[0] == "filter_map" else not bool(r)
                    # compared: the element against the minimum found before (min_by over the same list with the same comparator)
                    cmp_ok = len(seen) == 1 and seen[0][0] == "<compare>" and seen[0][1] == "<x>"
                    eqsel = eqsel and cmp_ok and (kept if outcome == "Equal" else none)
                if stage[0] == "filter":
                    eqsel = eqsel and stage[2] == J
        except (Unsupported, NotEvaluable, TypeError):
            eqsel = False
    ck.inst("Q4", "sort_by_random_min", ok and eqsel, b.span,
            "returns an element comparing Equal to the minimum: index chosen with the caller's rng among {j : compare(x_j, min) == Equal}; the element at that index is returned [%s %s]" % (ok, eqsel))
    # sort_by_random_sel, degenerate requests: more items than there are -> None; zero items -> an empty selection
    bs_, ts_, rets_, callss_ = trace(F, "<std::vec::Vec<T> as util::SortedRandomSel>::sort_by_random_sel", ["self", "nitems", "compare", "rng"])
    deg_ok = True
    whyd = ""
    try:
        rds = StepReading(ts_, rets_, what="sort_by_random_sel", ignore=lambda it: it["kind"] in ("<assign>",) or bool(it["loops"]))
        for L_, N_ in product(range(3), range(4)):
            if not (L_ < N_ or N_ == 0):
                continue
            out_ = rds.run(Grid({"nitems": N_, "self": "SELF"}, {"len": lambda *a_, L_=L_: L_, "mutated": lambda x_: x_}))
            if L_ < N_:
                good = out_.exit == "None"
            else:
                emptied = any(c_[0] in ("clear",) or (c_[0] in ("truncate",) and c_[-1] == 0) for c_ in out_.calls)
                good = isinstance(out_.exit, tuple) and out_.exit[0] == "Some" and (emptied or "Vec::<T>::new" in str(out_.exit[1]))
            if not good:
                deg_ok, whyd = False, " ; with %d elements and nitems = %d the function gives %r after %r" % (L_, N_, out_.exit, out_.calls)
                break
    except (NotEvaluable, AnalysisError, TypeError) as ex:
        deg_ok, whyd = False, " ; not evaluable: %s" % ex
    ck.inst("Q4", "sort_by_random_sel:degenerate-requests", deg_ok, bs_.span,
            "fewer elements than requested: None; nitems = 0: Some(empty) (the list is cleared before it is returned)" + whyd[:300])
    b, t, ret, calls = trace(F, "peg::Peg::run", ["self"])
    ie = by_name(calls, "insert_edge")
    ok = len(ie) == 1 and len(ie[0]["loops"]) == 2 and ie[0]["loops"][0][0] == "range" and ie[0]["loops"][0][2] == num(0) and ie[0]["loops"][0][3] == app(SM + "num_cols", var("self.h")) \
        and ie[0]["loops"][1][0] == "range" and ie[0]["loops"][1][2] == num(0) and ie[0]["loops"][1][3] == var("self.wc") and ie[0]["vals"][1] == var(ie[0]["loops"][0][1]) \
        and ret == ("ctor", "Ok", [var("self.h")])
    ck.inst("Q4", "peg:run", ok, b.span, "for col in 0..num_cols: for _ in 0..wc: insert_edge(col)?; Ok(h)")

    # ---- Q5 ---------------------------------------------------------------------------------------
    for fn in ("bfs", "local_girth"):
        bb = F.body("sparse::bfs::BFSContext::<'_>::" + fn)
        pops = calls_to(bb.value, r"std::collections::VecDeque::<T, A>::pop_front")
        pushes = calls_to(bb.value, r"std::collections::VecDeque::<T, A>::push_back")
        lifo = calls_to(bb.value, r"std::collections::VecDeque::<T, A>::(pop_back|push_front)")
        ck.inst("Q5", "bfs-fifo:" + fn, len(pops) == 1 and len(pushes) == 1 and not lifo, bb.span, "%s: queue discipline pop_front/push_back (%d/%d), no LIFO use" % (fn, len(pops), len(pushes)))
    # local_girth (the bounded cycle search the girth constraint relies on), read at the revisit / first-visit decision and evaluated
    # for distances d (already recorded for the reached node), path lengths pl (of the path arriving there) and bounds max in 0..4
    from ..symx import NotEvaluable
    lb = F.body("sparse::bfs::BFSContext::<'_>::local_girth")
    # private helpers of the module (the neighbour iterator that builds the next path heads) are expanded, so that the length of the
    # arriving path is read as (length of the popped head) + 1 whichever function computes it
    tl = Tracer(F, r"std::collections::VecDeque::<T, A>::(pop_front|push_back)", mode="int", inline=lambda p_: F.private_helper(p_, "sparse::bfs::"))
    envl = {}
    for p_, nm_ in zip(lb.params, ("self", "max")):
        tl.bind(p_, var(nm_), envl)
    retl = tl.eval(lb.value, envl)
    rets_l = [e for e in tl.events if e.callee == "<return>"]
    pushes_l = [e for e in tl.events if e.callee.endswith("push_back")]
    stores_l = [e for e in tl.events if e.callee == "<assign>"]

    def lg_grid(d, L, mx):
        dist = ("Some", d) if d is not None else "None"
        # the reached node is Row(0); its recorded distance is `dist` whether read through get_node_mut or from the distance vectors
        return Grid({"max": mx}, {".path_length": lambda *a_: L, "get_node_mut": lambda *a_: dist, "index": lambda *a_: dist,
                                  "pop_front": lambda *a_: ("Some", "HEAD"), "pop_back": lambda *a_: ("Some", "HEAD"), ".node": lambda *a_: ("Row", 0), ".parent": lambda *a_: "None",
                                  "iter": lambda *a_: "NEXT", "elem": lambda *a_: ("Row", 0), "elem_filter": lambda *a_: ("Row", 0),
                                  "elem_map": lambda *a_: ("Row", 0)})
    okb = okp = oks = len(rets_l) == 1 and len(pushes_l) == 1 and len(stores_l) == 1 and retl == ("variant", "None")
    whyb = ""
    try:
        if okb:
            for d, L, mx in product(range(4), range(0, 4), range(6)):
                pl = L + 1          # the path that arrives at the neighbour is one edge longer than the popped head's
                g = lg_grid(d, L, mx)
                fired = g.holds(rets_l[0].guards)
                val = g.value(rets_l[0].args[0]) if fired else None
                want = ("Some", d + pl) if d + pl <= mx else "None"
                if not fired or val != want or g.holds(pushes_l[0].guards) or g.holds(stores_l[0].guards):
                    okb, whyb = False, " ; at (recorded distance, path length, max) = %r the search returns %r, required %r" % ((d, pl, mx), val, want)
                    break
            for L, mx in product(range(0, 4), range(6)):
                pl = L + 1
                g = lg_grid(None, L, mx)
                if g.holds(rets_l[0].guards):
                    okb, whyb = False, " ; the search returns at a node that had no recorded distance"
                stored = g.holds(stores_l[0].guards) and g.value(stores_l[0].args[1]) == ("Some", pl)
                oks = oks and stored
                if pl < mx and not g.holds(pushes_l[0].guards):
                    okp = False
    except (NotEvaluable, TypeError) as ex:
        raise AnalysisError("local_girth: the effect list cannot be evaluated (%s)" % ex)
    ck.inst("Q5", "local_girth:bounded-report", okb, rets_l[0].site if rets_l else lb.span,
            "reaching a node that already has a distance d by a path of length pl ends the search with Some(d + pl) exactly when d + pl <= max, else None" + whyb)
    ck.inst("Q5", "local_girth:record-distance", oks, stores_l[0].site if stores_l else lb.span, "a node reached for the first time gets the length of the path that reached it")
    ck.inst("Q5", "local_girth:expand-below-bound", okp, pushes_l[0].site if pushes_l else lb.span, "every newly reached node whose path is shorter than max is queued for expansion")
