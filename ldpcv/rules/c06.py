"""C06 - DVB-S2 parity-check matrices conform to ETSI EN 302 307-1 (table- and shape-level).

Decided: per-code scalars n,m,k,q by constant propagation over the `const fn`s vs the standard's
tables; address tables (row count, range, distinctness, degree profile, pinned values); the
shape of the expansion in `Code::h` as a symbolic normal form; staircase reader/writer agreement.
"""
import json
import os
import re

from ..extract import AnalysisError, VERIF
from ..facts import walk, strip, callee
from ..symx import SymEval, Poly, Unsupported, app, var, num, subst, single_atom, atom_fn, atom_args
from ..trace import Tracer
from .. import staircase

LEVEL = "other"
ENUM = "codes::dvbs2::Code"

# ETSI EN 302 307-1 V1.4.1: n_ldpc, k_ldpc (Tables 5a, 5b) and q (Tables 7a, 7b)
STD = {
    "R1_4": (64800, 16200, 135), "R1_3": (64800, 21600, 120), "R2_5": (64800, 25920, 108),
    "R1_2": (64800, 32400, 90), "R3_5": (64800, 38880, 72), "R2_3": (64800, 43200, 60),
    "R3_4": (64800, 48600, 45), "R4_5": (64800, 51840, 36), "R5_6": (64800, 54000, 30),
    "R8_9": (64800, 57600, 20), "R9_10": (64800, 58320, 18),
    "R1_4short": (16200, 3240, 36), "R1_3short": (16200, 5400, 30), "R2_5short": (16200, 6480, 27),
    "R1_2short": (16200, 7200, 25), "R3_5short": (16200, 9720, 18), "R2_3short": (16200, 10800, 15),
    "R3_4short": (16200, 11880, 12), "R4_5short": (16200, 12600, 10), "R5_6short": (16200, 13320, 8),
    "R8_9short": (16200, 14400, 5),
}
# column-degree profile of the information part, as {degree: number of 360-column groups}
# (normal frames: as tabulated in the DVB-S2 literature; short frames: confirmed against the tree)
PROFILE = {
    "R1_4": {12: 15, 3: 30}, "R1_3": {12: 20, 3: 40}, "R2_5": {12: 24, 3: 48}, "R1_2": {8: 36, 3: 54},
    "R3_5": {12: 36, 3: 72}, "R2_3": {13: 12, 3: 108}, "R3_4": {12: 15, 3: 120}, "R4_5": {11: 18, 3: 126},
    "R5_6": {13: 15, 3: 135}, "R8_9": {4: 20, 3: 140}, "R9_10": {4: 18, 3: 144},
}
REF = os.path.join(VERIF, "reference", "dvbs2_tables.json")


def const_eval(F, fn, variant):
    # every function of the codes::dvbs2 module may take part in the constant computation (helper const fns on Code or on FrameLen ..)
    ev = SymEval(F, mode="int", inline=lambda p: F.bodies.get(p) if p and p.startswith("codes::dvbs2::") else None, max_depth=8)
    body = F.body("%s::%s" % (ENUM, fn))
    env = {}
    ev.bind(body.params[0], ("variant", variant), env)
    return ev.eval_fn(body, env)


def to_int(v):
    if isinstance(v, Poly) and v.const_value() is not None and v.const_value().denominator == 1:
        return int(v.const_value())
    return None


def table_of(v):
    """('array', [('array', [Poly...])...]) -> list of lists of ints"""
    if not (isinstance(v, tuple) and v and v[0] == "array"):
        return None
    rows = []
    for r in v[1]:
        if not (isinstance(r, tuple) and r and r[0] == "array"):
            return None
        row = [to_int(x) for x in r[1]]
        if any(x is None for x in row):
            return None
        rows.append(row)
    return rows


def canon_loops(ev):
    """rename loop variables to L0, L1.. and return (loops, args) with substituted atoms."""
    names = {}
    loops = []
    for i, l in enumerate(ev.loops):
        if l[0] == "range":
            names[l[1]] = "L%d" % i
    f = lambda nm: var(names[nm]) if nm in names else None
    for i, l in enumerate(ev.loops):
        if l[0] == "range":
            loops.append(("range", subst(l[2], f), subst(l[3], f), l[4]))
        else:
            loops.append(("other", repr(l)))
    return loops, f


def run(ck, F, tier):
    ck.explanation = (
        "Decided (S): T1 n/m/k/q of each of the 21 codes by constant propagation over the const fns, compared with "
        "ETSI Tables 5a/5b/7a/7b embedded in the rule and with the internal relations 360*q == m == n-k, 360 | k; "
        "T2 address tables: rows == k/360, every address < m, no duplicate in a row, column-degree profile; T3 table "
        "values equal the pinned reference (per-row sorted sets; reference/dvbs2_tables.json, 'tree' reference); T4 the "
        "expansion in Code::h is the quasi-cyclic law column j <- (x + (j mod 360)*q) mod m for x in addresses[j div 360], "
        "j in 0..k, plus the dual-diagonal parity part (0,k), (j,j+k), (j,j+k-1) for j in 1..m, on a matrix new(m,n); "
        "T5 the parity positions written are exactly those encoder::staircase::is_staircase accepts, so Encoder::from_h "
        "takes the linear-time arm. Thorough tier adds T6, a table-level 4-cycle test under the law verified by T4. "
        "NOT decided: girth exactly 6 for normal 1/2 and equality of the expanded matrix with a reference beyond "
        "T3+T4 (value computations on a 32400x64800 matrix = running the construction).")
    ck.rule("T1", "constant-propagated n(), m(), k(), q() equal the standard's (n_ldpc, n-k_ldpc, k_ldpc, q) and satisfy 360*q == m == n-k, 360 | k")
    ck.rule("T2", "addresses(): rows == k_std/360; every address < 360*q_std; addresses in a row pairwise distinct; degree profile as tabulated")
    ck.rule("T3", "addresses() rows equal the pinned reference as sorted sets")
    ck.rule("T4", "Code::h writes exactly the quasi-cyclic information part and the dual-diagonal parity part (symbolic normal form of every insert)")
    ck.rule("T5", "positions written in the parity part == positions accepted by is_staircase (reader/writer agreement)")
    ck.rule("T7", "the user-facing identifier (rate string, short flag) selects the Code variant of the same name: one row per variant, anything else rejected")
    ck.rule("T6", "(thorough) no two information columns / parity columns share two rows under the law of T4 (no 4-cycle), on the source constants")
    ck.assume("the standard's tables as transcribed in the rule (n, k_ldpc, q for 21 codes; degree profiles of the 11 normal codes)")
    ck.assume("T3 reference is the table content of the pinned commit (tree reference), confirmed only structurally (T2)")

    adt = F.adt(ENUM)
    variants = [v["name"] for v in adt["variants"]]
    ck.floor("T1", "Code variants", len(variants), 21)
    if sorted(variants) != sorted(STD):
        ck.fail("T1", "variant-set", adt["span"], "enum variants %s differ from the 21 DVB-S2 codes" % sorted(set(variants) ^ set(STD)))
    ref = json.load(open(REF)) if os.path.exists(REF) else None
    if ref is None:
        raise AnalysisError("reference/dvbs2_tables.json missing")
    sites = {fn: F.body("%s::%s" % (ENUM, fn)).span for fn in ("n", "m", "k", "q", "addresses", "h")}
    tables = {}
    scal = {}
    for v in variants:
        if v not in STD:
            continue
        n_std, k_std, q_std = STD[v]
        try:
            vals = {fn: to_int(const_eval(F, fn, v)) for fn in ("n", "m", "k", "q")}
        except Unsupported as e:
            raise AnalysisError("cannot constant-propagate %s for %s: %s" % (ENUM, v, e))
        if any(x is None for x in vals.values()):
            raise AnalysisError("n/m/k/q of %s do not fold to constants: %r" % (v, vals))
        scal[v] = vals
        n, m, k, q = vals["n"], vals["m"], vals["k"], vals["q"]
        ck.inst("T1", "n:" + v, n == n_std, sites["n"], "n() = %d, standard n_ldpc = %d" % (n, n_std), {"code": v, "n": n})
        ck.inst("T1", "m:" + v, m == n_std - k_std, sites["m"],
                "m() = %d, standard n-k = %d (k_ldpc = %d)" % (m, n_std - k_std, k_std), {"code": v, "m": m, "k": k})
        ck.inst("T1", "k:" + v, k == k_std, sites["k"], "k() = %d, standard k_ldpc = %d" % (k, k_std), {"code": v, "k": k})
        ck.inst("T1", "q:" + v, q == q_std, sites["q"], "q() = %d, standard q = %d" % (q, q_std), {"code": v, "q": q})
        ck.inst("T1", "rel:" + v, 360 * q == m and m == n - k and k % 360 == 0, sites["m"],
                "360*q = %d, m = %d, n-k = %d, k mod 360 = %d" % (360 * q, m, n - k, k % 360), {"code": v})
        try:
            tab = table_of(const_eval(F, "addresses", v))
        except Unsupported as e:
            raise AnalysisError("cannot read addresses() of %s: %s" % (v, e))
        if tab is None:
            raise AnalysisError("addresses() of %s is not a literal table" % v)
        tables[v] = tab
        ck.inst("T2", "rows:" + v, len(tab) == k_std // 360, sites["addresses"],
                "%d rows, standard k/360 = %d" % (len(tab), k_std // 360), {"code": v, "rows": len(tab)})
        mx = max(max(r) for r in tab)
        bad_range = [(i, x) for i, r in enumerate(tab) for x in r if x >= 360 * q_std]
        ck.inst("T2", "range:" + v, not bad_range, sites["addresses"],
                "max address %d < m_std %d" % (mx, 360 * q_std) if not bad_range else "addresses out of range (row, value): %s" % bad_range[:4])
        dups = [i for i, r in enumerate(tab) if len(set(r)) != len(r)]
        ck.inst("T2", "distinct:" + v, not dups, sites["addresses"], "no duplicate address within a row" if not dups else "duplicates in rows %s" % dups[:5])
        prof = {}
        for r in tab:
            prof[len(r)] = prof.get(len(r), 0) + 1
        exp = PROFILE.get(v) or {int(kk): vv for kk, vv in ref["profiles"].get(v, {}).items()}
        ck.inst("T2", "profile:" + v, prof == exp, sites["addresses"],
                "degree profile (degree: groups) %s, expected %s" % (sorted(prof.items()), sorted(exp.items())), {"code": v, "profile": prof})
        # T3
        rrows = ref["tables"].get(v)
        if rrows is None:
            ck.fail("T3", "pinned:" + v, sites["addresses"], "no reference table for " + v)
        else:
            diff = [i for i in range(max(len(tab), len(rrows)))
                    if i >= len(tab) or i >= len(rrows) or sorted(tab[i]) != rrows[i]]
            ck.inst("T3", "pinned:" + v, not diff, sites["addresses"],
                    "all %d rows equal the pinned reference" % len(tab) if not diff else
                    "rows %s differ from the pinned reference (e.g. row %d: found %s, reference %s)" % (
                        diff[:6], diff[0], sorted(tab[diff[0]]) if diff[0] < len(tab) else None,
                        rrows[diff[0]] if diff[0] < len(rrows) else None),
                    {"code": v, "rows": len(tab)})

    # ---- T4: expansion shape -------------------------------------------------
    hb = F.body(ENUM + "::h")
    # private non-const helpers of Code (e.g. an extracted "write the staircase" method) are expanded; the pub const accessors stay symbolic
    tr = Tracer(F, r"sparse::SparseMatrix::\w+", mode="int", inline=lambda p: F.private_helper(p, "codes::dvbs2::"))
    env = {}
    tr.bind(hb.params[0], var("self"), env)
    try:
        ret = tr.eval(hb.value, env)
    except Unsupported as e:
        raise AnalysisError("Code::h: unreadable shape: %s" % e)
    S = var("self")
    M, N, K, Q = (app("%s::%s" % (ENUM, f), S) for f in "mnkq")
    ADDR = app(ENUM + "::addresses", S)
    L0, X = var("L0"), var("x")
    found = {"new": [], "info": [], "parity": [], "other": []}
    from ..symx import replace_atom, canon_cond
    for ev in tr.events:
        base = ev.callee.rsplit("::", 1)[-1]
        if base == "new":
            found["new"].append((ev, list(ev.args)))
        elif base == "insert_col":
            it = ev.args[2]
            if isinstance(it, tuple) and it and it[0] == "iterdesc":
                try:
                    el = tr.elem_value(it[1], "x")
                except Unsupported as e:
                    raise AnalysisError("Code::h: cannot evaluate the row iterator: %s" % e)
                found["info"].append((ev, el, ev.args[1]))
            else:
                found["other"].append(ev)
        elif base == "insert":
            d = ev.args[2] - K - ev.args[1] if isinstance(ev.args[1], Poly) and isinstance(ev.args[2], Poly) else None
            if d is not None and d.const_value() is not None:
                found["parity"].append((ev, ev.args[1], ev.args[2], int(d.const_value())))
            else:
                found["info"].append((ev, ev.args[1], ev.args[2]))
        elif base in ("num_rows", "num_cols"):
            pass
        elif ev.callee.startswith("<"):
            if ev.callee not in ("<break>", "<apply>", "<try>"):
                found["other"].append(ev)
        else:
            found["other"].append(ev)
    ok_new = len(found["new"]) == 1 and found["new"][0][1] == [M, N]
    ck.inst("T4", "h:new(m,n)", ok_new, hb.span, "matrix allocated as SparseMatrix::new(%s)" % (
        ", ".join(repr(a) for a in found["new"][0][1]) if found["new"] else "?"))
    # information part, in group/offset coordinates: column 360*g + o receives the rows (x + o*q) mod m for x in addresses[g],
    # for every group g of the table and every o in 0..360 (one loop over 0..k with j/360, j%360, or a loop nest over groups and offsets)
    G, O = var("g"), var("o")
    info_ok = len(found["info"]) == 1
    reason = "expected exactly one write site for the information part (found %d)" % len(found["info"])
    if info_ok:
        ev, row, col = found["info"][0]
        rng = [l for l in ev.loops if l[0] == "range"]
        enum = [l for l in ev.loops if l[0] == "enumerate"]
        dom_ok = False
        if len(ev.loops) == 1 and len(rng) == 1 and rng[0][2] == num(0) and rng[0][3] == K and not rng[0][4]:
            j = single_atom(var(rng[0][1]))
            sub = lambda v: replace_atom(replace_atom(replace_atom(v, single_atom(app("idiv", var(rng[0][1]), num(360))), G),
                                                      single_atom(app("mod", var(rng[0][1]), num(360))), O), j, num(360) * G + O)
            row, col = sub(row), sub(col)
            row = replace_atom(row, single_atom(app("index", ADDR, G)), var("ROWG"))
            dom_ok = True       # g in 0..k/360 (T2: the table has k/360 rows), o in 0..360
        elif len(ev.loops) == 2 and len(rng) == 1 and len(enum) == 1 and enum[0][2] in (("elems", ADDR), ("elems", ("P", ADDR))) \
                and rng[0][2] == num(0) and rng[0][3] == num(360) and not rng[0][4]:
            row = replace_atom(replace_atom(row, single_atom(var(enum[0][1])), G), single_atom(var(rng[0][1])), O)
            col = replace_atom(replace_atom(col, single_atom(var(enum[0][1])), G), single_atom(var(rng[0][1])), O)
            row = replace_atom(row, single_atom(app("elem", ADDR, var(enum[0][3]))), var("ROWG"))
            dom_ok = True       # g over every row of the table, o in 0..360
        exp_row = app("mod", app("elem", var("ROWG"), X) + O * Q, M)
        info_ok = dom_ok and not ev.guards and row == exp_row and col == num(360) * G + O
        reason = "column %r <- rows %r for every group g and offset o in 0..360 ; required column 360 g + o <- rows (x + o q) mod m, x in addresses[g]" % (col, row)
    ck.inst("T4", "h:information-part", info_ok, found["info"][0][0].site if found["info"] else hb.span, reason)

    # parity part: entries (r, k + r + d) with d = 0 for the rows 0..m and d = -1 for the rows 1..m, each exactly once
    def rows_of(ev, row):
        """half-open interval of rows an insert event covers, path conditions on the row folded in"""
        ra = single_atom(row) if isinstance(row, Poly) else None
        c = row.const_value() if isinstance(row, Poly) else None
        if c is not None and not ev.loops:
            return (row, row + num(1))
        rl = [l for l in ev.loops if l[0] == "range" and ra is not None and ra[0] == "v" and l[1] == ra[1]]
        if len(ev.loops) != 1 or not rl:
            return None
        lo, hi = rl[0][2], rl[0][3] + (num(1) if rl[0][4] else num(0))
        for g, pol in ev.guards:
            cg, pg = canon_cond(g, pol, total=True)
            ga = single_atom(cg) if isinstance(cg, Poly) else None
            if ga and atom_fn(ga) == "lt" and pg and atom_args(ga)[1] == row and atom_args(ga)[0].const_value() is not None:
                lo2 = atom_args(ga)[0] + num(1)         # c < r
                lo = lo2 if (lo.const_value() is not None and lo2.const_value() > lo.const_value()) else lo
            elif ga and atom_fn(ga) == "eq" and not pg and row in atom_args(ga) and num(0) in atom_args(ga) and lo == num(0):
                lo = num(1)                              # r != 0
            else:
                return None
        return (lo, hi)

    def tiles(ivs, start, end):
        ivs = list(ivs)
        cur = start
        while ivs:
            nxt = [iv for iv in ivs if iv[0] == cur]
            if len(nxt) != 1:
                return False
            ivs.remove(nxt[0])
            cur = nxt[0][1]
        return cur == end
    cover = {0: [], -1: []}
    par_bad = []
    for ev, row, col, d in found["parity"]:
        iv = rows_of(ev, row)
        if d not in cover or iv is None:
            par_bad.append((repr(row), repr(col)))
        else:
            cover[d].append(iv)
    par_ok = not par_bad and tiles(cover[0], num(0), M) and tiles(cover[-1], num(1), M)
    ck.inst("T4", "h:parity-part", par_ok, found["parity"][0][0].site if found["parity"] else hb.span,
            "diagonal (r, k+r) written for rows %s, sub-diagonal (r, k+r-1) for rows %s%s ; required 0..m and 1..m, each once" % (
                [(repr(a_), repr(b_)) for a_, b_ in cover[0]], [(repr(a_), repr(b_)) for a_, b_ in cover[-1]], " ; unreadable: %s" % par_bad if par_bad else ""))
    ck.inst("T4", "h:no-other-writes", not found["other"], found["other"][0].site if found["other"] else hb.span,
            "no other matrix mutation or early exit in Code::h" if not found["other"] else "unexpected %s" % found["other"][0].callee)
    from ..panics import unwrap_mut
    ck.inst("T4", "h:returns-h", isinstance(ret, Poly) and unwrap_mut(ret) == app("sparse::SparseMatrix::new", M, N), hb.span,
            "the matrix built is the value returned")
    ck.floor("T4", "matrix writes in Code::h", len(found["info"]) + len(found["parity"]), 3)

    # ---- T5: staircase agreement -----------------------------------------------
    acc = staircase.accepted_set(F, ck, "T5")
    # writer in terms of D = (cols - rows) = n - m = k: offsets (col - k) per row
    written_first = {num(d) for d in cover if any(iv[0] == num(0) for iv in cover[d])}
    written_rest = {var("j") + num(d) for d in cover if any(iv[1] == M for iv in cover[d])}
    ok5 = (par_ok and written_first == acc["first"] and written_rest == acc["rest"] and acc["count_ok"])
    ck.inst("T5", "staircase-agreement", ok5, hb.span,
            "writer: row 0 -> offsets %s, row j in 1..m -> offsets %s (relative to column k = n-m); is_staircase accepts row 0 -> %s, "
            "row j!=0 -> %s and requires 2*rows-1 ones (%s)" % (sorted(map(repr, written_first)), sorted(map(repr, written_rest)), sorted(map(repr, acc["first"])),
                                                                 sorted(map(repr, acc["rest"])), acc["count_ok"]),
            {"reader": {k: sorted(map(repr, v)) if isinstance(v, set) else v for k, v in acc.items()}})
    # k() must be n() - m() so that "cols - rows" of the generated matrix is k
    kb = const_sym(F)
    ck.inst("T5", "k=n-m", kb, sites["k"], "k() is defined as n() - m(), so column k is the first parity column of new(m, n)")

    from .c20 import cli_dvbs2_table
    cli_dvbs2_table(ck, F, "T7")
    if tier == "thorough":
        t6(ck, tables, scal, sites)


def const_sym(F):
    ev = SymEval(F, mode="int")
    b = F.body(ENUM + "::k")
    env = {}
    ev.bind(b.params[0], var("self"), env)
    try:
        v = ev.eval(b.value, env)
    except Unsupported:
        return False
    S = var("self")
    return v == app(ENUM + "::n", S) - app(ENUM + "::m", S)


def t6(ck, tables, scal, sites):
    """No 4-cycles, on the constants, under the QC law verified by T4.

    Column j = 360*t + w of the information part has rows {(x + w*q) mod m : x in table[t]}.
    Two columns (t,w), (t',w') share the row r iff x + w q = x' + w' q (mod m). Writing x = a*q + b
    (b = x mod q), the shift by w*q keeps b and maps a -> (a + w) mod 360. So two columns share two
    rows iff there are two pairs (x1,x1'), (x2,x2') with b1=b1', b2=b2' and a1-a1' = a2-a2' (mod 360),
    not both pairs identical. Parity columns k+i (rows i, i+1) interact with an information column
    iff it contains two cyclically consecutive rows r, r+1 (i.e. both < m-1 ... r+1 <= m-1).
    """
    for v, tab in sorted(tables.items()):
        q, m = scal[v]["q"], scal[v]["m"]
        if 360 * q != m:
            ck.fail("T6", "no-4-cycle:" + v, sites["m"], "m != 360*q: the law's arithmetic does not apply")
            continue
        # group entries by residue b; entries (t, idx, a)
        byb = {}
        for t, row in enumerate(tab):
            for x in row:
                byb.setdefault(x % q, []).append((t, x // q))
        # difference multiset per ordered pair of rows (t,t'): (b-class-insensitive) delta = a - a' mod 360
        seen = {}
        bad = None
        for b, ents in byb.items():
            for i, (t1, a1) in enumerate(ents):
                for j2, (t2, a2) in enumerate(ents):
                    if i == j2:
                        continue
                    key = (t1, t2, (a1 - a2) % 360)
                    if t1 == t2 and (a1 - a2) % 360 == 0:
                        continue
                    if key in seen and seen[key] != (b, a1, a2):
                        bad = (key, seen[key], (b, a1, a2))
                    seen[key] = (b, a1, a2)
        # parity interaction: a column containing rows r and r+1 (r+1 < m) shares two rows with parity column k+r+1? parity
        # column k+i has rows {i, i+1} (i+1 < m): a 4-cycle needs an info column with both i and i+1.
        bad2 = None
        for t, row in enumerate(tab):
            for w in (0,):
                pass
            s = set(row)
            # shifting by w*q preserves differences: rows differ by 1 iff x' - x = 1 (mod m) before the shift
            for x in row:
                if (x + 1) % m in s and ((x + 1) % m != 0):
                    bad2 = (t, x)
                if (x + 1) % m in s and (x + 1) % m == 0:
                    # wraps for the w making x+wq = m-1; rows m-1 and 0 are not in a common parity column
                    pass
        ck.inst("T6", "no-4-cycle:" + v, bad is None and bad2 is None, sites["addresses"],
                "no repeated (row-pair, shift) difference among %d table entries; no adjacent-row pair in a column" % sum(len(r) for r in tab)
                if bad is None and bad2 is None else "4-cycle witness in the table: %r %r" % (bad, bad2), {"code": v})
