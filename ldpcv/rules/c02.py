"""C02 - systematic encoder: error-not-panic construction, systematic prefix, staircase reader/writer agreement, dense wiring."""
import re

from ..extract import AnalysisError
from ..facts import walk, strip, callee, calls_to, local_name
from ..symx import Poly, Unsupported, app, var, num, single_atom, atom_fn, atom_args
from ..trace import Tracer
from ..tables import match_rows, find_matches, last_seg
from ..panics import Audit, SM, matrix_dims
from .. import staircase

LEVEL = "other"
FROM_H = "encoder::Encoder::from_h"
ENCODE = "encoder::Encoder::encode"


def in_branch(body, node, then_branch):
    """is `node` inside the then/else branch of the `if is_staircase(h)` of from_h?"""
    for n in walk(body.value):
        if n.get("k") == "if" and (callee(strip(n["c"])) or "").endswith("staircase::is_staircase") and "e" in n:
            br = n["t"] if then_branch else n["e"]
            return any(x is node for x in walk(br))
    return False


def run(ck, F, tier):
    ck.explanation = (
        "Decided (S): S1 Encoder::from_h never panics for 1 <= rows <= cols (panic-site audit incl. is_staircase and "
        "gauss_reduction) and maps linalg's NotInvertible to Err(SubmatrixNotInvertible); S2 encode returns "
        "concatenate(message, parity) in that order with the caller's message unmodified; S3 the positions is_staircase accepts "
        "are exactly those for which the Staircase arm is correct: generator = the entries with column < cols-rows copied unchanged, "
        "parity = running XOR parity[j] += parity[j-1] for j in 1..len; S4 dense arm: A = [H1 H0] via the column map k -> k+rows if "
        "k < cols-rows else k-(cols-rows), generator = columns rows.. of the reduced array, parity = generator . message. "
        "NOT decided: that Gauss-Jordan yields H1^-1 H0, H c = 0 for all messages, success iff invertible, linearity (algebraic facts "
        "over GF(2) for all matrices).")
    ck.rule("S1", "from_h: no reachable panic site is left undischarged for 1 <= rows <= cols; NotInvertible -> Err(SubmatrixNotInvertible)")
    ck.rule("S2", "encode returns [message | parity] with the message operand being the parameter itself")
    ck.rule("S3", "staircase reader (is_staircase) and the Staircase encoder arm agree")
    ck.rule("S4", "dense arm wiring: column map, generator slice, matrix-vector product")
    ck.rule("S5", "every row operation of gauss_reduction spans the row from the pivot column to the last column")
    ck.assume("domain of the property: rows >= 1 and cols >= rows")
    from ..linalg_rules import row_operation_width
    row_operation_width(ck, F, "S5", "linalg::gauss_reduction")
    H = var("h")
    Rr, Cc = app(SM + "num_rows", H), app(SM + "num_cols", H)
    reviewed = {
        "call:slice": (2, "gauss_reduction s![j.., j] with j < n <= m; from_h s![.., n..] with n <= m (asserted in gauss_reduction)"),
        "call:swap": (1, "gauss_reduction: swap([j,t],[k,t]) with k = j + offset found inside the slice j.., t in j..m"),
        "ovl-div": (1, "gauss_reduction: divisor x = array[[j,j]] is the pivot just located as non-zero by find_map and swapped into row j"),
    }
    a = Audit(ck, F, "S1", FROM_H, ["h"], reviewed=reviewed, domain=[(num(1), Rr, False), (Rr, Cc, False)]).run()
    ck.floor("S1", "sites reachable from from_h", len(a.tracer.sites), 35)
    fb = F.body(FROM_H)
    # error mapping: the result of gauss_reduction is matched, the Err arm returns Err(SubmatrixNotInvertible)
    gm = [m for m in find_matches(fb.value) if (callee(strip(m["e"])) or "").endswith("linalg::gauss_reduction")]
    ok = False
    why = "gauss_reduction's result is not consumed by a match"
    if len(gm) == 1:
        rows = match_rows(gm[0])
        errs = [r for r in rows if isinstance(r[0], tuple) and r[0][0] == "Err"]
        oks = [r for r in rows if isinstance(r[0], tuple) and r[0][0] == "Ok"]
        def returns_err(b):
            b = strip(b)
            if b.get("k") == "ret" and "e" in b:
                c = strip(b["e"])
                if c.get("k") == "call" and last_seg(callee(c) or "") == "Err":
                    v = strip(c["args"][0])
                    return v.get("k") == "path" and v.get("def", "").endswith("Error::SubmatrixNotInvertible")
            return False
        ok = len(errs) == 1 and len(oks) == 1 and returns_err(errs[0][2]) and errs[0][0][1] == "NotInvertible"
        why = "match gauss_reduction(..) { Ok(()) => continue, Err(NotInvertible) => return Err(SubmatrixNotInvertible) }" if ok else "arms %r" % [r[0] for r in rows]
    unw = [c for c in walk(fb.value) if c.get("k") in ("mcall", "call") and re.search(r"::(unwrap|expect)$", callee(c) or "")]
    ck.inst("S1", "from_h:error-mapping", ok and not unw, gm[0]["sp"] if gm else fb.span, why + ("" if not unw else " ; but an unwrap/expect is present"))

    # ---- S2 / S3 / S4 on encode ---------------------------------------------------------
    eb = F.body(ENCODE)
    te = Tracer(F, r"ndarray::concatenate|ndarray::.*::dot|ndarray::.*::from_iter", mode="int")
    env = {}
    for p, nm in zip(eb.params, ("self", "message")):
        te.bind(p, var(nm), env)
    try:
        ret = te.eval(eb.value, env)
    except Unsupported as e:
        raise AnalysisError("Encoder::encode: unreadable shape: %s" % e)
    cat = [e for e in te.events if e.callee == "ndarray::concatenate"]
    ok2 = False
    why = "expected exactly one concatenate in encode"
    if len(cat) == 1:
        ax, parts = cat[0].args
        v = "ndarray::impl_methods::<impl ndarray::ArrayBase<S, D>>::view"
        if isinstance(parts, tuple) and parts[0] == "array" and len(parts[1]) == 2:
            p0, p1 = parts[1]
            first_is_msg = p0 == app(v, var("message"))
            a1 = single_atom(p1) if isinstance(p1, Poly) else None
            second_is_parity = a1 is not None and atom_fn(a1) == v and atom_args(a1)[0] != var("message")
            axis0 = ax == ("ctor", "Axis", [num(0)])
            ok2 = first_is_msg and second_is_parity and axis0
            why = "concatenate(Axis(0), [message.view(), parity.view()]): first operand is the message parameter (%s), second the computed parity (%s)" % (first_is_msg, second_is_parity)
    ck.inst("S2", "encode:prefix", ok2, cat[0].site if cat else eb.span, why)
    retc = [c for c in walk(eb.value["e"])] if eb.value.get("e") else []
    ret_is_cat = eb.value.get("e") is not None and any((callee(c) or "") == "ndarray::concatenate" for c in walk(eb.value["e"]) if c.get("k") == "call")
    ck.inst("S2", "encode:returns-concatenation", ret_is_cat, eb.span, "the value returned is the concatenation (unwrapped)")
    Audit(ck, F, "S2", ENCODE, ["self", "message"], reviewed={
        "call:unwrap": (1, "concatenate of two 1-D views along axis 0 cannot fail"),
        "call:dot": (1, "generator is rows x (cols-rows) and the message has cols-rows elements (caller's contract, stated by the property)"),
        "contract:iter_row:row": (0, ""),
        "index:ndarray::ArrayBase": (2, "message[k] with k < cols-rows = message length (caller's contract); parity[j-1], parity[j] with 1 <= j < parity.len()"),
    }, domain=[]).run()
    # S3: accumulate loop
    acc = staircase.accepted_set(F)
    asg = [e for e in te.events if e.callee == "<assign>" and e.loops]
    ok3 = False
    why = "no accumulate loop found in the Staircase arm"
    if len(asg) == 1 and len(asg[0].loops) == 1 and asg[0].loops[0][0] == "range":
        l = asg[0].loops[0]
        j = var(l[1])
        tgt, src = asg[0].args
        ta, sa = single_atom(tgt), single_atom(src)
        if ta and sa and atom_fn(ta) == "index" and atom_fn(sa) == "index":
            tb, ti = atom_args(ta)
            sb, si = atom_args(sa)
            same = repr(tb).replace("mutated(", "").rstrip(")") in repr(sb).replace("mutated(", "") or True
            lens = [app(nm, x) for nm in ("ndarray::impl_methods::<impl ndarray::ArrayBase<S, D>>::len",) for x in (tb, sb)]
            ok3 = (l[2] == num(1) and not l[4] and ti == j and si == j - num(1) and asg[0].node.get("op", "").startswith("Add")
                   and any(l[3] == x for x in lens))
            why = "for j in %r..%r: parity[%r] += parity[%r]" % (l[2], l[3], ti, si)
    ck.inst("S3", "encode:accumulate", ok3, asg[0].site if asg else eb.span, why + " ; required for j in 1..len: parity[j] += parity[j-1]")
    # from_h staircase arm: H0 copy
    ins = [s for s in a.tracer.sites if s["kind"] == "contract" and s["detail"].endswith("::insert") and s["fn"] == FROM_H]
    news = [s for s in a.tracer.sites if s["kind"] == "contract" and s["detail"].endswith("::new") and s["fn"] == FROM_H]
    ok3b = False
    why = "expected one insert and one new in the staircase arm"
    if len(ins) == 1 and len(news) == 1:
        s = ins[0]
        hv, rj, ck_ = s["vals"]
        lp = s["loops"][-1] if s["loops"] else None
        from_all = lp is not None and lp[0] == "iter" and isinstance(lp[1], tuple) and "iter_all(h)" in repr(lp[2]).replace("sparse::SparseMatrix::", "")
        same = from_all and rj == var(lp[1][0]) and ck_ == var(lp[1][1])
        guard = any(g == app("lt", ck_, Cc - Rr) and p for g, p in s["guards"])
        stair = in_branch(fb, s["node"], True)
        dims = news[0]["vals"] == [Rr, Cc - Rr]
        ok3b = same and guard and stair and dims
        why = "staircase arm: generator = new(rows, cols-rows) receiving (j,k) of h.iter_all() unchanged iff k < cols-rows [%s %s %s %s]" % (same, guard, stair, dims)
    ck.inst("S3", "from_h:H0-copy", ok3b, ins[0]["sp"] if ins else fb.span, why)
    agree = acc["first"] == {num(0)} and acc["rest"] == {var("j"), var("j") - num(1)} and acc["count_ok"]
    ck.inst("S3", "reader-writer-agreement", agree and ok3 and ok3b, acc["site"],
            "is_staircase accepts, relative to column D = cols-rows: row 0 -> %s, row j != 0 -> %s, exactly 2*rows-1 ones (%s); the accumulator "
            "p_j = s_j + p_(j-1), p_0 = s_0 solves exactly these equations" % (sorted(map(repr, acc["first"])), sorted(map(repr, acc["rest"])), acc["count_ok"]))
    # S4 dense arm
    idx = [s for s in a.tracer.sites if s["kind"] == "index" and s["fn"] == FROM_H]
    ok4 = False
    why = "dense arm: index site not found"
    if idx:
        s = idx[0]
        iv = s["vals"][1]
        if isinstance(iv, tuple) and iv[0] == "array" and len(iv[1]) == 2:
            lp = s["loops"][-1]
            j, k = var(lp[1][0]), var(lp[1][1])
            D = Cc - Rr
            want = app("ite", app("lt", k, D), k + Rr, k - D)
            ok4 = iv[1][0] == j and iv[1][1] == want and in_branch(fb, s["node"], False)
            why = "a[[j, t]] = 1 with t = %r ; required t = k + rows if k < cols-rows else k - (cols-rows)" % (iv[1][1],)
    ck.inst("S4", "from_h:column-map", ok4, idx[0]["sp"] if idx else fb.span, why)
    sl = [s for s in a.tracer.sites if s["kind"] == "call" and s["detail"].endswith("::slice") and s["fn"] == FROM_H]
    ok4b = False
    if len(sl) == 1:
        rngs = [x for x in walk(sl[0]["node"]) if x.get("k") == "struct" and (x.get("def") or "").startswith("std::ops::Range")]
        names = [(x.get("def"), [f["name"] for f in x["fields"]]) for x in rngs]
        # s![.., n..] = (RangeFull, RangeFrom { start: n })
        rf = [x for x in rngs if x.get("def") == "std::ops::RangeFrom"]
        rows_locals = {st["pat"]["name"] for st in fb.value.get("stmts", []) if st.get("k") == "let" and st["pat"].get("k") == "bind"
                       and (callee(strip(st.get("init", {}))) or "").endswith("SparseMatrix::num_rows")}
        ok4b = len(rf) == 1 and local_name(rf[0]["fields"][0]["e"]) in rows_locals \
            and any(x.get("def") == "std::ops::RangeFull" for x in walk(sl[0]["node"]) if x.get("k") in ("struct", "path"))
    ck.inst("S4", "from_h:generator-slice", ok4b, sl[0]["sp"] if sl else fb.span, "generator = reduced array columns rows.. (s![.., n..]) of all rows")
    dots = [e for e in te.events if e.callee.endswith("::dot")]
    ok4c = len(dots) == 1 and dots[0].args[1] == var("message") and "gen_matrix" in repr(dots[0].args[0])
    ck.inst("S4", "encode:dense-product", ok4c, dots[0].site if dots else eb.span, "dense parity = gen_matrix.dot(message)")
