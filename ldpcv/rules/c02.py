"""C02 - systematic encoder: error-not-panic construction, systematic prefix, staircase reader/writer agreement, dense wiring."""
import re

from ..extract import AnalysisError
from ..facts import walk, strip, callee, calls_to, local_name
from ..symx import Poly, Unsupported, app, var, num, single_atom, atom_fn, atom_args, vkey
from ..trace import Tracer
from ..tables import match_rows, find_matches, last_seg
from ..panics import Audit, SM, matrix_dims, SiteTracer
from .. import staircase

LEVEL = "other"
FROM_H = "encoder::Encoder::from_h"
ENCODE = "encoder::Encoder::encode"


def in_branch(body, node, then_branch):
    """is `node` inside the then/else branch of the `if is_staircase(h)` of from_h?"""
    for n in walk(body.value):
        if n.get("k") == "if" and (callee(strip(n["c"])) or "").endswith("staircase::is_staircase") and "e" in n:
            br = n["t"] if then_branch else n["e"]
            return any(x is node for x in walk(br))
    return False


def slice_spec(v):
    """the per-axis ranges of an evaluated s![..] argument (first array of range values inside it)"""
    stack = [v]
    while stack:
        x = stack.pop(0)
        if isinstance(x, Poly):
            for mono in x.t:
                stack.extend(a for a, _ in mono)
        elif isinstance(x, list):
            stack.extend(x)
        elif isinstance(x, tuple):
            if len(x) == 2 and x[0] == "array" and isinstance(x[1], tuple) and x[1] and \
                    all(isinstance(y, tuple) and y and y[0] == "struct" and str(y[1]).startswith("Range") for y in x[1]):
                return list(x[1])
            stack.extend(y for y in x if isinstance(y, (tuple, Poly, list)))
    return None


def zeros_shape(v):
    """(rows, cols) of an ndarray value built by Array2::zeros((r, c)), else None"""
    from ..panics import unwrap_mut
    v = unwrap_mut(v)
    a = single_atom(v) if isinstance(v, Poly) else None
    if a and atom_fn(a).endswith("::zeros") and isinstance(a[2], tuple) and a[2][0] == "tuple" and len(a[2][1]) == 2:
        return tuple(k[1] if isinstance(k, tuple) and k and k[0] == "P" else k for k in a[2][1])
    return None


def run(ck, F, tier):
    ck.explanation = (
        "Decided (S): S1 Encoder::from_h never panics for 1 <= rows <= cols (panic-site audit incl. is_staircase and "
        "gauss_reduction) and maps linalg's NotInvertible to Err(SubmatrixNotInvertible); S2 encode returns "
        "concatenate(message, parity) in that order with the caller's message unmodified; S3 the positions is_staircase accepts "
        "are exactly those for which the Staircase arm is correct: generator = the entries with column < cols-rows copied unchanged, "
        "parity = running XOR parity[j] += parity[j-1] for j in 1..len; S4 dense arm: A = [H1 H0] via the column map k -> k+rows if "
        "k < cols-rows else k-(cols-rows), generator = columns rows.. of the reduced array, parity = generator . message. "
        "NOT decided: that Gauss-Jordan yields H1^-1 H0, H c = 0 for all messages, success iff invertible, linearity (algebraic facts "
        "over GF(2) for all matrices).")
    ck.rule("S1", "from_h: no reachable panic site is left undischarged for 1 <= rows <= cols; NotInvertible -> Err(SubmatrixNotInvertible)")
    ck.rule("S2", "encode returns [message | parity] with the message operand being the parameter itself")
    ck.rule("S3", "staircase reader (is_staircase) and the Staircase encoder arm agree")
    ck.rule("S4", "dense arm wiring: column map, generator slice, matrix-vector product")
    ck.rule("S5", "every row operation of gauss_reduction spans the row from the pivot column to the last column")
    ck.assume("domain of the property: rows >= 1 and cols >= rows")
    from ..linalg_rules import row_operation_width
    row_operation_width(ck, F, "S5", "linalg::gauss_reduction")
    H = var("h")
    Rr, Cc = app(SM + "num_rows", H), app(SM + "num_cols", H)
    reviewed = {
        "call:slice": (2, "gauss_reduction s![j.., j] with j < n <= m; from_h s![.., n..] with n <= m (asserted in gauss_reduction)"),
        "call:swap": (1, "gauss_reduction: swap([j,t],[k,t]) with k = j + offset found inside the slice j.., t in j..m"),
        "ovl-div": (1, "gauss_reduction: divisor x = array[[j,j]] is the pivot just located as non-zero by find_map and swapped into row j"),
    }
    a = Audit(ck, F, "S1", FROM_H, ["h"], reviewed=reviewed, domain=[(num(1), Rr, False), (Rr, Cc, False)]).run()
    ck.floor("S1", "sites reachable from from_h", len(a.tracer.sites), 20)
    fb = F.body(FROM_H)
    # error mapping: the only early return is Err(SubmatrixNotInvertible), taken exactly when gauss_reduction's result matches Err(..)
    # (read off the path conditions of the return events: match / if let / let else all give the same condition)
    STAIR = app("encoder::staircase::is_staircase", H)
    # structure trace of from_h: the matrix API, the staircase test and the elimination stay opaque; private helpers are expanded
    st = SiteTracer(F, contracts=r"sparse::SparseMatrix::\w+|linalg::gauss_reduction|encoder::staircase::is_staircase")
    envs = {}
    st.bind(fb.params[0], H, envs)
    st.fn_stack.append(fb.path)
    try:
        st.eval(fb.value, envs)
    except Unsupported as e:
        raise AnalysisError("Encoder::from_h: unreadable shape: %s" % e)
    rets = [e for e in st.events if e.callee == "<return>"]
    errs = [e for e in rets if e.args and e.args[0] == ("ctor", "Err", [("variant", "SubmatrixNotInvertible")])]

    def gauss_err_guard(g, pol):
        ga = single_atom(g) if isinstance(g, Poly) else None
        if not ga or atom_fn(ga) != "matches":
            return False
        subj, pat = atom_args(ga)
        sa = single_atom(subj) if isinstance(subj, Poly) else None
        on_gauss = sa is not None and atom_fn(sa) == "linalg::gauss_reduction"
        return on_gauss and (("Err" in str(pat) and pol) or ("Ok" in str(pat) and not pol))
    ok = len(errs) == 1 and len(rets) == 1 and bool(errs[0].guards) and gauss_err_guard(*errs[0].guards[-1]) and not errs[0].loops
    if not rets:
        # gauss_reduction(..).map_err(|NotInvertible| SubmatrixNotInvertible)? : the `?` is the only early exit and maps the error
        trs = [e for e in st.events if e.callee == "<try>" and not e.loops]
        for e in trs:
            va = single_atom(e.args[0]) if isinstance(e.args[0], Poly) else None
            if va and atom_fn(va) == "try" and isinstance(atom_args(va)[0], Poly):
                va = single_atom(atom_args(va)[0])
            if va and atom_fn(va) == "std::result::Result::<T, E>::map_err":
                subj, clo = atom_args(va)
                sa_ = single_atom(subj) if isinstance(subj, Poly) else None
                if sa_ is not None and atom_fn(sa_) == "linalg::gauss_reduction":
                    from ..idioms import as_closure
                    try:
                        mapped = st.apply(as_closure(F, st, clo), [("variant", "NotInvertible")])
                    except Unsupported:
                        mapped = None
                    ok = mapped == ("variant", "SubmatrixNotInvertible") and len([x for x in trs if "gauss_reduction" in repr(x.args[0])]) == 1
                    errs = [e]
    why = ("the only early return is Err(SubmatrixNotInvertible), under the condition that gauss_reduction(..) returned Err" if ok else
           "early returns: %s" % [(repr(e.args)[:80], [(repr(g)[:80], p) for g, p in e.guards[-1:]]) for e in rets])
    unw = [x for x in st.sites if x["kind"] == "call" and re.search(r"::(unwrap|expect)$", x["detail"]) and "gauss_reduction" in repr(x["vals"][:1])]
    ck.inst("S1", "from_h:error-mapping", ok and not unw, errs[0].site if errs else fb.span, why + ("" if not unw else " ; but the result is unwrapped"))

    # ---- S2 / S3 / S4 on encode ---------------------------------------------------------
    eb = F.body(ENCODE)
    # helpers of the encoder module (e.g. an extracted running-sum function) are expanded at their call sites
    te = Tracer(F, r"ndarray::concatenate|ndarray::.*::dot|ndarray::.*::from_iter|ndarray::.*::accumulate_axis_inplace|std::iter::Iterator::collect", mode="int",
                inline=lambda p: F.bodies.get(p) if p and p.startswith("encoder::") and p != ENCODE else None)
    env = {}
    for p, nm in zip(eb.params, ("self", "message")):
        te.bind(p, var(nm), env)
    try:
        ret = te.eval(eb.value, env)
    except Unsupported as e:
        raise AnalysisError("Encoder::encode: unreadable shape: %s" % e)
    cat = [e for e in te.events if e.callee == "ndarray::concatenate"]
    ok2 = False
    why = "expected exactly one concatenate in encode"
    if len(cat) == 1:
        ax, parts = cat[0].args
        v = "ndarray::impl_methods::<impl ndarray::ArrayBase<S, D>>::view"
        if isinstance(parts, tuple) and parts[0] == "array" and len(parts[1]) == 2:
            p0, p1 = parts[1]
            first_is_msg = p0 == app(v, var("message"))
            a1 = single_atom(p1) if isinstance(p1, Poly) else None
            second_is_parity = a1 is not None and atom_fn(a1) == v and atom_args(a1)[0] != var("message")
            axis0 = ax == ("ctor", "Axis", [num(0)])
            ok2 = first_is_msg and second_is_parity and axis0
            why = "concatenate(Axis(0), [message.view(), parity.view()]): first operand is the message parameter (%s), second the computed parity (%s)" % (first_is_msg, second_is_parity)
    ck.inst("S2", "encode:prefix", ok2, cat[0].site if cat else eb.span, why)
    retc = [c for c in walk(eb.value["e"])] if eb.value.get("e") else []
    ret_is_cat = eb.value.get("e") is not None and any((callee(c) or "") == "ndarray::concatenate" for c in walk(eb.value["e"]) if c.get("k") == "call")
    ck.inst("S2", "encode:returns-concatenation", ret_is_cat, eb.span, "the value returned is the concatenation (unwrapped)")
    Audit(ck, F, "S2", ENCODE, ["self", "message"], reviewed={
        "call:unwrap": (1, "concatenate of two 1-D views along axis 0 cannot fail"),
        "call:dot": (1, "generator is rows x (cols-rows) and the message has cols-rows elements (caller's contract, stated by the property)"),
        "contract:iter_row:row": (0, ""),
        "index:ndarray::ArrayBase": (2, "message[k] with k < cols-rows = message length (caller's contract); parity[j-1], parity[j] with 1 <= j < parity.len()"),
    }, domain=[]).run()
    # S3: the parity before accumulation is H0 * message: entry j is the GF(2) sum of message[k] over every k in row j of the stored H0
    from ..idioms import as_closure as _asc
    from ..symx import unkey as _unkey
    fi = [e for e in te.events if (e.callee.endswith("::from_iter") or e.callee.endswith("Iterator::collect")) and any("Staircase" in repr(g) and p for g, p in e.guards)
          and isinstance(e.args[0], tuple) and e.args[0][0] == "iterdesc" and e.args[0][1][0] == "map" and e.args[0][1][1][0] == "range"]
    ok_ip, why_ip = False, "no from_iter over the rows of the stored matrix in the Staircase arm"
    if len(fi) == 1 and isinstance(fi[0].args[0], tuple) and fi[0].args[0][0] == "iterdesc":
        d = fi[0].args[0][1]
        G = var("self.encoder.gen_matrix")
        SM_ = "sparse::SparseMatrix::"
        if d[0] == "map" and d[1][0] == "range" and d[1][1] == num(0) and d[1][2] == app(SM_ + "num_rows", G) and not d[1][3]:
            try:
                fv = te.apply(_asc(F, te, d[2]), [var("j#g")])
                fa = single_atom(fv) if isinstance(fv, Poly) else None
                if fa is not None and atom_fn(fa) == "std::iter::Iterator::sum" and isinstance(fa[2], tuple) and fa[2][0] == "iterdesc":
                    dd = _unkey(fa[2])[1]
                    src_ok = dd[0] == "map" and dd[1] in (("elems", app(SM_ + "iter_row", G, var("j#g"))), ("elems", ("P", app(SM_ + "iter_row", G, var("j#g")))))
                    gv = te.apply(_asc(F, te, dd[2]), [var("k#g")]) if src_ok else None
                    ok_ip = src_ok and gv == app("index", var("message"), var("k#g"))
                    why_ip = "parity0[j] = sum over k in iter_row(H0, j) of message[k] (rows 0..num_rows, whole rows: %s; term %r)" % (src_ok, gv)
                else:
                    why_ip = "parity0[j] = %r - not the sum over the row" % (fv,)
            except Unsupported as ex:
                why_ip = "row closure unreadable: %s" % ex
        else:
            why_ip = "rows visited: %r" % (d[1],)
    ck.inst("S3", "encode:initial-parity", ok_ip, fi[0].site if fi else eb.span, why_ip[:400])
    # S3: accumulate loop
    acc = staircase.accepted_set(F, ck, "S3")
    asg = [e for e in te.events if e.callee == "<assign>" and e.loops]
    ok3 = False
    why = "no accumulate loop found in the Staircase arm"
    accs = [e for e in te.events if e.callee.endswith("::accumulate_axis_inplace")]
    if len(accs) == 1 and not asg:
        # idiom C: parity.accumulate_axis_inplace(Axis(0), |&prev, cur| *cur += prev) - ndarray's running accumulation along the axis
        # (documented as: for i in 1..len { f(&a[i-1], &mut a[i]) })
        from ..idioms import as_closure
        e = accs[0]
        axis_ok = e.args[1] == ("ctor", "Axis", [num(0)])
        tq = Tracer(F, "NONE", mode="int")
        try:
            tq.apply(as_closure(F, te, vkey(e.args[2]) if isinstance(e.args[2], tuple) and isinstance(e.args[2][1], dict) else e.args[2]), [var("prev"), var("cur")])
        except Unsupported:
            pass
        st_ = [x for x in tq.events if x.callee == "<assign>"]
        step_ok = len(st_) == 1 and st_[0].args == [var("cur"), var("prev")] and st_[0].node.get("op", "").startswith("Add") and not st_[0].guards
        ok3 = axis_ok and step_ok
        why = "parity.accumulate_axis_inplace(Axis(0), |prev, cur| *cur += prev) [axis %s, step %s]" % (axis_ok, step_ok)
    LEN = "ndarray::impl_methods::<impl ndarray::ArrayBase<S, D>>::len"
    if len(asg) == 1 and len(asg[0].loops) == 1 and asg[0].node.get("op", "").startswith("Add"):
        l = asg[0].loops[0]
        tgt, src = asg[0].args
        ta, sa = single_atom(tgt), single_atom(src)
        if l[0] == "range" and ta and sa and atom_fn(ta) == "index" and atom_fn(sa) == "index":
            # idiom A: for j in 1..p.len() { p[j] += p[j-1] }
            j = var(l[1])
            tb, ti = atom_args(ta)
            sb, si = atom_args(sa)
            from ..panics import unwrap_mut
            same_seq = unwrap_mut(tb) == unwrap_mut(sb)
            ok3 = l[2] == num(1) and not l[4] and ti == j and si == j - num(1) and same_seq and l[3] in (app(LEN, tb), app(LEN, sb), app(LEN, unwrap_mut(tb)))
            why = "for j in %r..%r: parity[%r] += parity[%r]" % (l[2], l[3], ti, si)
        elif l[0] == "iter" and ta and atom_fn(ta) == "elem" and sa and sa[0] == "v" and sa[1].endswith("@loop"):
            # idiom B: a carried "previous element": first = it.next(); prev = *first; for el in it { *el += prev; prev = *el }
            seq, elv = atom_args(ta)
            d = l[2]
            rest = isinstance(d, tuple) and d[0] == "skip" and d[1] == ("elems", seq) and d[2] == num(1)
            carried = [nm for nm in te.assigned if nm.split("#")[0] == sa[1][:-5]]
            upd = len(carried) == 1 and te.assigned[carried[0]] == tgt
            init = te.carried_init.get(carried[0]) if carried else None
            ia = single_atom(init) if isinstance(init, Poly) else None
            first = ia is not None and atom_fn(ia) == "payload0" and atom_args(ia)[0] == app("std::iter::Iterator::next", ("iterdesc", ("elems", seq)))
            # (the only conditions on the path: the Staircase arm and "the sequence has a first element")
            plain = all(isinstance(g, Poly) and single_atom(g) is not None and atom_fn(single_atom(g)) == "matches" and pol for g, pol in asg[0].guards)
            ok3 = rest and upd and first and plain
            why = "prev = first element; for el in the remaining elements: *el += prev; prev = *el [rest of the same iterator %s, carry updated to the element %s, carry starts at element 0 %s]" % (rest, upd, first)
    ck.inst("S3", "encode:accumulate", ok3, asg[0].site if asg else eb.span, why + " ; required for j in 1..len: parity[j] += parity[j-1]")
    # from_h staircase arm: H0 copy (sites are taken from the whole expansion of from_h, so a private helper that builds H0 is seen through;
    # "in the staircase arm" = under the path condition is_staircase(h))
    def under(site, pol):
        return any(g == STAIR and p == pol for g, p in site["guards"])
    ins = [x for x in st.sites if x["kind"] == "contract" and x["detail"] == SM + "insert"]
    news = [x for x in st.sites if x["kind"] == "contract" and x["detail"] == SM + "new"]
    ok3b = False
    why = "expected one insert and one new in the staircase arm"
    if len(ins) == 1 and len(news) == 1:
        x = ins[0]
        hv, rj, ck_ = x["vals"]
        lp = x["loops"][-1] if x["loops"] else None
        from_all = lp is not None and lp[0] == "iter" and isinstance(lp[1], tuple) and lp[2] == ("elems", app(SM + "iter_all", H))
        same = from_all and rj == var(lp[1][0]) and ck_ == var(lp[1][1])
        others = [(g, p) for g, p in x["guards"] if g != STAIR]
        guard = len(others) == 1 and others[0] == (app("lt", ck_, Cc - Rr), True)
        stair = under(x, True) and under(news[0], True)
        dims = news[0]["vals"] == [Rr, Cc - Rr] and matrix_dims(hv) == (Rr, Cc - Rr)
        ok3b = same and guard and stair and dims
        why = "staircase arm: generator = new(rows, cols-rows) receiving (j,k) of h.iter_all() unchanged iff k < cols-rows [%s %s %s %s]" % (same, guard, stair, dims)
    ck.inst("S3", "from_h:H0-copy", ok3b, ins[0]["sp"] if ins else fb.span, why)
    agree = acc["first"] == {num(0)} and acc["rest"] == {var("j"), var("j") - num(1)} and acc["count_ok"]
    ck.inst("S3", "reader-writer-agreement", agree and ok3 and ok3b, acc["site"],
            "is_staircase accepts, relative to column D = cols-rows: row 0 -> %s, row j != 0 -> %s, exactly 2*rows-1 ones (%s); the accumulator "
            "p_j = s_j + p_(j-1), p_0 = s_0 solves exactly these equations" % (sorted(map(repr, acc["first"])), sorted(map(repr, acc["rest"])), acc["count_ok"]))
    # S4 dense arm
    idx = [x for x in st.sites if x["kind"] == "index" and under(x, False) and "&mut" in x["detail"] and x["loops"]]
    ok4 = False
    why = "dense arm: index site not found"
    if len(idx) == 1:
        x = idx[0]
        iv = x["vals"][1]
        lp = x["loops"][-1]
        if isinstance(iv, tuple) and iv[0] == "array" and len(iv[1]) == 2 and lp[0] == "iter" and isinstance(lp[1], tuple) and \
                lp[2] == ("elems", app(SM + "iter_all", H)):
            j, k = var(lp[1][0]), var(lp[1][1])
            D = Cc - Rr
            want = app("ite", app("lt", k, D), k + Rr, k - D)
            want2 = app("ite", app("le", D, k), k - D, k + Rr)
            ok4 = iv[1][0] == j and iv[1][1] in (want, want2) and zeros_shape(x["vals"][0]) == (Rr, Cc)
            why = "a[[j, t]] = 1 with t = %r ; required t = k + rows if k < cols-rows else k - (cols-rows), for every (j,k) of h.iter_all()" % (iv[1][1],)
    ck.inst("S4", "from_h:column-map", ok4, idx[0]["sp"] if idx else fb.span, why)
    sl = [x for x in st.sites if x["kind"] == "call" and x["detail"].endswith("::slice") and under(x, False)]
    ok4b = False
    spec = None
    if len(sl) == 1:
        spec = slice_spec(sl[0]["vals"][1])
        ok4b = spec == [("struct", "RangeFull", ()), ("struct", "RangeFrom", (("start", ("P", Rr)),))] and zeros_shape(sl[0]["vals"][0]) == (Rr, Cc)
    ck.inst("S4", "from_h:generator-slice", ok4b, sl[0]["sp"] if sl else fb.span, "generator = reduced array columns rows.. (s![.., n..]) of all rows: %r" % (spec,))
    dots = [e for e in te.events if e.callee.endswith("::dot")]
    ok4c = len(dots) == 1 and dots[0].args[1] == var("message") and "gen_matrix" in repr(dots[0].args[0])
    ck.inst("S4", "encode:dense-product", ok4c, dots[0].site if dots else eb.span, "dense parity = gen_matrix.dot(message)")
