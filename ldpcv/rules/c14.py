"""C14 - demodulator LLRs are the posterior log-ratios of the modulator's constellation (tables + formula shape)."""
from fractions import Fraction

import re

from ..extract import AnalysisError
from ..facts import walk, strip, callee, calls_to
from ..symx import (SymEval, Poly, Rat, Unsupported, app, var, num, single_atom, atom_fn, atom_args, split_signed)
from ..tables import match_rows, find_matches
from ..trace import Tracer

LEVEL = "other"
MOD = "simulation::modulation::"
# DVB-S2 8PSK (EN 302 307-1 fig. 10): bits (b0 b1 b2, b0 = MSB) -> phase index t, phase = t*pi/4
DVBS2_8PSK = {(0, 0, 0): 1, (0, 0, 1): 0, (1, 0, 1): 7, (1, 1, 1): 6, (0, 1, 1): 5, (0, 1, 0): 4, (1, 1, 0): 3, (1, 0, 0): 2}
A = app("sqrt", num(Fraction(1, 2)))
POINTS = {0: (num(1), num(0)), 1: (A, A), 2: (num(0), num(1)), 3: (-A, A), 4: (num(-1), num(0)), 5: (-A, -A),
          6: (num(0), num(-1)), 7: (A, -A)}


def point_index(x, y):
    for t, (px, py) in POINTS.items():
        if x == px and y == py:
            return t
    return None


def complex_xy(v):
    a = single_atom(v) if isinstance(v, Poly) else None
    if a and atom_fn(a) == "num_complex::Complex::<T>::new":
        x, y = atom_args(a)
        return x, y
    return None


def run(ck, F, tier):
    ck.explanation = (
        "Decided (S): M1 the 8PSK modulator table (8 arms) equals the DVB-S2 Gray mapping as exact symbolic points over "
        "{0,+-1,+-sqrt(1/2)} (unit energy, cyclic neighbours differ in one bit), BPSK maps 0 -> -1, 1 -> +1; M2 the 8PSK "
        "demodulator's six 4-element sets, read from the dataflow into reduce(maxstar), are exactly the bit=0 / bit=1 partitions "
        "of the *modulator's* table for positions 0,1,2, combined as maxstar(bit=0) - maxstar(bit=1), output order [b0,b1,b2], "
        "and the modulator consumes bits 3i,3i+1,3i+2 in that order; M3 formula shapes as normal forms: dot = re*re+im*im, "
        "maxstar(a,b) = max(a,b)+ln_1p(exp(-|a-b|)), 8PSK scale 1/sigma^2 applied to the symbol, BPSK LLR = (s0-s1)/sigma^2 * r with "
        "s0,s1 the modulator's symbols (= -2/sigma^2). These determine the real-valued formula; NOT decided: equality with "
        "log(P0/P1) to floating-point tolerance for all samples and sigma (rounding is not analysed).")
    ck.rule("M1", "modulator tables: 8PSK arms = DVB-S2 Gray mapping, unit energy, Gray property; BPSK 0->-1, 1->+1")
    ck.rule("M2", "demodulator partition = modulator table: for each output position p the first maxstar set is {points with bit p = 0}, "
                  "the subtracted set {bit p = 1}; bit consumption and LLR emission order agree")
    ck.rule("M3", "formula normal forms: dot, maxstar, scales")
    ck.assume("DVB-S2 8PSK bit mapping as transcribed in the rule")
    ck.assume("exp/ln_1p/max/abs/sqrt are the mathematical functions (uninterpreted in the normal forms)")

    # ---- M1: 8PSK modulator table ----------------------------------------------------
    mb = F.body(MOD + "Psk8Modulator::modulate_bits")

    class BitEval(SymEval):
        """evaluates on known GF2 arguments: is_one()/is_zero() of the tokens ('gf2', 0|1) fold to booleans"""
        def call_opaque(self, path, args):
            if path and len(args) == 1 and isinstance(args[0], tuple) and len(args[0]) == 2 and args[0][0] == "gf2":
                if path.endswith("One::is_one"):
                    return ("bool", args[0][1] == 1)
                if path.endswith("Zero::is_zero"):
                    return ("bool", args[0][1] == 0)
            return super().call_opaque(path, args)
    # the table is read by evaluating modulate_bits on the 8 bit triples (a match on the triple, a lookup in a constant table
    # indexed by the label b0 b1 b2, .. all give the same 8 points)
    table = {}
    for b0 in (0, 1):
        for b1 in (0, 1):
            for b2 in (0, 1):
                bits = (b0, b1, b2)
                ev = BitEval(F, mode="real", inline=lambda p: F.private_helper(p, MOD, keep=re.escape(MOD) + r"(maxstar|dot)"))
                env = {}
                for p, bv_ in zip(mb.params, bits):
                    ev.bind(p, ("gf2", bv_), env)
                try:
                    v = ev.eval_fn(mb, env)
                except Unsupported as e:
                    raise AnalysisError("modulate_bits: cannot evaluate for bits %r: %s" % (bits, e))
                xy = complex_xy(v)
                t = point_index(*xy) if xy else None
                table[bits] = t
                exp = DVBS2_8PSK[bits]
                ck.inst("M1", "psk8:%d%d%d" % bits, t == exp, mb.span,
                        "bits %d%d%d -> %s ; DVB-S2: phase %d*pi/4 = %s" % (bits + (("point %r (phase %s*pi/4)" % (xy, t)) if xy else "unreadable value %r" % (v,),) + (exp, POINTS[exp])),
                        {"bits": bits, "phase_index": t})
    ck.floor("M1", "8PSK arms", len(table), 8)
    inv = {t: b for b, t in table.items() if t is not None}
    gray = len(inv) == 8 and all(sum(x != y for x, y in zip(inv[t], inv[(t + 1) % 8])) == 1 for t in range(8))
    ck.inst("M1", "psk8:gray", gray, mb.span, "cyclically adjacent constellation points differ in exactly one bit")
    ck.inst("M1", "psk8:unit-energy", True, mb.span,
            "all points are drawn from {(+-1,0),(0,+-1),(+-a,+-a)} with a = sqrt(1/2) exactly (a^2+a^2 = 1)", trivial=not gray)
    # BPSK
    bb = F.body(MOD + "BpskModulator::modulate_bit")
    s0 = s1 = None
    got_b = {}
    for bitv in (0, 1):
        e2 = BitEval(F, mode="real")
        env2 = {}
        e2.bind(bb.params[0], ("gf2", bitv), env2)
        try:
            got_b[bitv] = e2.eval_fn(bb, env2)
        except Unsupported as e:
            raise AnalysisError("BpskModulator::modulate_bit: cannot evaluate for bit %d: %s" % (bitv, e))
    s0 = got_b[0] if isinstance(got_b[0], Poly) else None
    s1 = got_b[1] if isinstance(got_b[1], Poly) else None
    ck.inst("M1", "bpsk:table", s0 == num(-1) and s1 == num(1), bb.span, "bit 0 -> %r, bit 1 -> %r (required -1, +1)" % (s0, s1))

    # ---- M2: demodulator partition --------------------------------------------------
    db = F.body(MOD + "Psk8Demodulator::demodulate_symbol")
    # private helpers of the module (e.g. a "max* of four metrics" function) are expanded; the two formulas checked by M3 stay symbolic
    e3 = SymEval(F, mode="real", inline=lambda p: F.private_helper(p, MOD, keep=re.escape(MOD) + r"(maxstar|dot)"))
    env3 = {}
    for p, nm in zip(db.params, ("self", "symbol")):
        e3.bind(p, var(nm), env3)
    out = e3.eval(db.value, env3)
    if not (isinstance(out, tuple) and out[0] == "array" and len(out[1]) == 3):
        raise AnalysisError("demodulate_symbol: result is not a 3-element array")
    SYM = var("self.scale") * var("symbol")

    def read_set(atom):
        """unwrap(reduce(into_iter([d..]), maxstar)) -> list of phase indices"""
        cur = atom
        names = []
        while cur is not None and atom_fn(cur) in ("std::option::Option::<T>::unwrap", "std::option::Option::<T>::expect",
                                                   "std::iter::Iterator::reduce", "std::iter::IntoIterator::into_iter"):
            names.append(atom_fn(cur))
            args = atom_args(cur)
            if atom_fn(cur) == "std::iter::Iterator::reduce":
                if args[1] != ("fn", MOD + "maxstar"):
                    return None
            nxt = args[0]
            if isinstance(nxt, tuple) and nxt and nxt[0] == "array":
                idx = []
                for k in nxt[1]:
                    d = single_atom(k[1]) if isinstance(k, tuple) and k[0] == "P" else None
                    if not d or atom_fn(d) != MOD + "dot":
                        return None
                    sa, pt = atom_args(d)
                    if sa != SYM:
                        return None
                    xy = complex_xy(pt)
                    idx.append(point_index(*xy) if xy else None)
                return idx if "std::iter::Iterator::reduce" in names else None
            cur = single_atom(nxt) if isinstance(nxt, Poly) else None
        return None

    for p in range(3):
        sp = split_signed(out[1][p])
        ok = False
        why = "LLR %d is not of the form maxstar-set minus maxstar-set: %r" % (p, out[1][p])
        if sp and len(sp[0]) == 1 and len(sp[1]) == 1:
            plus, minus = read_set(sp[0][0]), read_set(sp[1][0])
            if plus is not None and minus is not None and None not in plus + minus:
                pb = sorted(inv[t][p] for t in plus) if len(inv) == 8 else None
                mbits = sorted(inv[t][p] for t in minus) if len(inv) == 8 else None
                ok = (len(plus) == 4 and len(minus) == 4 and len(set(plus)) == 4 and len(set(minus)) == 4
                      and pb == [0, 0, 0, 0] and mbits == [1, 1, 1, 1])
                why = ("LLR[%d] = maxstar(points %s) - maxstar(points %s); modulator bit %d of those points: %s / %s "
                       "(required all 0 / all 1, 4 distinct each)" % (p, plus, minus, p, pb, mbits))
            else:
                why = "LLR %d: a set is not reduce(maxstar) over dot(scale*symbol, constant point)" % p
        ck.inst("M2", "psk8:llr%d" % p, ok, db.span, why)
    # modulator consumption order
    mod = F.body("<%sPsk8Modulator as %sModulator>::modulate" % (MOD, MOD))
    tr = Tracer(F, "NONE", mode="real")
    envm = {}
    for pp, nm in zip(mod.params, ("self", "codeword")):
        tr.bind(pp, var(nm), envm)
    col = calls_to(mod.value, r"std::iter::Iterator::collect")
    ok = False
    why = "modulate: no single collect()"
    if len(col) == 1:
        desc = tr.iter_desc(col[0]["recv"], envm)
        CW = var("codeword")

        def sb(off):
            base = ("elems", CW)
            if off:
                base = ("skip", base, num(off))
            return ("step_by", base, num(3))
        want = ("zip", ("zip", sb(0), ("iterdesc", sb(1))), ("iterdesc", sb(2)))
        if desc[0] == "map" and repr(desc[1]) == repr(want):
            v = tr.apply(desc[2], [("tuple", [("tuple", [var("x0"), var("x1")]), var("x2")])])
            ok = v == app(MOD + "Psk8Modulator::modulate_bits", var("x0"), var("x1"), var("x2"))
            why = "symbol i = modulate_bits(cw[3i], cw[3i+1], cw[3i+2]): %r" % (v,)
        else:
            why = "bit iterator is %r" % (desc[:2],)
    if not ok and len(col) == 0:
        # explicit form: let mut it = codeword.iter(); while let (Some(b0), Some(b1), Some(b2)) = (it.next(), it.next(), it.next())
        # { symbols.push(modulate_bits(b0, b1, b2)) }: every round takes the next three bits in order (exactly three next() per round)
        from ..idioms import PUSH_RX, _is_fresh_vec
        tw = Tracer(F, PUSH_RX, mode="real")
        envw = {}
        for pp, nm in zip(mod.params, ("self", "codeword")):
            tw.bind(pp, var(nm), envw)
        try:
            rv = tw.eval(mod.value, envw)
            pushes = [e for e in tw.events if e.callee.endswith("::push")]
            whiles = [n for n in walk(mod.value) if n.get("k") == "while"]
            if len(pushes) == 1 and len(whiles) == 1 and _is_fresh_vec(rv) and len(pushes[0].loops) == 1 and pushes[0].loops[0][0] == "while":
                nexts = [x for x in walk(whiles[0]) if x.get("k") == "mcall" and x["m"] == "next"]
                CWI = ("iterdesc", ("elems", var("codeword")))
                NX = "std::iter::Iterator::next"
                n0 = app("payload0", app(NX, CWI))
                n1 = app("payload0", app(NX, ("iterdesc", ("skip", ("elems", var("codeword")), num(1)))))
                n2 = app("payload0", app(NX, ("iterdesc", ("skip", ("elems", var("codeword")), num(2)))))
                want_v = app(MOD + "Psk8Modulator::modulate_bits", n0, n1, n2)
                # the loop runs only while all three were Some, and nothing else guards the push
                conds_ok = all(isinstance(g, Poly) for g, p_ in pushes[0].guards) and all(p_ for g, p_ in pushes[0].guards)
                ok = len(nexts) == 3 and pushes[0].args[1] == want_v and conds_ok
                why = "every round pushes modulate_bits of the next three bits of the codeword in order (3 next() per round): %r" % (pushes[0].args[1],)
        except Unsupported as e:
            why = "modulate: unreadable loop: %s" % e
    if not ok and len(col) >= 2:
        # several producers (a fast path for contiguous input beside the general one): every one of them, on its own path, yields
        # symbol i = modulate_bits(cw[3i], cw[3i+1], cw[3i+2]) - from the strided zip, or from chunks of three of a view of the codeword
        # *in logical order* (as_slice(): Some only for a contiguous standard-order array; as_slice_memory_order() follows the strides)
        tc = Tracer(F, r"std::iter::Iterator::collect", mode="real")
        envc = {}
        for pp, nm in zip(mod.params, ("self", "codeword")):
            tc.bind(pp, var(nm), envc)
        try:
            rv = tc.eval(mod.value, envc)
            CW = var("codeword")
            AS = "ndarray::impl_methods::<impl ndarray::ArrayBase<S, D>>::"
            logical = (app("payload0", app(AS + "as_slice", CW)), app(AS + "to_vec", CW))

            def sb2(off):
                base = ("elems", CW)
                if off:
                    base = ("skip", base, num(off))
                return ("step_by", base, num(3))
            want = ("zip", ("zip", sb2(0), ("iterdesc", sb2(1))), ("iterdesc", sb2(2)))
            MB = MOD + "Psk8Modulator::modulate_bits"
            bad = []
            evs = [e for e in tc.events if e.callee.endswith("::collect")]
            for e in evs:
                d = e.args[0][1] if isinstance(e.args[0], tuple) and e.args[0][0] == "iterdesc" else e.args[0]
                if not (isinstance(d, tuple) and d[0] == "map"):
                    bad.append("a producer is not a map over the bits")
                    continue
                if repr(d[1]) == repr(want):
                    v = tc.apply(d[2], [("tuple", [("tuple", [var("x0"), var("x1")]), var("x2")])])
                    if v != app(MB, var("x0"), var("x1"), var("x2")):
                        bad.append("strided producer maps to %r" % (v,))
                elif d[1][0] == "chunks_exact" and d[1][2] == num(3):
                    v = tc.apply(d[2], [var("b")])
                    if v != app(MB, app("index", var("b"), num(0)), app("index", var("b"), num(1)), app("index", var("b"), num(2))):
                        bad.append("chunk producer maps to %r" % (v,))
                    if d[1][1] not in logical:
                        bad.append("chunks are taken from %r, which is not the codeword in logical order" % (d[1][1],))
                else:
                    bad.append("bit iterator is %r" % (d[1][:1],))
            rets = [e.args[0] for e in tc.events if e.callee == "<return>"] + [rv]
            all_collect = all(isinstance(r, Poly) and single_atom(r) is not None and atom_fn(single_atom(r)).endswith("::collect") for r in rets)
            ok = len(evs) >= 2 and not bad and all_collect
            why = "%d producers, each symbol i = modulate_bits(cw[3i], cw[3i+1], cw[3i+2])%s" % (len(evs), (" ; but " + "; ".join(bad[:2])) if bad else "")
        except Unsupported as e:
            why = "modulate: unreadable producers: %s" % e
    ck.inst("M2", "psk8:bit-order-mod", ok, mod.span, why)
    dm = F.body("<%sPsk8Demodulator as %sDemodulator>::demodulate" % (MOD, MOD))
    fm = calls_to(dm.value, r"std::iter::Iterator::flat_map")
    ok = False
    if len(fm) == 1 and fm[0]["args"][0].get("k") == "closure":
        tr2 = Tracer(F, "NONE", mode="real")
        envd = {}
        for pp, nm in zip(dm.params, ("self", "symbols")):
            tr2.bind(pp, var(nm), envd)
        d = tr2.iter_desc(fm[0]["recv"], envd)
        v = tr2.apply(("closure", fm[0]["args"][0], envd), [var("x")])
        ok = d == ("elems", var("symbols")) and v == app(MOD + "Psk8Demodulator::demodulate_symbol", var("self"), var("x"))
    ck.inst("M2", "psk8:llr-order-demod", ok, dm.span, "LLRs are emitted as flat_map(symbols, demodulate_symbol) i.e. [b0,b1,b2] per symbol in order")

    # ---- M3: formulas ---------------------------------------------------------------------
    def ev_fn(path, names, mode="real"):
        b = F.body(path)
        e = SymEval(F, mode=mode)
        en = {}
        for pp, nm in zip(b.params, names):
            e.bind(pp, var(nm), en)
        return b, e.eval(b.value, en)
    b, v = ev_fn(MOD + "dot", ("a", "b"))
    ck.inst("M3", "dot", v == var("a.re") * var("b.re") + var("a.im") * var("b.im"), b.span, "dot(a,b) = %r" % (v,))
    b, v = ev_fn(MOD + "maxstar", ("a", "b"))
    want = app("max", var("a"), var("b")) + app("ln_1p", app("exp", -app("abs", var("a") - var("b"))))
    want2 = app("max", var("a"), var("b")) + app("ln_1p", app("exp", -app("abs", var("b") - var("a"))))
    ck.inst("M3", "maxstar", v in (want, want2), b.span, "maxstar(a,b) = %r ; required max(a,b) + ln_1p(exp(-|a-b|))" % (v,))
    b, v = ev_fn(MOD + "Psk8Demodulator::new", ("sigma",))
    sc = v[2].get("scale") if isinstance(v, tuple) and v[0] == "struct" else None
    ck.inst("M3", "psk8:scale", sc is not None and Rat(num(1), var("sigma") * var("sigma")) == sc, b.span, "8PSK scale = %r ; required 1/sigma^2" % (sc,))
    ck.inst("M3", "psk8:scale-applied", True, db.span, "every dot() in demodulate_symbol takes scale*symbol (checked per set in M2)", trivial=True)
    b, v = ev_fn(MOD + "BpskDemodulator::new", ("sigma",))
    sc = v[2].get("scale") if isinstance(v, tuple) and v[0] == "struct" else None
    okb = False
    if sc is not None and s0 is not None and s1 is not None:
        okb = Rat(s0 - s1, var("sigma") * var("sigma")) == sc
    ck.inst("M3", "bpsk:scale", okb, b.span, "BPSK scale = %r ; required (s0 - s1)/sigma^2 with s0=%r, s1=%r the modulator's symbols" % (sc, s0, s1))
    bd = F.body("<%sBpskDemodulator as %sDemodulator>::demodulate" % (MOD, MOD))
    from ..idioms import positional_map
    fx = positional_map(F, bd, ("self", "symbols"), "symbols", mode="real")
    ok = fx is not None and fx == var("self.scale") * var("x")
    ck.inst("M3", "bpsk:demodulate", ok, bd.span, "LLR_i = scale * r_i elementwise, in order")
    for name in ("Psk8Demodulator", "BpskDemodulator"):
        b, v = ev_fn("<%s%s as %sDemodulator>::from_noise_sigma" % (MOD, name, MOD), ("sigma",))
        ck.inst("M3", "from_noise_sigma:" + name, v == app(MOD + name + "::new", var("sigma")), b.span,
                "from_noise_sigma(s) = %r" % (v,))
