"""C18 - each decoder implementation name builds the arithmetic and schedule it names.

Pure table agreement: the four tables (build, parse, show, clap) are extracted from the
type-checked HIR (and the build table again from MIR), then compared with each other and
with the naming law.
"""
import re

from ..extract import AnalysisError
from ..facts import walk, strip, callee, callee_inst, calls_to, lit_value, local_name
from ..tables import match_rows, find_matches, value_path, last_seg, diverges_with_err, is_catch_all

LEVEL = "proof"
ENUM = "decoder::factory::DecoderImplementation"
TRAIT_ARITH = "decoder::arithmetic::DecoderArithmetic"
SCHED_RX = re.compile(r"decoder::(flooding|horizontal_layered)::Decoder<decoder::arithmetic::(\w+)>")


def impl_fn(F, trait, name, enum=ENUM):
    return F.body("<%s as %s>::%s" % (enum, trait, name))


_FACTS = [None]


def the_match(body, what):
    ms = [m for m in find_matches(body.value) if len(m["arms"]) >= 3]
    if not ms and _FACTS[0] is not None:
        # the table may live in a private helper the function delegates to (e.g. Display::fmt writing self.name())
        F = _FACTS[0]
        for c in walk(body.value):
            if c.get("k") in ("call", "mcall"):
                hb = F.private_helper(callee(c) or "", "decoder::factory::")
                if hb is not None:
                    ms += [m for m in find_matches(hb.value) if len(m["arms"]) >= 3]
    if len(ms) != 1:
        raise AnalysisError("%s: expected exactly one table-like `match`, found %d" % (what, len(ms)))
    return ms[0]


def build_table(body):
    """variant -> (schedule, arithmetic, extra_calls) from the arms of build_decoder."""
    m = the_match(body, body.path)
    tab = {}
    for key, guard, arm_body, arm in match_rows(m):
        sched = arith = None
        extra = []
        ctor_ok = False
        for c in walk(arm_body):
            if c.get("k") not in ("call", "mcall"):
                continue
            cal = callee(c) or ""
            mm = SCHED_RX.fullmatch(c.get("ty", ""))
            if mm and re.fullmatch(r"decoder::(flooding|horizontal_layered)::Decoder::<A>::new", cal):
                sched, arith = mm.group(1), mm.group(2)
                # the arithmetic argument must be a freshly constructed <Arith>::new()/default()
                a = strip(c["args"][1]) if len(c["args"]) == 2 else {}
                ac = callee(a) if a.get("k") in ("call", "mcall") else None
                ctor_ok = bool(ac) and re.fullmatch(
                    r"(decoder::arithmetic::%s::new|<decoder::arithmetic::%s as std::default::Default>::default|std::default::Default::default)" % (arith, arith), ac) is not None
            elif cal in ("std::boxed::Box::<T>::new",) or re.fullmatch(r"decoder::arithmetic::\w+::new", cal) \
                    or cal == "std::default::Default::default":
                pass
            else:
                extra.append(cal)
        tab[key] = {"sched": sched, "arith": arith, "extra": extra, "ctor_ok": ctor_ok,
                    "guard": guard is not None, "site": arm["sp"]}
    return tab


def build_table_mir(body, adt):
    """Cross-check: discriminant value -> (schedule, arithmetic) from MIR SwitchInt + resolved callee."""
    mir = body.mir
    blocks = mir["blocks"]
    discr_names = {v["discr"]: v["name"] for v in adt["variants"]}
    out = {}
    for bb in blocks:
        t = bb["term"]
        if t["k"] != "switch" or len(t["targets"]) < 3:
            continue
        for val, tgt in t["targets"]:
            seen = set()
            cur = tgt
            found = None
            while cur is not None and cur not in seen and found is None:
                seen.add(cur)
                tt = blocks[cur]["term"]
                if tt["k"] == "call":
                    fty = tt["func"].get("ty", "")
                    mm = re.search(r"\{decoder::(flooding|horizontal_layered)::Decoder::<decoder::arithmetic::(\w+)>::new\}", fty)
                    if mm:
                        found = (mm.group(1), mm.group(2))
                    cur = tt.get("target")
                elif tt["k"] in ("goto", "drop", "assert"):
                    cur = tt.get("target")
                else:
                    cur = None
            out[discr_names.get(val, val)] = found
        # with 36 of 36 variants listed the last one may be the `otherwise` edge
    return out


def parse_delegation(body):
    """FromStr written as a delegation to the clap-derived parser: <Self as ValueEnum>::from_str(s, ignore_case).
    Returns the ignore_case argument node when that is the whole parser, else None."""
    calls = [c for c in walk(body.value) if c.get("k") in ("call", "mcall") and (callee(c) or "") == "clap::ValueEnum::from_str"]
    if len(calls) == 1 and not [m for m in find_matches(body.value) if len(m["arms"]) >= 3]:
        return calls[0]
    return None


def parse_via_display(F, body):
    """FromStr written as the inverse of Display: the first of value_variants() whose to_string() equals s, else Err.
    Returns True when the whole parser has that form."""
    from ..trace import Tracer
    from ..symx import var, app, single_atom, atom_fn, atom_args, Poly, canon_cond
    if [m for m in find_matches(body.value) if len(m["arms"]) >= 3]:
        return False
    t = Tracer(F, "NONE", inline=lambda p: F.private_helper(p, "decoder::factory::"))
    env = {}
    t.bind(body.params[0], var("s"), env)
    try:
        v = t.eval(body.value, env)
    except Exception:
        return False
    a = single_atom(v) if isinstance(v, Poly) else None
    from ..symx import unkey
    if a and atom_fn(a) == "match" and len(a) == 4 and isinstance(atom_args(a)[0], Poly):
        # o.ok_or(e) in normal form: match o { Some(v) => Ok(v), None => Err(e) }
        arms = {k: unkey(x) for k, x in a[3]}
        o_ = atom_args(a)[0]
        some = [k for k in arms if k.startswith("('Some'")]
        none = [k for k in arms if k not in some]
        if not (len(some) == 1 and len(none) == 1 and arms[some[0]] == ("ctor", "Ok", [app("payload0", o_)]) and
                isinstance(arms[none[0]], tuple) and arms[none[0]][:2] == ("ctor", "Err")):
            return False
        f = single_atom(o_)
    elif not (a and atom_fn(a) in ("std::option::Option::<T>::ok_or", "std::option::Option::<T>::ok_or_else")):
        return False
    else:
        f = single_atom(atom_args(a)[0]) if isinstance(atom_args(a)[0], Poly) else None
    if not (f and atom_fn(f) == "std::iter::Iterator::find"):
        return False
    src, clo = f[2], f[3]
    if src != ("iterdesc", ("elems", ("P", app("clap::ValueEnum::value_variants")))):
        return False
    from ..idioms import as_closure
    from ..symx import Unsupported
    try:
        clv = as_closure(F, t, clo)
    except Unsupported:
        return False
    if not (isinstance(clv, tuple) and clv and clv[0] == "closure"):
        return False
    pv = Tracer(F, "NONE").apply(clv, [var("c")])
    c, pol = canon_cond(pv, True) if isinstance(pv, Poly) else (None, None)
    ca = single_atom(c) if isinstance(c, Poly) else None
    if not (ca and atom_fn(ca) in ("eq", "op_eq") and pol):
        return False
    sides = set(map(repr, atom_args(ca)))
    return sides == {repr(app("std::string::ToString::to_string", var("c"))), repr(var("s"))}


def parse_table(body):
    m = the_match(body, body.path)
    tab = {}
    wild = None
    for key, guard, arm_body, arm in match_rows(m):
        if is_catch_all(key):
            wild = {"err": diverges_with_err(arm_body), "site": arm["sp"]}
        else:
            tab.setdefault(key, []).append({"variant": value_path(arm_body), "guard": guard is not None,
                                            "site": arm["sp"]})
    return tab, wild


def show_table(body):
    m = the_match(body, body.path)
    tab = {}
    for key, guard, arm_body, arm in match_rows(m):
        tab[key] = {"text": lit_value(arm_body) if strip(arm_body).get("k") == "lit" else None,
                    "guard": guard is not None, "site": arm["sp"]}
    return tab


def clap_table(body):
    m = the_match(body, body.path)
    tab = {}
    for key, guard, arm_body, arm in match_rows(m):
        news = calls_to(arm_body, r"clap::builder::PossibleValue::new")
        helps = calls_to(arm_body, r"clap::builder::PossibleValue::help")
        text = lit_value(news[0]["args"][0]) if len(news) == 1 else None
        hidden = bool(calls_to(arm_body, r"clap::builder::PossibleValue::hide"))
        aliases = calls_to(arm_body, r"clap::builder::PossibleValue::alias(es)?")
        tab[key] = {"text": text, "help": lit_value(helps[0]["args"][0]) if helps else None,
                    "hidden": hidden, "aliases": len(aliases), "site": arm["sp"]}
    return tab


def run(ck, F, tier):
    _FACTS[0] = F
    ck.explanation = (
        "Decided: the whole of C18 as table agreement - the 36-variant enum, FromStr, Display, "
        "clap ValueEnum and the factory `build_decoder` are each read as a finite table from the "
        "type-checked program and compared pairwise and against the naming law (HL prefix <=> "
        "horizontal_layered::Decoder, remainder of the name = arithmetic type). 'Behaves exactly like the "
        "generic decoder constructed directly' is literal here: every factory arm is only "
        "Box::new(<schedule>::Decoder::new(h, <Arith>::new())), which the rule checks (no other call in "
        "the arm). Not decided: nothing structural; the behaviour of the generic decoders themselves is C01/C03.")
    ck.rule("T0", "enum DecoderImplementation has 36 fieldless variants")
    ck.rule("T1", "factory arm for variant v builds <schedule>::Decoder::new(h, <Arith>::new()) where "
                  "schedule/Arith follow from v's name (HL prefix = horizontal_layered) and nothing else is called")
    ck.rule("T1m", "MIR cross-check: SwitchInt on the discriminant reaches the same resolved callee")
    ck.rule("T2", "FromStr: string s maps to the variant whose Display text is s; exactly one arm per string; "
                  "catch-all arm returns Err")
    ck.rule("T3", "Display: variant v prints its own name; parse(show(v)) = v")
    ck.rule("T4", "clap ValueEnum: possible value text = Display text, not hidden, no aliases; value_variants lists "
                  "every variant exactly once")
    ck.rule("T5", "documentation of v links the arithmetic type built and names the schedule built")
    ck.rule("T6", "every arithmetic named is one of the impls of DecoderArithmetic")
    ck.rule("T7", "c_api and cli obtain a DecoderImplementation only by str::parse / clap ValueEnum and build "
                  "only through DecoderFactory::build_decoder")
    ck.rule("T8", "the trait object behaves like the generic decoder: LdpcDecoder::decode forwards (self, llrs, max_iterations) unchanged")
    ck.trust("rustc nightly HIR/MIR of /repo (type-checked with the repository's Cargo.lock)")
    ck.trust("match semantics: first matching arm wins; string patterns compare by equality")

    adt = F.adt(ENUM)
    variants = [v["name"] for v in adt["variants"]]
    ck.floor("T0", "enum variants", len(variants), 36)
    ck.inst("T0", "variant-count", len(variants) == 36 and all(not v["fields"] for v in adt["variants"]),
            adt["span"], "%d variants" % len(variants), {"variants": variants})

    arith_impls = {last_seg(i["self_ty"]) for i in F.impls_of(TRAIT_ARITH)}
    ck.floor("T6", "impl DecoderArithmetic", len(arith_impls), 24)

    b_build = impl_fn(F, "decoder::factory::DecoderFactory", "build_decoder")
    b_parse = impl_fn(F, "std::str::FromStr", "from_str")
    b_show = impl_fn(F, "std::fmt::Display", "fmt")
    b_clap = impl_fn(F, "clap::ValueEnum", "to_possible_value")
    b_vars = impl_fn(F, "clap::ValueEnum", "value_variants")

    T_build = build_table(b_build)
    T_mir = build_table_mir(b_build, adt)
    deleg = parse_delegation(b_parse)
    if deleg is not None:
        # the accepted strings are then the clap possible values (T4 ties those to the Display texts); matching must be exact
        flag = lit_value(deleg["args"][-1]) if deleg.get("args") else None
        exact = flag is False
        ck.inst("T2", "parse:delegates-to-clap-exact", exact, deleg["sp"],
                "FromStr delegates to ValueEnum::from_str(s, ignore_case = %r): %s" % (
                    flag, "exact names only" if exact else "strings that are not one of the 36 names (other letter case) are accepted"))
        T_clap0 = clap_table(b_clap)
        T_parse = {row["text"]: [{"variant": k, "guard": False, "site": row["site"]}] for k, row in T_clap0.items() if row["text"] is not None}
        wild = {"err": True, "site": deleg["sp"]}
    elif parse_via_display(F, b_parse):
        # the parser is by construction the inverse of Display on the listed variants (T3: texts; T4: value_variants lists all 36)
        ck.inst("T2", "parse:inverse-of-display", True, b_parse.span,
                "FromStr returns the variant of value_variants() whose Display text equals the string exactly, and Err otherwise")
        T_show0 = show_table(b_show)
        T_parse = {row["text"]: [{"variant": k, "guard": False, "site": row["site"]}] for k, row in T_show0.items() if row["text"] is not None}
        wild = {"err": True, "site": b_parse.span}
    else:
        T_parse, wild = parse_table(b_parse)
    T_show = show_table(b_show)
    T_clap = clap_table(b_clap)
    for name, tab in (("build", T_build), ("show", T_show), ("clap", T_clap)):
        ck.floor("T0", "%s table rows" % name, len([k for k in tab if not is_catch_all(k)]), 36)
    ck.floor("T2", "parse table rows", len(T_parse), 36)

    # Display writes the table text and nothing else: a single "{}" placeholder whose argument is the table (or the helper holding it)
    from ..symx import parse_fmt_block
    fmts = [parse_fmt_block(x) for x in walk(b_show.value) if x.get("k") == "block" and x.get("ty", "").startswith("std::fmt::Arguments")]
    fmts = [f for f in fmts if f is not None]
    wstr = [c for c in walk(b_show.value) if c.get("k") == "mcall" and c["m"] in ("write_str", "pad") and "Formatter" in (c.get("def") or "")]
    tmpl_ok = (len(fmts) == 1 and fmts[0][0] == "{}" and len(fmts[0][1]) == 1) or (not fmts and len(wstr) == 1)
    ck.inst("T3", "show:template", tmpl_ok, b_show.span, "Display::fmt writes exactly the table text (format template %r)" % (fmts[0][0] if fmts else "write_str/pad",))

    def expected(v):
        if v.startswith("HL"):
            return "horizontal_layered", v[2:]
        return "flooding", v

    for v in variants:
        # T1: build
        row = T_build.get(v)
        if row is None:
            covered = any(is_catch_all(k) for k in T_build)
            ck.fail("T1", "build:" + v, b_build.span, "variant has no factory arm" + (" (falls into a catch-all)" if covered else ""))
        else:
            es, ea = expected(v)
            ok = (row["sched"], row["arith"]) == (es, ea) and not row["extra"] and row["ctor_ok"] and not row["guard"]
            ck.inst("T1", "build:" + v, ok, row["site"],
                    "builds %s::Decoder<%s>%s; name says %s::Decoder<%s>" % (
                        row["sched"], row["arith"],
                        "" if not row["extra"] else " plus calls %s" % row["extra"], es, ea),
                    {"variant": v, "built": [row["sched"], row["arith"]], "expected": [es, ea]})
            mrow = T_mir.get(v)
            if mrow is not None:
                ck.inst("T1m", "build-mir:" + v, tuple(mrow) == (es, ea), row["site"],
                        "MIR callee %s::Decoder<%s>" % mrow, {"variant": v, "mir": list(mrow)})
            ck.inst("T6", "arith:" + v, row["arith"] in arith_impls, row["site"],
                    "%s %s an impl of DecoderArithmetic" % (row["arith"], "is" if row["arith"] in arith_impls else "is NOT"))
        # T3: show
        srow = T_show.get(v)
        if srow is None:
            ck.fail("T3", "show:" + v, b_show.span, "variant has no Display arm")
            text = None
        else:
            text = srow["text"]
            ck.inst("T3", "show:" + v, text == v and not srow["guard"], srow["site"],
                    "Display prints %r for variant %s" % (text, v), {"variant": v, "text": text})
        # T2: parse(show(v)) == v
        prow = T_parse.get(text) if text is not None else None
        if prow is None:
            ck.fail("T2", "parse:" + v, b_parse.span, "string %r (Display of %s) is not accepted by FromStr" % (text, v))
        else:
            ok = len(prow) == 1 and prow[0]["variant"] == v and not prow[0]["guard"]
            ck.inst("T2", "parse:" + v, ok, prow[0]["site"],
                    "FromStr maps %r to %s" % (text, [p["variant"] for p in prow]),
                    {"string": text, "variants": [p["variant"] for p in prow]})
        # T4: clap
        crow = T_clap.get(v)
        if crow is None:
            ck.fail("T4", "clap:" + v, b_clap.span, "variant has no possible value")
        else:
            ok = crow["text"] == v and not crow["hidden"] and crow["aliases"] == 0
            ck.inst("T4", "clap:" + v, ok, crow["site"],
                    "clap offers %r (hidden=%s, aliases=%d) for %s" % (crow["text"], crow["hidden"], crow["aliases"], v),
                    {"variant": v, "text": crow["text"]})
        # T5: docs
        doc = " ".join(next(x for x in adt["variants"] if x["name"] == v)["docs"].split())
        es, ea = expected(v)
        links = re.findall(r"\[`(\w+)`\]", doc)
        says_hl = "horizontal layered" in doc.lower()
        says_fl = "flooding" in doc.lower()
        ok = (ea in links[:1]) and ((es == "horizontal_layered") == says_hl) and ((es == "flooding") == says_fl)
        ck.inst("T5", "doc:" + v, ok, adt["span"],
                "doc links %s and says %s; name means %s/%s" % (
                    links[:1], "horizontal layered" if says_hl else ("flooding" if says_fl else "no schedule"), es, ea),
                {"variant": v, "doc": doc[:160]})
    # strings accepted by FromStr that no variant prints
    shown = {r["text"] for r in T_show.values()}
    for s, prow in T_parse.items():
        if s not in shown:
            ck.fail("T2", "parse-extra:%s" % s, prow[0]["site"],
                    "FromStr accepts %r which is not the Display text of any variant" % (s,))
    ck.inst("T2", "parse:catch-all", wild is not None and wild["err"], (wild or {}).get("site", b_parse.span),
            "strings outside the table are rejected with Err" if wild and wild["err"] else "no rejecting catch-all arm")
    # value_variants
    arr = [n for n in walk(b_vars.value) if n.get("k") == "array"]
    if len(arr) != 1:
        raise AnalysisError("value_variants: expected one array literal")
    listed = [value_path(e) for e in arr[0]["es"]]
    ck.inst("T4", "clap:value_variants", sorted(listed) == sorted(variants), b_vars.span,
            "value_variants lists %d entries, %d distinct, enum has %d" % (len(listed), len(set(listed)), len(variants)),
            {"listed": len(listed)})

    # T7: consumers
    n7 = 0
    for b in F.find_bodies(r"(c_api|cli|simulation)::.*"):
        if not b.hir:
            continue
        for c in walk(b.value):
            if c.get("k") in ("call", "mcall"):
                cal = callee(c) or ""
                if re.fullmatch(r"decoder::(flooding|horizontal_layered)::Decoder::<A>::new", cal):
                    n7 += 1
                    ck.fail("T7", "direct-construction:" + b.path, c["sp"],
                            "%s constructs a decoder directly, bypassing the factory" % b.path)
                if cal == "decoder::factory::DecoderFactory::build_decoder":
                    n7 += 1
                    ck.ok("T7", "build_decoder-call:" + b.path, c["sp"], "implementation built through the factory trait")
            if c.get("k") == "path" and c.get("res") == "def" and (c.get("def") or "").startswith(ENUM + "::") \
                    and c.get("dk", "").startswith("Ctor"):
                n7 += 1
                ck.fail("T7", "hardwired-variant:" + b.path, c["sp"],
                        "%s names variant %s directly instead of parsing the user's string" % (b.path, c["def"]))
    dn = F.body("c_api::decoder::Decoder::new")
    parses = [c for c in calls_to(dn.value, r"core::str::<impl str>::parse|std::str::<impl str>::parse")
              if ENUM in "".join(c.get("gargs", []))]
    ck.inst("T7", "c_api-parse", len(parses) == 1 and local_name(parses[0]["recv"]) is not None
            and len(dn.params) >= 2 and local_name(parses[0]["recv"]) == dn.params[1].get("name"),
            dn.span, "C constructor parses its `implementation` argument with FromStr (%d parse calls)" % len(parses))
    ck.floor("T7", "factory call sites", n7, 2)
    # the name table is the whole parser: from_str rejects a string only because no table entry matches it (no other test - length,
    # prefix, case - can turn a listed name away)
    from ..trace import Tracer as _Tr
    from ..symx import var, Poly, single_atom, atom_fn, atom_args, Unsupported
    fsb = F.body("<decoder::factory::DecoderImplementation as std::str::FromStr>::from_str")
    tfs = _Tr(F, "NONE", inline=lambda p_: F.private_helper(p_, "decoder::factory::"))
    envf = {}
    tfs.bind(fsb.params[0], var("s"), envf)
    try:
        tfs.eval(fsb.value, envf)
        foreign = []
        for e_ in tfs.events:
            if e_.callee in ("<return>", "<return-inner>", "<panic>"):
                for g_, p_ in e_.guards:
                    ga_ = single_atom(g_) if isinstance(g_, Poly) else None
                    subj_ok = ga_ is not None and atom_fn(ga_) in ("matches", "eq", "op_eq") and any(
                        isinstance(x_, Poly) and x_ == var("s") for x_ in atom_args(ga_))
                    if not subj_ok:
                        foreign.append(repr(g_)[:80])
        ck.inst("T2", "from_str:table-is-the-whole-parser", not foreign, fsb.span,
                "every rejecting exit of from_str is conditioned on comparisons of the whole string with table entries only" +
                ((" ; but also on " + " | ".join(foreign[:2])) if foreign else ""))
    except Unsupported:
        pass        # other spellings (delegation to clap, search over the Display names) are read by the T2 rules above
    # T8: what the factory returns is used through LdpcDecoder::decode, which must forward to the generic decoder unchanged
    from .c01 import forwarding_rule
    forwarding_rule(ck, F, "T8")


def selftest(C):
    """Canary: a factory with one mis-wired arm must be caught, a consistent one must pass."""
    from ..report import Check
    for mod, want_bad in (("c18::good", 0), ("c18::bad", 1)):
        body = C.body("<%s::Impl as %s::Factory>::build" % (mod, mod))
        tab = {}
        for key, guard, arm_body, arm in match_rows(the_match(body, body.path)):
            ty = [c.get("ty", "") for c in walk(arm_body) if c.get("k") == "call" and "Dec<" in c.get("ty", "") and "Box" not in c.get("ty", "")]
            tab[key] = ty[0] if ty else None
        bad = 0
        for v, ty in tab.items():
            sched = "layered" if v.startswith("HL") else "flooding"
            ar = v[2:] if v.startswith("HL") else v
            if ty != "%s::%s::Dec<%s::%s>" % (mod, sched, mod, ar):
                bad += 1
        if (bad > 0) != bool(want_bad):
            raise AnalysisError("C18 canary %s: expected %s mis-wired arms, rule found %d" % (mod, "some" if want_bad else "no", bad))
