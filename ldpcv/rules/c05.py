"""C05 - variable updates are exact saturating sums; 8-bit arithmetic never overflows.

V1 is an interval abstract interpretation (ldpcv/absint.py) of every 8-bit arithmetic body under the property's
preconditions; each arithmetic operation, narrowing cast, abs/neg, assertion and invariant-carrying store is an obligation.
"""
import re

from ..extract import AnalysisError
from ..facts import walk, strip, callee
from ..absint import (IntervalEval, AInt, AFloat, ABool, AOpt, AStruct, ATuple, ASlice, AIter, AClosure, AFn, ATop, UNIT,
                      Unsupported as AUnsupported, INF, join)
from ..symx import SymEval, Poly, Unsupported, app, var, num, single_atom, atom_fn, atom_args
from ..trace import Tracer

LEVEL = "proof"
ARI = "decoder::arithmetic::"
TRAIT = ARI + "DecoderArithmetic"
MAXDEG = 200
VARLIM = 127 * 201


class Sink(AFn):
    pass


class Eval8(IntervalEval):
    def apply(self, fv, args, n):
        if isinstance(fv, Sink):
            return UNIT
        return super().apply(fv, args, n)


def mk_eval(F, ty):
    inv = {("Message", "value"): AInt(-127, 127, "i8"), ("SentMessage", "value"): AInt(-127, 127, "i8"),
           ("Message", "source"): AInt(0, 2 ** 64 - 1, "usize"), ("SentMessage", "dest"): AInt(0, 2 ** 64 - 1, "usize"),
           ("*elem", "i8"): AInt(-127, 127, "i8")}
    ev = Eval8(F, inline=lambda p: F.bodies.get(p) if p and (p.startswith(ARI + ty + "::") or p == ARI + "send_var_messages_no_clip") else None,
               field_inv=inv)
    return ev


def analyse(F, ev, path, args, ck, label, ret_check=None):
    b = F.body(path)
    env = {}
    for p, a in zip(b.params, args):
        ev.bind(p, a, env)
    ev.fn_stack.append(path)
    ev.returns = []
    try:
        v = ev.eval(b.value, env)
    except AUnsupported as e:
        raise AnalysisError("%s: construct outside the abstract interpreter's model: %s" % (path, e))
    finally:
        ev.fn_stack.pop()
    for r in ev.returns:
        v = join(v, r)
    return b, v


def layered_update_rule(ck, F, ty, rule="V5"):
    """layered update of one arithmetic: vars[d] <- vars[d] - old message + new message, in the loop that stores the new message"""
    # V5
    path = "<%s%s as %s>::update_check_messages_and_vars" % (ARI, ty, TRAIT)
    b = F.body(path)
    t5 = Tracer(F, "NONE", mode="int")
    env = {}
    for p, nm in zip(b.params, ("self", "check_messages", "vars")):
        t5.bind(p, var(nm), env)
    try:
        t5.eval(b.value, env)
    except Unsupported as e:
        raise AnalysisError("%s: unreadable shape: %s" % (path, e))
    asg = [e for e in t5.events if e.callee == "<assign>"]
    var_st = [e for e in asg if "index(" in repr(e.args[0]) and "vars" in repr(e.args[0])[:40]]
    msg_st = [e for e in asg if repr(e.args[0]).startswith(".value(")]
    ok = len(var_st) == 1 and len(msg_st) == 1
    why = "expected one store to vars[..] and one to msg.value (found %d, %d)" % (len(var_st), len(msg_st))
    if ok:
        vs, ms = var_st[0], msg_st[0]
        tgt = vs.args[0]
        new = ms.args[1]
        is_op = vs.node.get("k") == "assignop"
        rhs = vs.args[1]
        opn = vs.node.get("op", "").replace("Assign", "") if is_op else ""
        if is_op and isinstance(rhs, Poly) and isinstance(tgt, Poly):
            total = tgt + rhs if opn == "Add" else (tgt - rhs if opn == "Sub" else None)     # any other compound operator is not an update of this form
        else:
            total = rhs
        ta = single_atom(tgt)
        d = atom_args(ta)[1] if ta and atom_fn(ta) == "index" else None
        oldv = None
        if isinstance(d, Poly):
            da = single_atom(d)
            if da and da[0] == "v" and da[1].endswith(".dest"):
                oldv = var(da[1][:-5] + ".value")
            elif da and atom_fn(da) == ".dest":
                oldv = app(".value", atom_args(da)[0])
        ok = isinstance(total, Poly) and isinstance(new, Poly) and oldv is not None and total == tgt - oldv + new and repr(vs.loops) == repr(ms.loops)
        why = "vars[d] <- %s ; msg.value <- new ; required vars[d] - old msg.value + new message, in the same loop as the message store (%s)" % (repr(total)[:120], ok)
    ck.inst(rule, ty + ":layered-update", ok, b.span, why)



def extrinsic_only_rule(ck, F, ty, rule="V7"):
    """layered check update: the old check message enters the computation only as part of the extrinsic value vars[d] - msg.value
    (the message to a check is the variable's total minus that check's own contribution); the two stores are V5's business"""
    path = "<%s%s as %s>::update_check_messages_and_vars" % (ARI, ty, TRAIT)
    b = F.body(path)
    t7 = Tracer(F, "NONE", mode="int")
    env = {}
    for p, nm in zip(b.params, ("self", "check_messages", "vars")):
        t7.bind(p, var(nm), env)
    try:
        t7.eval(b.value, env)
    except Unsupported as e:
        raise AnalysisError("%s: unreadable shape: %s" % (path, e))
    vals = []
    for st in t7.assign_sites:
        vals.append(st[1])
        vals += [g for g, _ in st[3]]
    for e in t7.events:
        vals += [g for g, _ in e.guards]
        if e.callee == "<assign>":
            is_var_store = "index(" in repr(e.args[0]) and "vars" in repr(e.args[0])[:40]
            if not is_var_store:
                vals.append(e.args[1])
        else:
            vals += list(e.args)

    def polys(v):
        if isinstance(v, Poly):
            yield v
            for mono in v.t:
                for a, _ in mono:
                    if a[0] == "f":
                        for k in a[2:]:
                            yield from polys(k)
        elif isinstance(v, (tuple, list)):
            for x in v:
                yield from polys(x)
    n, bad = 0, []
    for v in vals:
        for p_ in polys(v):
            for mono, c in p_.t.items():
                if len(mono) == 1 and mono[0][1] == 1 and atom_fn(mono[0][0]) == ".value":
                    n += 1
                    el = atom_args(mono[0][0])[0]
                    paired = any(len(m2) == 1 and m2[0][1] == 1 and atom_fn(m2[0][0]) == "index" and atom_args(m2[0][0])[0] == var("vars") and
                                 atom_args(m2[0][0])[1] == app(".dest", el) and c2 == -c for m2, c2 in p_.t.items())
                    if not paired and repr(p_)[:160] not in bad:
                        bad.append(repr(p_)[:160])
    ck.inst(rule, ty + ":extrinsic-only", n >= 1 and not bad, b.span,
            "every read of an old check message in the layered check rule is part of vars[dest] - msg.value (%d reads)%s" % (
                n, (" ; but it is also read as " + " | ".join(bad[:2])) if bad else ""))


def stage_agreement_rule(ck, F, ty, rule="V8"):
    """sibling agreement of the per-message stage: when the flooding check rule and the layered check rule both fill the same scratch
    vector of the arithmetic with one value per incoming message (tanh(x/2), phi(|x|), ..), it is the same function of the message -
    of msg.value in the flooding rule, of the extrinsic vars[msg.dest] - msg.value in the layered one"""
    from ..symx import replace_atom, vkey
    X = var("$x")
    stages = {}
    for meth, names in (("send_check_messages", ("self", "var_messages", "send")),
                        ("update_check_messages_and_vars", ("self", "check_messages", "vars"))):
        b = F.body("<%s%s as %s>::%s" % (ARI, ty, TRAIT, meth))
        t8 = Tracer(F, "NONE", mode="int")
        env = {}
        for p_, nm in zip(b.params, names):
            t8.bind(p_, var(nm), env)
        try:
            t8.eval(b.value, env)
        except Unsupported as e:
            raise AnalysisError("%s: unreadable shape: %s" % (meth, e))
        for e in t8.events:
            if e.callee != "<assign>" or not isinstance(e.args[1], Poly) or not isinstance(e.args[0], Poly):
                continue
            m = re.match(r"elem\(\('iterdesc', \('elems', \('P', self\.(\w+)\)\)\), ", repr(e.args[0]))
            if not m or len(e.loops) != 1:
                continue
            v = e.args[1]
            # the per-message input
            atoms = []
            _collect_atoms(v, atoms)
            if meth == "send_check_messages":
                for a in atoms:
                    if atom_fn(a) == ".value":
                        v = replace_atom(v, a, X)
            else:
                for a in atoms:
                    if atom_fn(a) == "index" and atom_args(a)[0] == var("vars"):
                        d = atom_args(a)[1]
                        da = single_atom(d) if isinstance(d, Poly) else None
                        if da and atom_fn(da) == ".dest":
                            v = replace_atom(v, a, X + app(".value", atom_args(da)[0]))
            stages.setdefault(m.group(1), {})[meth] = (_renorm(v), e.site)
    for fld, d in sorted(stages.items()):
        if len(d) != 2:
            continue
        (vf, _), (vl, sl) = d["send_check_messages"], d["update_check_messages_and_vars"]
        ck.inst(rule, "%s:%s:stage-agreement" % (ty, fld), vf == vl, sl,
                "self.%s[i]: flooding rule stores %s of the message x, layered rule stores %s of the extrinsic x ; required the same function" % (
                    fld, repr(vf)[:100], repr(vl)[:100]))
    return sum(1 for d in stages.values() if len(d) == 2)


def _collect_atoms(v, out):
    if isinstance(v, Poly):
        for mono in v.t:
            for a, _ in mono:
                if a[0] == "f":
                    out.append(a)
                    for k in a[2:]:
                        _collect_atoms(k, out)
    elif isinstance(v, (tuple, list)):
        for x in v:
            _collect_atoms(x, out)


def _renorm(v):
    """rebuild a value bottom-up so that |p| and |-p| have one spelling also after a substitution"""
    from ..symx import num_call
    if isinstance(v, Poly):
        out = Poly()
        for mono, c in v.t.items():
            term = Poly.const(c)
            for a, e in mono:
                if a[0] == "f":
                    args = [(_renorm(k[1]) if isinstance(k, tuple) and len(k) == 2 and k[0] == "P" else k) for k in a[2:]]
                    if a[1] == "abs" and len(args) == 1 and isinstance(args[0], Poly):
                        p0 = args[0]
                        first = min(p0.t.items(), key=lambda kv: repr(kv[0])) if p0.t else None
                        if first is not None and first[1] < 0:
                            p0 = -p0
                        base = app("abs", p0)
                    elif all(isinstance(k, Poly) for k in args):
                        base = app(a[1], *args)
                    else:
                        base = Poly.atom(a)
                else:
                    base = Poly.atom(a)
                for _ in range(e):
                    term = term * base
            out = out + term
        return out
    return v


def _v4(ck, F, eight):
    # ---- V4 -------------------------------------------------------------------------------------------------
    for ty in sorted(eight):
        want = ("Jones" in ty, "PartialHardLimit" in ty, "Deg1Clip" in ty)
        ev = mk_eval(F, ty)
        got = {"jones": set(), "hardlimit": set(), "deg1": set()}
        nsites = 0
        for meth in ("send_var_messages", "send_check_messages", "update_check_messages_and_vars"):
            b = F.body("<%s%s as %s>::%s" % (ARI, ty, TRAIT, meth))
            for n in walk(b.value):
                if n.get("k") != "call":
                    continue
                f = strip(n["f"])
                is_hook = f.get("k") == "closure" or (f.get("k") == "path" and f.get("def") == "std::convert::identity")
                if not is_hook:
                    continue
                nsites += 1
                fv = AClosure(f, {}) if f.get("k") == "closure" else AFn("std::convert::identity")
                def call(*a):
                    ev.obls = []
                    return ev.apply(fv, list(a), n)
                if len(n["args"]) == 2:
                    r1 = call(AInt(127, 127, "i8"), ABool(True, False))
                    r2 = call(AInt(127, 127, "i8"), ABool(False, True))
                    r3 = call(AInt(-127, -127, "i8"), ABool(True, False))
                    clips = (repr(r1), repr(r2), repr(r3)) == ("i8[116,116]", "i8[127,127]", "i8[-116,-116]")
                    ident = (repr(r1), repr(r2), repr(r3)) == ("i8[127,127]", "i8[127,127]", "i8[-127,-127]")
                    got["deg1"].add("clip" if clips else ("identity" if ident else "other:%r" % ((r1, r2, r3),)))
                    ck.inst("V4", "%s:deg1-placement" % ty, meth == "send_var_messages" and "input_llr" in repr(strip(n["args"][0]).get("name", "")), n["sp"],
                            "the degree-one hook is applied to the channel LLR inside the variable rule, before the sum")
                elif meth == "send_var_messages":
                    r1 = call(AInt(1000, 1000, "i16"))
                    r2 = call(AInt(-1000, -1000, "i16"))
                    r3 = call(AInt(5, 5, "i16"))
                    clips = (repr(r1), repr(r2), repr(r3)) == ("i16[127,127]", "i16[-127,-127]", "i16[5,5]")
                    ident = (repr(r1), repr(r2), repr(r3)) == ("i16[1000,1000]", "i16[-1000,-1000]", "i16[5,5]")
                    got["jones"].add("clip" if clips else ("identity" if ident else "other:%r" % ((r1, r2, r3),)))
                else:
                    r1 = call(AInt(100, 100, "i8"))
                    r2 = call(AInt(99, 99, "i8"))
                    r3 = call(AInt(-100, -100, "i8"))
                    r4 = call(AInt(-99, -99, "i8"))
                    hl = (repr(r1), repr(r2), repr(r3), repr(r4)) == ("i8[127,127]", "i8[99,99]", "i8[-127,-127]", "i8[-99,-99]")
                    ident = (repr(r1), repr(r2), repr(r3), repr(r4)) == ("i8[100,100]", "i8[99,99]", "i8[-100,-100]", "i8[-99,-99]")
                    got["hardlimit"].add("limit" if hl else ("identity" if ident else "other:%r" % ((r1, r2, r3, r4),)))
        exp = {"jones": {"clip"} if want[0] else {"identity"}, "hardlimit": {"limit"} if want[1] else {"identity"}, "deg1": {"clip"} if want[2] else {"identity"}}
        ck.inst("V4", ty + ":hooks", got == exp and nsites >= 4, F.body("<%s%s as %s>::send_var_messages" % (ARI, ty, TRAIT)).span,
                "hooks applied (%d call sites): Jones clip %s, partial hard limit %s, degree-one clip %s ; the name says %s" % (
                    nsites, sorted(got["jones"]), sorted(got["hardlimit"]), sorted(got["deg1"]),
                    {k: sorted(v) for k, v in exp.items()}), {"impl": ty})


def run(ck, F, tier, only=None):
    maxdeg = MAXDEG
    ck.explanation = (
        "Decided (S): V1 for each of the 16 8-bit arithmetics, under the property's preconditions (1..%d incoming messages with values in "
        "[-127,127], variable LLRs within +-127*201, any f64 channel LLR incl. NaN and infinities) the interval abstract interpreter "
        "proves every integer +,-,*,neg,abs, narrowing cast and sum free of overflow/wrap, every assert true, and every message or LLR "
        "stored or returned inside [-127,127] (so -128 is never emitted); the A-Min* expression min - lookup(|x-y|) + lookup(x+y) is "
        "relational (needs lookup non-increasing) and is discharged by a reviewed argument, as are the domain preconditions "
        "(check degree >= 2: the expect() sites). V2 the variable rule is input + sum of all incoming values, each outgoing value = clip(total - own), "
        "addressed to msg.source, for all 24 arithmetics; V3 the quantiser returns round(8*llr) saturated at +-127 for every f64; V4 "
        "names say what is applied: the Jones / PartialHardLimit / Deg1Clip hooks are classified by abstract evaluation on singleton "
        "inputs and must match the substrings of the type name, at the documented places; V5 the layered update feeds (variable LLR - old "
        "message) to the check rule and stores variable = that + new message, in all 24 arithmetics. Thorough tier additionally measures, per "
        "arithmetic, the largest degree for which the variable rule's obligations still discharge (a margin, not a verdict). NOT decided: numeric equality layered == flooding beyond this shape." % MAXDEG)
    ck.rule("V1", "interval obligations: no overflow / wrap / -128 / failed assert in the 8-bit bodies")
    ck.rule("V2", "sum-then-subtract shape of the variable rule (24 arithmetics)")
    ck.rule("V3", "quantiser range and shape")
    ck.rule("V4", "hook closures applied match the type name")
    ck.rule("V5", "layered update = extrinsic in, extrinsic + new message out")
    ck.rule("V7", "the old check message is read only inside the extrinsic value vars[dest] - msg.value")
    ck.rule("V8", "a per-message scratch stage filled by both the flooding and the layered check rule is the same function of the message / of the extrinsic")
    ck.rule("V6", "the layered update reads its scratch vector only over the prefix written in the same call (zip with the same message slice; only len()/resize() otherwise)")
    ck.rule("V5b", "8-bit check rules work on quantised (i8, clipped) magnitudes only: abs/min/lookup never see the i16 accumulator")
    ck.trust("interval models of exp, ln_1p, round, abs, min, max, saturating_add, float->int `as` (saturating, NaN -> 0), Iterator::sum over at most %d terms" % maxdeg)
    ck.trust("type-field invariant (assume on load, prove on store): message values, quantised LLRs and scratch entries lie in [-127,127]")
    ck.trust("precondition: check nodes have degree >= 2 with distinct neighbours (the expect() sites), vars[msg.dest] indexes stay in range (topology, C03-F2)")

    impls = [i for i in F.impls_of(TRAIT)]
    ck.floor("V2", "impl DecoderArithmetic", len(impls), 24)
    eight = []
    for im in impls:
        ty = im["self_ty"].rsplit("::", 1)[-1]
        llr = next((m["ty"] for m in im["members"] if m["name"] == "Llr"), None)
        if llr == "i8":
            eight.append(ty)
    ck.floor("V1", "8-bit arithmetics", len(eight), 16)
    if only is not None and set(only) <= {"V4"}:
        _v4(ck, F, eight)        # another property borrows the hook classification only
        return

    msg = lambda: AStruct("Message", {"source": AInt(0, 2 ** 64 - 1, "usize"), "value": AInt(-127, 127, "i8")})
    smsg = lambda: AStruct("SentMessage", {"dest": AInt(0, 2 ** 64 - 1, "usize"), "value": AInt(-127, 127, "i8")})
    total_obl = 0
    for ty in sorted(eight):
        ev = mk_eval(F, ty)
        # table built by new()
        nb, nv = analyse(F, ev, ARI + ty + "::new", [], ck, ty)
        table = nv.fields.get("table") if isinstance(nv, AStruct) else None
        tok = isinstance(table, ASlice) and isinstance(table.elem, AInt) and table.elem.lo >= 1 and table.elem.hi <= 6 and table.maxlen is not None and table.maxlen <= 128
        ck.inst("V1", "%s:table" % ty, tok, nb.span, "lookup table built by new(): %r (required entries in [1,6], at most 128 of them)" % (table,), {"impl": ty})
        if not tok:
            continue
        selfv = AStruct(ty, {"table": table, "_minstars": ASlice(AInt(-127, 127, "i8"), None, 0, "_minstars")})
        ev.field_inv[("Self", "table")] = table
        cases = [
            ("input_llr_quantize", [selfv, AFloat(-INF, INF, True)], "ret127"),
            ("llr_to_var_llr", [selfv, AInt(-127, 127, "i8")], None),
            ("var_llr_to_llr", [selfv, AInt(-VARLIM, VARLIM, "i16")], "ret127"),
            ("llr_to_var_message", [selfv, AInt(-127, 127, "i8")], "ret127"),
            ("send_var_messages", [selfv, AInt(-127, 127, "i8"), ASlice(msg(), maxdeg, 1, "check_messages"), Sink("sink")], "ret127"),
            ("send_check_messages", [selfv, ASlice(msg(), maxdeg, 2, "var_messages"), Sink("sink")], None),
            ("update_check_messages_and_vars", [selfv, ASlice(smsg(), maxdeg, 2, "check_messages"), ASlice(AInt(-VARLIM, VARLIM, "i16"), None, 0, "vars")], None),
        ]
        for meth, args, retc in cases:
            path = "<%s%s as %s>::%s" % (ARI, ty, TRAIT, meth)
            ev.obls = []
            ev.unknown = []
            b, v = analyse(F, ev, path, args, ck, ty)
            if retc == "ret127":
                ev.oblige("return-range", isinstance(v, AInt) and -127 <= v.lo and v.hi <= 127, {"sp": b.span}, "%s returns %r, required within [-127,127]" % (meth, v))
            if ev.unknown:
                raise AnalysisError("%s: library calls without a model: %s" % (path, sorted(set(u[0] for u in ev.unknown))[:5]))
            groups = {}
            for o in ev.obls:
                g = groups.setdefault((o.kind.split(":")[0], o.ok), [])
                g.append(o)
            n_ok = sum(1 for o in ev.obls if o.ok)
            total_obl += len(ev.obls)
            failing = [o for o in ev.obls if not o.ok]
            # classify failures
            real = []
            reviewed = {"unwrap": 0, "aminstar": 0, "vars-store": 0}
            for o in failing:
                if o.kind == "unwrap":
                    reviewed["unwrap"] += 1        # domain precondition: degree >= 2
                elif ty.startswith("Aminstar") and o.kind.startswith("overflow:add") and "133" in o.detail and meth != "send_var_messages":
                    reviewed["aminstar"] += 1      # min - l1 + l2 <= min: relational (lookup non-increasing, x+y >= |x-y|)
                elif o.kind.startswith("store:index:vars"):
                    reviewed["vars-store"] += 1    # vars bound is the call's precondition, not an invariant to re-establish
                else:
                    real.append(o)
            ok = not real
            ck.inst("V1", "%s:%s" % (ty, meth), ok, b.span,
                    "%d obligations, %d proved by intervals, reviewed: %s%s" % (len(ev.obls), n_ok, {k: v for k, v in reviewed.items() if v},
                                                                            "" if ok else "; UNDISCHARGED: " + "; ".join("%s at %s: %s" % (o.kind, o.site, o.detail) for o in real[:3])),
                    {"impl": ty, "method": meth, "obligations": len(ev.obls), "proved": n_ok, "reviewed": reviewed})
            if reviewed["aminstar"]:
                ck.trust("reviewed[%s::%s] A-Min* term x.min(y) - lookup(|x-y|) + lookup(x (+) y) <= x.min(y): lookup is non-increasing and x (+) y >= |x-y| "
                         "(interval bound is [-6,133]); x%d" % (ty, meth, reviewed["aminstar"]))
    ck.extra["interval_obligations"] = total_obl
    if tier == "thorough":
        # margin measurement (not a verdict): the largest number of incoming messages for which every interval obligation
        # of the variable rule still discharges, per 8-bit arithmetic
        margins = {}
        for ty in sorted(eight):
            ev = mk_eval(F, ty)
            selfv = AStruct(ty, {"table": ASlice(AInt(1, 6, "i8"), 128, 0), "_minstars": ASlice(AInt(-127, 127, "i8"), None, 0, "_minstars")})
            ev.field_inv[("Self", "table")] = selfv.fields["table"]
            last_ok = None
            for deg in range(MAXDEG, 300):
                ev.obls = []
                ev.unknown = []
                path = "<%s%s as %s>::send_var_messages" % (ARI, ty, TRAIT)
                analyse(F, ev, path, [selfv, AInt(-127, 127, "i8"), ASlice(msg(), deg, 1, "check_messages"), Sink("sink")], ck, ty)
                if all(o.ok for o in ev.obls):
                    last_ok = deg
                else:
                    break
            margins[ty] = last_ok
        ck.extra["variable_rule_degree_margin"] = margins
        ck.note("margin: the i16 accumulator of send_var_messages is overflow-free up to this many incoming messages: %s" % margins)
    ck.floor("V1", "interval obligations generated", total_obl, 900)

    # ---- V3 shape ----------------------------------------------------------------------------------
    for ty in sorted(eight):
        b = F.body("<%s%s as %s>::input_llr_quantize" % (ARI, ty, TRAIT))
        e = SymEval(F, mode="real")
        env = {}
        for p, nm in zip(b.params, ("self", "llr")):
            e.bind(p, var(nm), env)
        v = e.eval(b.value, env)
        X = var("decoder::arithmetic::%s::QUANTIZER_C" % ty) * var("llr")
        X8 = num(8) * var("llr")
        ok = False
        for x in (X, X8):
            want = app("ite", app("le", num(127), x), num(127), app("ite", app("le", x, num(-127)), num(-127), app("cast_i8", app("round", x))))
            ok = ok or v == want
        qc = None
        for im in F.impls:
            for mm in im["members"]:
                if mm["path"] == ARI + ty + "::QUANTIZER_C":
                    qc = mm.get("float")
        ck.inst("V3", ty + ":quantiser", ok and qc == "8.0", b.span, "input_llr_quantize = saturate(round(C*llr), +-127) with C = %s: %s" % (qc, ok))

    # ---- V2 / V5 for all 24 -------------------------------------------------------------------------------
    n_stage = 0
    for im in impls:
        ty = im["self_ty"].rsplit("::", 1)[-1]
        is8 = ty in eight
        path = "<%s%s as %s>::send_var_messages" % (ARI, ty, TRAIT)
        b = F.body(path)
        tr = Tracer(F, r"__send__", mode="int", inline=lambda p: F.bodies.get(p) if p == ARI + "send_var_messages_no_clip" else None)
        env = {}
        for p, nm in zip(b.params, ("self", "input_llr", "check_messages", "send")):
            tr.bind(p, var(nm), env)
        try:
            ret = tr.eval(b.value, env)
        except Unsupported as e:
            raise AnalysisError("%s: unreadable shape: %s" % (path, e))
        # the sends are `apply(send, SentMessage{..})` values created in a loop: find the struct literal in the HIR
        ok = False
        why = "no send(SentMessage{..}) found"
        body_fn = b
        if not is8:
            body_fn = F.body(ARI + "send_var_messages_no_clip")
        structs = [n for n in walk(body_fn.value) if n.get("k") == "struct" and (n.get("def") or "").endswith("SentMessage")]
        fors = [n for n in walk(body_fn.value) if n.get("k") == "for"]
        if len(structs) == 1 and len(fors) == 1:
            e2 = Tracer(F, "NONE", mode="int")
            en = {}
            names = ("self", "input_llr", "check_messages", "send") if is8 else ("input_llr", "check_messages", "send")
            for p, nm in zip(body_fn.params, names):
                e2.bind(p, var(nm), en)
            # evaluate the leading lets
            blk = body_fn.value
            for s in blk.get("stmts", []):
                if s["k"] == "let" and "init" in s:
                    e2.bind(s["pat"], e2.eval(s["init"], en), en)
            d = e2.iter_desc(fors[0]["iter"], en)
            MSGV = var("msg")
            e2.bind(fors[0]["pat"], MSGV, en)
            sv = e2.eval(structs[0], en)
            dest_ok = sv[2].get("dest") == var("msg.source")
            val = sv[2].get("value")
            # the total is whatever the own contribution is subtracted from
            total = None
            if is8:
                va = single_atom(val) if isinstance(val, Poly) else None
                if va and atom_fn(va) == ARI + ty + "::clip" and isinstance(atom_args(va)[0], Poly):
                    total = atom_args(va)[0] + var("msg.value")
            elif isinstance(val, Poly):
                total = val + var("msg.value")
            whole = d == ("elems", var("check_messages"))
            # the same exact sum spelled as a fold: fold(elems(check_messages), init with the input LLR, |acc, m| acc + m.value)
            fold_sum = False
            if total is not None and "std::iter::Iterator::sum" not in repr(total):
                from ..idioms import as_closure
                fa = []
                _collect_atoms(total, fa)
                for a_ in fa:
                    if atom_fn(a_) != "std::iter::Iterator::fold" or len(a_) != 5:
                        continue
                    it_, init_, cl_ = a_[2], a_[3], a_[4]
                    it_ = it_[1] if isinstance(it_, tuple) and len(it_) == 2 and it_[0] == "iterdesc" else it_
                    try:
                        step = e2.apply(as_closure(F, e2, cl_), [var("$acc"), var("$m")])
                    except Unsupported:
                        continue
                    if repr(it_) == repr(("elems", ("P", var("check_messages")))) and "input_llr" in repr(init_) and step == var("$acc") + var("$m.value"):
                        fold_sum = True
            if is8:
                CL = ARI + ty + "::clip"
                val_ok = val == app(CL, total - var("msg.value")) if total is not None else False
                ret_ok = ret == app(CL, total) if total is not None else False
                # total = jones(from(deg1(input, degree_one)) + sum(values))
                sum_ok = total is not None and (("std::iter::Iterator::sum" in repr(total) and "input_llr" in repr(total)) or fold_sum)
            else:
                val_ok = total is not None and val == total - var("msg.value")
                ret_ok = True
                sum_ok = total is not None and "std::iter::Iterator::sum" in repr(total) and isinstance(total, Poly) and (total - var("input_llr")).atoms() and len((total - var("input_llr")).t) == 1
            ok = dest_ok and val_ok and whole and sum_ok and ret_ok
            why = "total = %s; each message = %s addressed to msg.source (%s), one per incoming message (%s)" % (
                repr(total)[:110], repr(val)[:90], dest_ok, whole)
        ck.inst("V2", ty + ":variable-rule", ok, b.span, why)

        layered_update_rule(ck, F, ty)
        extrinsic_only_rule(ck, F, ty)
        n_stage += stage_agreement_rule(ck, F, ty)
    ck.floor("V8", "arithmetics whose flooding and layered check rules share a per-message scratch stage", n_stage, 4)

    # ---- V6 -------------------------------------------------------------------------------------------------
    from .c10 import scratch_discipline
    from ..decmodel import self_field_uses
    for im in impls:
        ty = im["self_ty"].rsplit("::", 1)[-1]
        adt = F.adts.get(im["self_ty"])
        scratch = [f["name"] for f in adt["variants"][0]["fields"] if f["ty"].startswith("std::vec::Vec<")] if adt else []
        bb = F.body("<%s%s as %s>::update_check_messages_and_vars" % (ARI, ty, TRAIT))
        uses = self_field_uses(bb)
        for f in scratch:
            if f in uses:
                ok6, why6 = scratch_discipline(bb, f)
                ck.inst("V6", "%s:%s" % (ty, f), ok6, bb.span, why6)

    # ---- V5b ------------------------------------------------------------------------------------------------
    for ty in sorted(eight):
        for meth in ("send_check_messages", "update_check_messages_and_vars"):
            b = F.body("<%s%s as %s>::%s" % (ARI, ty, TRAIT, meth))
            wide = []
            nmag = 0
            for n in walk(b.value):
                if n.get("k") == "mcall" and n["m"] in ("abs", "min", "saturating_add"):
                    nmag += 1
                    rty = strip(n["recv"]).get("ty", "").lstrip("&")
                    if rty != "i8":
                        wide.append((n["m"], rty, n["sp"]))
            ck.inst("V5b", "%s:%s" % (ty, meth), not wide and nmag >= 3, b.span,
                    "%d magnitude operations, all on i8 operands" % nmag if not wide else
                    "magnitude operation %s() applied to a %s value: the check rule must see the clipped extrinsic (the flooding rule's domain), "
                    "otherwise saturated inputs are ordered differently than in the flooding rule" % (wide[0][0], wide[0][1]))

    _v4(ck, F, eight)
