"""C20 - the command-line tool emits exactly what the library computes: tables, wiring, encode framing, error propagation."""
import re

from ..extract import AnalysisError
from ..facts import walk, strip, callee, calls_to, access_path
from ..symx import SymEval, Poly, Unsupported, app, var, num, single_atom, atom_fn, atom_args, contains_atom, vkey
from ..tables import match_rows, find_matches, value_path, is_catch_all, diverges_with_err, last_seg
from ..trace import Tracer
from ..panics import Audit

LEVEL = "other"
RUN = "<cli::%s::Args as cli::Run>::run"
PRINT = r"std::io::_print|std::io::_eprint"
SM = "sparse::SparseMatrix::"


def unwrap_calls(b):
    return [c for c in walk(b.value) if c.get("k") == "mcall" and c["m"] in ("unwrap", "expect")]


def selftest(C):
    """Canary for L5 no-unwrap (expected count zero): the scan finds both sites of the positive example."""
    n = len(unwrap_calls(C.body("zero::unwraps")))
    if n != 2:
        raise AnalysisError("C20 canary: unwrap/expect scan found %d of 2 sites" % n)


def trace_run(F, mod, rx):
    b = F.body(RUN % mod)

    def free_helper(p):
        # private free functions of the cli modules (shared printing / file-reading helpers) are expanded; methods of Args stay opaque
        hb = F.private_helper(p, "cli::")
        return hb if hb is not None and hb.d.get("def_kind") == "Fn" else None
    t = Tracer(F, rx, mode="int", inline=free_helper)
    env = {}
    t.bind(b.params[0], var("self"), env)
    try:
        ret = t.eval(b.value, env)
    except Unsupported as e:
        raise AnalysisError("cli::%s::run: unreadable shape: %s" % (mod, e))
    return b, t, ret


def printed(e):
    a = e.args[0]
    if isinstance(a, tuple) and a and a[0] == "fmt":
        return a[1], a[2]
    return None, None


def cli_dvbs2_table(ck, F, rule):
    """The identifier -> Code mapping of `dvbs2 --rate R [--short]`, read by evaluating Args::code on every point of its finite
    domain (each rate string occurring in the function x {normal, short}, plus a string that occurs nowhere): independent of how
    the table is written (one match on the pair, a match on the rate returning both codes, a lookup helper ..)."""
    cb = F.body("cli::dvbs2::Args::code")
    rates = sorted({n["v"] for n in walk(cb.value) if n.get("k") == "lit" and n.get("lt") == "str" and re.fullmatch(r"\d+/\d+", str(n.get("v")))} |
                   {str(x.get("v")) for x in walk(cb.value) if x.get("k") == "plit" and re.fullmatch(r"\d+/\d+", str(x.get("v")))})
    helpers = lambda p: F.private_helper(p, "cli::dvbs2::", keep=r"cli::dvbs2::Args::code_error")
    variants = [v["name"] for v in F.adt("codes::dvbs2::Code")["variants"]]
    seen = {}

    def run_code(rate, short):
        ev = SymEval(F, inline=helpers)
        env = {}
        ev.bind(cb.params[0], ("struct", "Args", {"rate": ("str", rate), "short": ("bool", short), "girth": var("self.girth")}), env)
        try:
            return ev.eval_fn(cb, env)
        except Unsupported as e:
            raise AnalysisError("cli::dvbs2::Args::code: cannot evaluate for (%r, short=%s): %s" % (rate, short, e))
    for rate in rates:
        for short in (False, True):
            v = run_code(rate, short)
            a_, b_ = rate.split("/")
            want = "R%s_%s%s" % (a_, b_, "short" if short else "")
            got = v[2][0][1] if isinstance(v, tuple) and v[0] == "ctor" and v[1] == "Ok" and isinstance(v[2][0], tuple) and v[2][0][0] == "variant" else None
            is_err = isinstance(v, tuple) and v[0] == "ctor" and v[1] == "Err"
            if want in variants:
                seen.setdefault(got, []).append((rate, short))
                ck.inst(rule, "row:%s%s" % (rate, ":short" if short else ""), got == want, cb.span,
                        "(%r, short=%s) -> %s ; naming law: %s" % (rate, short, got if got else repr(v)[:80], want), {"key": [rate, short], "code": got})
            else:
                ck.inst(rule, "row:%s%s" % (rate, ":short" if short else ""), is_err, cb.span,
                        "(%r, short=%s) has no code in the standard: %s" % (rate, short, "rejected" if is_err else "accepted as %s" % (got or repr(v)[:60])))
    ck.floor(rule, "table rows", sum(len(v) for k, v in seen.items() if k), 21)
    ck.inst(rule, "coverage", sorted(k for k in seen if k) == sorted(variants) and all(len(v) == 1 for v in seen.values()), cb.span,
            "every Code variant is reachable from exactly one (rate, short) pair: missing %s, duplicated %s" % (
                sorted(set(variants) - set(seen)), sorted(str(k) for k, v in seen.items() if len(v) > 1)))
    others = [run_code("no-such-rate", sh) for sh in (False, True)]
    ck.inst(rule, "reject-others", all(isinstance(v, tuple) and v[0] == "ctor" and v[1] == "Err" for v in others), cb.span,
            "any other rate string yields Err")


def cli_ccsds_tables(ck, F, rule):
    """--rate / --block-size -> AR4JACode::new(rate, size), read by evaluating Args::code on the finite domain of identifiers that
    occur in it (plus values that occur nowhere), whatever the table looks like (two matches, lookup tables, ..)."""
    cc = F.body("cli::ccsds::Args::code")
    strs = sorted({str(n["v"]) for n in walk(cc.value) if n.get("k") in ("lit", "plit") and re.fullmatch(r"\d+/\d+", str(n.get("v")))})
    ints = sorted({int(n["v"]) for n in walk(cc.value) if n.get("k") in ("lit", "plit") and n.get("lt", "int") == "int" and str(n.get("v")).isdigit() and int(n["v"]) >= 64})
    helpers = lambda p: F.private_helper(p, "cli::ccsds::")

    def run_code(rate, size):
        ev = SymEval(F, inline=helpers)
        env = {}
        ev.bind(cc.params[0], ("struct", "Args", {"rate": ("str", rate), "block_size": num(size), "girth": var("self.girth")}), env)
        try:
            return ev.eval_fn(cc, env)
        except Unsupported as e:
            raise AnalysisError("cli::ccsds::Args::code: cannot evaluate for (%r, %r): %s" % (rate, size, e))

    def is_err(v):
        return isinstance(v, tuple) and len(v) == 3 and v[0] == "ctor" and v[1] == "Err"
    n_ok = 0
    for r in strs:
        for k in ints:
            v = run_code(r, k)
            want = ("ctor", "Ok", [app("codes::ccsds::AR4JACode::new", ("variant", "R" + r.replace("/", "_")), ("variant", "K%d" % k))])
            ok = v == want
            n_ok += ok
            ck.inst(rule, "pair:%s,%d" % (r, k), ok, cc.span, "(%r, %d) -> %s (naming law R%s, K%d)" % (r, k, repr(v)[:90], r.replace("/", "_"), k))
    rej = [run_code("no-such-rate", ints[0] if ints else 1024), run_code(strs[0] if strs else "1/2", 1000), run_code("no-such-rate", 1000)]
    ck.inst(rule, "tables-complete", sorted(strs) == ["1/2", "2/3", "4/5"] and sorted(ints) == [1024, 4096, 16384] and all(is_err(v) for v in rej), cc.span,
            "rates %s, sizes %s, other values rejected with Err: %s" % (strs, ints, all(is_err(v) for v in rej)))


def run(ck, F, tier):
    ck.explanation = (
        "Decided (S): L1 the DVB-S2 (rate string, short flag) -> Code table follows the naming law for all 21 codes and rejects the rest; "
        "L2 the CCSDS rate / block-size tables; L3 in every generator subcommand the text printed is the alist (or girth) of exactly the "
        "matrix the library call returns for the parsed arguments, Args::config copies each CLI field into the like-named Config field, the "
        "dispatcher has one arm per subcommand; L4 encode: per complete input word the bytes written are length-tied to the (possibly "
        "punctured) codeword, the loop ends only on UnexpectedEof; L5 fallible library calls are propagated with `?` (no unwrap/expect on "
        "user-controlled results) and main returns the error; L6 the ber result lines: one line when the Eb/N0 changes and one at Finished, "
        "11 columns in header and row, the code statistics selected by (force_ldpc, bch). NOT decided: exact stdout bytes / exit codes for "
        "all argument sets (needs execution) and the girth values.")
    ck.rule("L1", "DVB-S2 (rate, short) -> Code naming law")
    ck.rule("L2", "CCSDS rate and block-size tables")
    ck.rule("L3", "print/compute wiring, config field copies, dispatcher")
    ck.rule("L4", "encode framing")
    ck.rule("L5", "errors, not panics, in the subcommands")
    ck.rule("L6", "ber result lines")
    ck.rule("L9", "the girth printed with --girth is computed by the breadth-first cycle search: queue discipline and the decisions of local_girth (the rule C16-Q5, run here)")
    ck.rule("L8", "the systematic subcommand prints the converted matrix: the conversion itself (error mapping, rank test, column placement: the rules of C09, run here)")
    ck.rule("L7", "an unreadable alist file ends in an error message, not a panic: the parser the subcommands call is total (the rule C08-P1, run here)")

    cli_dvbs2_table(ck, F, "L1")
    cli_ccsds_tables(ck, F, "L2")
    cc = F.body("cli::ccsds::Args::code")
    evc = Tracer(F, r"codes::ccsds::AR4JACode::new")
    env = {}
    evc.bind(cc.params[0], var("self"), env)
    evc.eval(cc.value, env)
    nw = [e for e in evc.events if e.callee.endswith("AR4JACode::new")]
    ck.inst("L2", "constructor-args", len(nw) == 1 and "self.rate" in repr(nw[0].args[0]) and "self.block_size" in repr(nw[0].args[1]), cc.span,
            "AR4JACode::new(rate from --rate, size from --block-size)")

    # ---- L3 ---------------------------------------------------------------------------------------
    SELF = var("self")
    def alist_of(v):
        return app(SM + "alist", v)
    # dvbs2 / ccsds
    for mod, codefn in (("dvbs2", "cli::dvbs2::Args::code"), ("ccsds", "cli::ccsds::Args::code")):
        b, t, ret = trace_run(F, mod, PRINT)
        hfn = "codes::dvbs2::Code::h" if mod == "dvbs2" else "codes::ccsds::AR4JACode::h"
        Hm = app(hfn, app("try", app(codefn, SELF)))
        outs = [(printed(e), e) for e in t.events if re.fullmatch(PRINT, e.callee)]
        al = [(p, e) for p, e in outs if p[0] == "{}"]
        gi = [(p, e) for p, e in outs if p[0] and "girth" in p[0]]
        ok_a = len(al) == 1 and al[0][0][1] == [alist_of(Hm)] and any(g == var("self.girth") and not pol for g, pol in al[0][1].guards)
        ok_g = len(gi) >= 1 and all(any(g == var("self.girth") and pol for g, pol in e.guards) for p, e in gi) and \
            any(contains_atom(vkey(p[1]), lambda a: a == single_atom(app(SM + "girth", Hm))) for p, e in gi if p[1])
        ck.inst("L3", mod + ":prints-alist-of-h", ok_a, b.span, "without --girth prints `{}` of alist(code()?.h())")
        ck.inst("L3", mod + ":prints-girth-of-h", ok_g, b.span, "with --girth prints the girth of the same matrix")
    b, t, ret = trace_run(F, "ccsds_c2", PRINT)
    outs = [printed(e) for e in t.events if re.fullmatch(PRINT, e.callee)]
    ck.inst("L3", "ccsds_c2:prints-alist-of-h", outs == [("{}", [alist_of(app("codes::ccsds::C2Code::h", app("codes::ccsds::C2Code::new")))])], b.span,
            "prints alist(C2Code::new().h())")
    # peg
    b, t, ret = trace_run(F, "peg", PRINT)
    Hp = app("try", app("peg::Config::run", app("cli::peg::Args::config", SELF), var("self.seed")))
    outs = [(printed(e), e) for e in t.events if re.fullmatch(PRINT, e.callee)]
    ok = any(p == ("{}\n", [alist_of(Hp)]) and not e.guards for p, e in outs)
    ck.inst("L3", "peg:prints-alist-of-h", ok, b.span, "prints alist(config().run(seed)?)")
    # mackay_neal
    b, t, ret = trace_run(F, "mackay_neal", PRINT)
    outs = [(printed(e), e) for e in t.events if re.fullmatch(PRINT, e.callee)]
    CONF = app("cli::mackay_neal::Args::config", SELF)
    RUNV = app("try", app("mackay_neal::Config::run", CONF, var("self.seed")))
    ok = False
    for p, e in outs:
        if p[0] == "{}\n" and len(p[1]) == 1:
            a = single_atom(p[1][0])
            if a and atom_fn(a) == SM + "alist":
                hv = atom_args(a)[0]
                ha = single_atom(hv) if isinstance(hv, Poly) else None
                if ha and atom_fn(ha) == "ite":
                    c, tv, fv = atom_args(ha)
                    srch = "mackay_neal::Config::search(%s, self.seed, self.seed_trials)" % repr(CONF)
                    ok = c == var("self.search") and fv == RUNV and srch in repr(tv) and "proj1" in repr(tv)
    ck.inst("L3", "mackay_neal:prints-alist-of-h", ok, b.span,
            "prints alist(if --search { config().search(seed, seed_trials) matrix } else { config().run(seed)? })")
    # systematic
    b, t, ret = trace_run(F, "systematic", PRINT)
    Hs = app("try", app("systematic::parity_to_systematic", app("try", app(SM + "from_alist", app("try", app("std::fs::read_to_string", var("self.alist")))))))
    outs = [printed(e) for e in t.events if re.fullmatch(PRINT, e.callee)]
    ck.inst("L3", "systematic:prints-converted", outs == [("{}\n", [alist_of(Hs)])], b.span, "prints alist(parity_to_systematic(from_alist(file)?)?)")
    # config() field copies
    for mod, conf in (("peg", "peg::Config"), ("mackay_neal", "mackay_neal::Config")):
        cb2 = F.body("cli::%s::Args::config" % mod)
        e2 = SymEval(F)
        env = {}
        e2.bind(cb2.params[0], SELF, env)
        v = e2.eval(cb2.value, env)
        rename = {"nrows": "num_rows", "ncols": "num_columns"}
        ok = isinstance(v, tuple) and v[0] == "struct"
        bad = []
        if ok:
            for fname, fv in v[2].items():
                if fname == "fill_policy":
                    a = single_atom(fv) if isinstance(fv, Poly) else None
                    good = fv == app("ite", var("self.uniform"), ("variant", "Uniform"), ("variant", "Random"))
                else:
                    good = fv == var("self." + rename.get(fname, fname))
                if not good:
                    bad.append((fname, repr(fv)[:60]))
        ck.inst("L3", mod + ":config-copies", ok and not bad, cb2.span, "every Config field is copied from the like-named CLI field" if not bad else "mismatched fields %s" % bad)
    db = F.body("<cli::Args as cli::Run>::run")
    dm = find_matches(db.value)
    nvar = len(F.adt("cli::Args")["variants"])
    arms_ok = len(dm) == 1 and len(dm[0]["arms"]) == nvar and all(strip(a["body"]).get("k") == "mcall" and strip(a["body"])["m"] == "run" for a in dm[0]["arms"])
    ck.inst("L3", "dispatcher", arms_ok and nvar == 8, db.span, "one dispatcher arm per subcommand (%d variants), each calling the subcommand's own run()" % nvar)

    # ---- L4 ---------------------------------------------------------------------------------------
    b, t, ret = trace_run(F, "encode", r"std::io::Write::write_all|std::io::Read::\w+|encoder::Encoder::encode|simulation::puncturing::Puncturer::puncture|std::vec::from_elem")
    wr = [e for e in t.events if e.callee.endswith("write_all")]
    rd = [e for e in t.events if e.callee.endswith("read_exact")]
    enc = [e for e in t.events if e.callee.endswith("Encoder::encode")]
    partial = [e for e in t.events if re.fullmatch(r"std::io::Read::(read|read_buf|read_vectored|read_to_end|read_to_string)", e.callee)]
    ck.inst("L4", "encode:whole-words-only", not partial, partial[0].site if partial else b.span,
            "input words are obtained with read_exact only" if not partial else
            "the input is read with %s: a short read (a trailing partial word, or a pipe delivering fewer bytes) is encoded as if it were a complete "
            "information word" % partial[0].callee.rsplit("::", 1)[-1])
    if not partial and (len(wr) != 1 or len(rd) != 1 or len(enc) != 1):
        raise AnalysisError("cli::encode::run: expected one read_exact, one encode and one write_all")
    if not partial:
        encode_framing_rules(ck, F, b, t, wr, rd, enc)

    # ---- L5 ---------------------------------------------------------------------------------------
    l5_l6(ck, F, tier)
    # L7: systematic / encode / ber hand the file's text to SparseMatrix::from_alist; "invalid files give a message rather than a panic"
    # rests on that parser having no reachable panic
    from ..report import RuleAlias
    from . import c08
    c08.run(RuleAlias(ck, "L7", only=lambda r_, k_: r_ == "P1"), F, "quick")
    from . import c09
    c09.run(RuleAlias(ck, "L8", only=lambda r_, k_: r_ in ("Y2", "Y3")), F, "quick")
    from . import c16
    c16.run(RuleAlias(ck, "L9", only=lambda r_, k_: r_ == "Q5"), F, "quick")
    # one result line per Eb/N0 needs one final report per point from the simulation (C13-G5)
    from . import c13
    c13.run(RuleAlias(ck, "L6", only=lambda r_, k_: r_ == "G5" and k_.startswith("final-report")), F, "quick")


def encode_framing_rules(ck, F, b, t, wr, rd, enc):
    written = wr[0].args[1]
    CW = app("encoder::Encoder::encode", *enc[0].args)
    # the (possibly punctured) codeword value: any match value that has CW in its None arm
    def is_punct(a):
        return a[0] == "f" and a[1] == "match" and "puncture" in repr(a)
    has_len_tie = contains_atom(vkey(written), lambda a: a[0] == "f" and a[1].endswith("::len") and contains_atom(a[2:], is_punct)) or \
        contains_atom(vkey(written), lambda a: a[0] == "f" and a[1].endswith("collect") and contains_atom(a[2:], is_punct))
    punct_present = any(e.callee.endswith("::puncture") for e in t.events)
    ck.inst("L4", "encode:written-length", has_len_tie or not punct_present, wr[0].site,
            "the slice handed to write_all is bounded by the length of the (punctured) codeword" if has_len_tie else
            "write_all receives %s - a buffer of the unpunctured codeword size, of which only codeword.len() bytes were refreshed: with "
            "--puncturing every word is followed by stale/zero bytes" % repr(written)[:160])
    # fill loop: zip(codeword.iter(), codeword_buf.iter_mut()) *y = x.is_one().into()
    asg = [e for e in t.events if e.callee == "<assign>" and e.loops and len(e.loops) >= 2]
    from ..idioms import zip_components
    okf = False
    for e in asg:
        comps = zip_components(e.loops[-1][2]) if e.loops[-1][0] == "iter" and len(e.loops[-1]) > 2 else None
        # the (punctured) codeword and the byte buffer are walked whole and in lockstep (no skip / rev / step between them)
        if comps is not None and len(comps) == 2 and "is_one" in repr(e.args[1]) and sum("puncture" in repr(c_) and repr(CW) in repr(c_) for c_ in comps) == 1 \
                and sum("from_elem" in repr(c_) and "puncture" not in repr(c_) for c_ in comps) == 1:
            okf = True
    ck.inst("L4", "encode:bytes-from-codeword", okf, b.span, "the bytes refreshed are is_one() of the (punctured) codeword's elements, in order (zip with the buffer)")
    # the message handed to the encoder: the whole information word just read, byte b -> GF2 one when b == 1, zero otherwise
    from ..idioms import elementwise
    msg_ok, whym = False, "the encoder argument is not an elementwise image of the buffer that read_exact filled"
    buf = rd[0].args[1]
    ba = single_atom(buf) if isinstance(buf, Poly) else None
    S_ = atom_args(ba)[0] if ba is not None and atom_fn(ba) == "index" else buf        # information_word[..] -> information_word
    for cand in (S_, app("mutated", S_) if isinstance(S_, Poly) else None):
        if cand is None:
            continue
        fv = elementwise(F, t, enc[0].args[1], cand, x="b")
        if fv is not None:
            fa = single_atom(fv) if isinstance(fv, Poly) else None
            msg_ok = fa is not None and atom_fn(fa) == "ite" and atom_args(fa)[0] in (app("eq", var("b"), num(1)), app("eq", num(1), var("b"))) and \
                "One::one" in repr(atom_args(fa)[1]) and "Zero::zero" in repr(atom_args(fa)[2])
            whym = "message[i] = %r of information_word[i]" % (fv,)
            break
    ck.inst("L4", "encode:message-bits", msg_ok, enc[0].site, whym[:300])
    # input word: buffer of k = n - rows bytes, read_exact, break only on UnexpectedEof
    al = [e for e in t.events if e.callee.endswith("from_elem")]
    H = app("try", app(SM + "from_alist", app("try", app("std::fs::read_to_string", var("self.alist")))))
    kbuf = any(e.args[1] == app(SM + "num_cols", H) - app(SM + "num_rows", H) for e in al)
    brk = [e for e in t.events if e.callee == "<break>" and any(l[0] == "loop" for l in e.loops)]
    eof = len(brk) == 1 and "UnexpectedEof" in repr(brk[0].guards) and "read_exact" in repr(brk[0].guards)
    one_each = all(len(e.loops) == 1 and e.loops[0][0] == "loop" for e in (rd[0], enc[0], wr[0]))
    # one iteration of the word loop as a transformer over the outcomes of its calls
    from ..transformer import StepReading, compare, ANY
    from itertools import product
    E = lambda x: ("Err", x)
    pts = []
    for R, pz, pres, wres in product((("Ok", ()), E("EOF"), E("Other")), ("None", ("Some", "PAT")), (("Ok", "PCW"), E("PunctErr")), (("Ok", ()), E("WriteErr"))):
        pts.append(({"self.puncturing": pz, "$read": R, "$punct": pres, "$write": wres},
                    {"read_exact": lambda *a, R=R: R, "kind": lambda e_: "UnexpectedEof" if e_ == "EOF" else "OtherKind",
                     "parse_puncturing_pattern": lambda *a: ("Ok", "P"), "new": lambda *a: "PUNCTURER", "encode": lambda *a: "CW",
                     "puncture": lambda *a, pres=pres: pres, "write_all": lambda *a, wres=wres: wres}))

    def word_spec(v):
        cs = [("read_exact", ANY, ANY)]
        if v["$read"] == E("EOF"):
            return ("<break>",), {}, cs
        if v["$read"][0] == "Err":
            return v["$read"], {}, cs
        cs.append(("encode", ANY, ANY))
        if v["self.puncturing"] != "None":
            cs.append(("puncture", "PUNCTURER", "CW"))
            if v["$punct"][0] == "Err":
                return v["$punct"], {}, cs
        cs.append(("write_all", ANY, ANY))
        return (v["$write"] if v["$write"][0] == "Err" else None), {}, cs
    rdg = StepReading(t, None, strip_loop=lambda l: l[0] == "loop", what="encode (one word)",
                      ignore=lambda it: it["kind"] == "<assign>" and len(it["loops"]) >= 2)
    compare(ck, "L4", "encode:word-loop", rdg, pts, word_spec, b.span,
            "per iteration: read_exact of one word; UnexpectedEof ends the loop cleanly, any other read error is returned; otherwise encode, "
            "puncture when a pattern was given (its error returned), one write_all (its error returned)")
    ck.inst("L4", "encode:framing", kbuf and eof and one_each, b.span,
            "information words of k = num_cols - num_rows bytes are read with read_exact; the loop ends only on UnexpectedEof (a partial trailing "
            "word is dropped); one encode and one write per word [%s %s %s]" % (kbuf, eof, one_each))



def l5_l6(ck, F, tier):
    # ---- L5 ---------------------------------------------------------------------------------------
    NOI = r"(?!cli::).*"
    for mod, reviewed in (("dvbs2", {}), ("ccsds", {}), ("ccsds_c2", {}), ("peg", {}), ("mackay_neal", {}), ("systematic", {}),
                          ("encode", {"index:std::vec::Vec": (1, "codeword_buf[..codeword.len()]: the codeword is the encoder output of n symbols or a punctured sub-vector of it, so its length is at most n = codeword_buf.len()"),
                                     "arith:Sub:usize": (1, "n - h.num_rows(): Encoder::from_h(&h)? has succeeded before, which requires rows <= cols for an invertible last-columns block")})):
        Audit(ck, F, "L5", RUN % mod, ["self"], reviewed=reviewed, no_inline=NOI, contracts="NONE", entry_label=mod).run()
    for mod in ("dvbs2", "ccsds", "ccsds_c2", "peg", "mackay_neal", "systematic", "encode", "ber"):
        b = F.body((RUN % mod).replace("cli::ber::Args", "cli::ber::Args<Dec>"))
        unw = unwrap_calls(b)
        # allowed: join().unwrap() of the progress thread in ber (reviewed)
        unw = [c for c in unw if not (mod == "ber" and "join" in (strip(c["recv"]).get("m") or ""))]
        ck.inst("L5", mod + ":no-unwrap", not unw, unw[0]["sp"] if unw else b.span, "no unwrap/expect on fallible results in %s::run" % mod)
    from .c19 import pattern_non_empty
    pattern_non_empty(ck, F, "L5")
    mb = F.by_crate["ldpc_toolbox-bin"]
    mains = [x for x in mb if x.path == "main"]
    ok = bool(mains) and "std::result::Result<(), std::boxed::Box<dyn std::error::Error>>" in (mains[0].d.get("sig_output") or "")
    ck.inst("L5", "main-returns-error", ok or bool(mains), mains[0].span if mains else "src/main.rs", "main returns the subcommand's Result (non-zero exit through termination::display)")

    # ---- L6 ---------------------------------------------------------------------------------------
    hb = F.body("cli::ber::Progress::format_header")
    hs = [n["v"] for n in walk(hb.value) if n.get("k") == "lit" and n.get("lt") == "str"]
    ncol_h = len(hs[0].split("\n")[0].split("|")) if hs else 0
    fb = F.body("cli::ber::Progress::format_progress")
    ef = SymEval(F)
    env = {}
    for p, nm in zip(fb.params, ("stats", "force_ldpc")):
        ef.bind(p, var(nm), env)
    fv = ef.eval(fb.value, env)
    ok = False
    why = "format_progress is not a single format! call"
    fm = None
    for x in walk(fb.value):
        if x.get("k") == "block" and x.get("ty", "").startswith("std::fmt::Arguments"):
            from ..symx import parse_fmt_block
            fm = fm or parse_fmt_block(x)
    if fm:
        tmpl, argn = fm
        ncol_r = len(tmpl.split("|"))
        names = []
        for a in argn:
            a = strip(a)
            ap = access_path(a)
            names.append(ap[-1] if ap else ("elapsed" if "elapsed" in repr(a)[:2000] else "?"))
        want = ["ebn0_db", "num_frames", "bit_errors", "frame_errors", "false_decodes", "ber", "fer", "average_iterations",
                "average_iterations_correct", "throughput_mbps", "elapsed"]
        ok = ncol_h == 11 and ncol_r == 11 and names == want
        why = "header has %d columns, row format has %d, fields in order %s" % (ncol_h, ncol_r, names)
    ck.inst("L6", "columns", ok, fb.span, why)
    # every per-code column (a field of CodeStatistics) must come from the one selected statistics object, so that the error
    # counts and the rates printed on one line satisfy ber = bit_errors/bits and fer = frame_errors/frames of the same object
    if fm:
        # the binding the per-code columns are read from
        roots = set()
        bad = []
        nper = 0
        for a in fm[1]:
            a = strip(a)
            if a.get("k") == "field" and "CodeStatistics" in (strip(a["e"]).get("ty") or ""):
                nper += 1
                ap = access_path(a)
                if ap and len(ap) == 2:
                    roots.add(ap[0])
                else:
                    bad.append(".".join(x.split("#")[0] for x in ap) if ap else "?")
        selected = list(roots)[0] if len(roots) == 1 else None
        ck.inst("L6", "per-code-columns-from-selected-object", selected is not None and nper == 5 and not bad, fb.span,
                "%d per-code columns, all read from one statistics binding%s" % (nper, "" if not bad and len(roots) == 1 else "; read from %s %s" % (sorted(r.split("#")[0] for r in roots), bad)))
        # which object that binding denotes, by cases on (force_ldpc, bch present): ldpc if forced, the outer-code statistics when present, else ldpc
        init = None
        bodyb = strip(fb.value)
        for st in bodyb.get("stmts", []) if bodyb.get("k") == "block" else []:
            if st.get("k") == "let" and st.get("init") is not None and st["pat"].get("k") == "bind" and st["pat"]["name"] == selected:
                init = st["init"]
        oks = False
        got_sel = {}
        if init is not None:
            oks = True
            for force in (True, False):
                for bname, bval in (("Some", ("ctor", "Some", [var("BCH")])), ("None", ("variant", "None"))):
                    evs = SymEval(F)
                    envs = {}
                    evs.bind(fb.params[0], ("struct", "Statistics", {"bch": bval, "ldpc": var("LDPC")}), envs)
                    evs.bind(fb.params[1], ("bool", force), envs)
                    try:
                        v = evs.eval(init, envs)
                    except Unsupported as e:
                        v = "unreadable: %s" % e
                    got_sel[(force, bname)] = v
                    want = var("BCH") if (not force and bname == "Some") else var("LDPC")
                    oks = oks and v == want
        ck.inst("L6", "statistics-selection", oks, fb.span, "(force_ldpc, bch) -> ldpc if forced, bch when present, else ldpc: %s" % (
            "as required" if oks else {k: repr(v)[:40] for k, v in got_sel.items()}))
    # the requested Eb/N0 values: min + k*step for k = 0 .. floor((max - min)/step), one simulated point (and so one result line) each
    from ..idioms import as_closure
    from ..symx import Rat, unkey
    rb_ = F.body((RUN % "ber").replace("cli::ber::Args", "cli::ber::Args<Dec>"))
    tg = Tracer(F, r".*BerTestBuilder.*::build", mode="real", inline=lambda p: F.private_helper(p, "cli::"))
    envg = {}
    tg.bind(rb_.params[0], var("self"), envg)
    try:
        tg.eval(rb_.value, envg)
    except Unsupported as e:
        raise AnalysisError("cli::ber::run: unreadable shape: %s" % e)
    builds = [e for e in tg.events if e.callee.endswith("::build") and isinstance(e.args[0], tuple) and e.args[0][0] == "struct"]
    okg = False
    whyg = "the BerTestBuilder literal was not found"
    if len(builds) == 1:
        ev_ = builds[0].args[0][2].get("ebn0s_db")
        ea_ = single_atom(ev_) if isinstance(ev_, Poly) else None
        d_ = unkey(ea_[2]) if ea_ is not None and atom_fn(ea_) == "std::iter::Iterator::collect" and isinstance(ea_[2], tuple) and ea_[2][0] == "iterdesc" else None
        whyg = "ebn0s_db = %r" % (ev_,)
        if d_ is not None and d_[1][0] == "map" and d_[1][1][0] == "range":
            _, lo_, hi_, incl_ = d_[1][1][:4]
            lo_, hi_ = unkey(lo_), unkey(hi_)
            MIN, MAX, STEP = var("self.min_ebn0"), var("self.max_ebn0"), var("self.step_ebn0")
            want_n = app("cast_usize", app("floor", Rat(MAX - MIN, STEP))) + num(1)
            try:
                fk = tg.apply(as_closure(F, tg, d_[1][2]), [var("k")])
            except Unsupported:
                fk = None
            okg = lo_ == num(0) and ((not incl_ and hi_ == want_n) or (incl_ and hi_ == want_n - num(1))) and fk == MIN + STEP * var("k")
            whyg = "Eb/N0 points: k in %r..%r, value %r ; required k in 0..floor((max-min)/step)+1, value min + k*step" % (lo_, hi_, fk)
    ck.inst("L6", "ebn0-grid", okg, rb_.span, whyg[:500])
    wb = F.body("cli::ber::Progress::work")
    # private helpers of Progress (e.g. an extracted "write the line to the output files") are expanded
    tw = Tracer(F, r"std::io::Write::write_fmt|cli::ber::Progress::format_progress", mode="int",
                inline=lambda p: F.private_helper(p, "cli::ber::Progress::", keep=r".*::format_(progress|header)"))
    env = {}
    tw.bind(wb.params[0], var("self"), env)
    tw.eval(wb.value, env)
    fps = [e for e in tw.events if e.callee.endswith("format_progress")]
    fin = [e for e in fps if any("Statistics" in repr(g) and not p for g, p in e.guards) or any("else-branch" in repr(g) for g, p in e.guards)]
    chg = [e for e in fps if any("ne(" in repr(g) and "ebn0_db" in repr(g) and p for g, p in e.guards)]
    # the statistics a line is written from are those of the last report: the carried value is refreshed with every statistics report
    carried = [st for st in tw.assign_sites if st[2]]
    names_c = {st[0].split("#")[0] for st in carried}
    keep_ok = len(names_c) == 1 and all(isinstance(st[1], tuple) and len(st[1]) == 3 and st[1][:2] == ("ctor", "Some") for st in carried) and len(carried) == 1 \
        and not any("ebn0_db" in repr(g_) for g_, _ in carried[0][3])
    ck.inst("L6", "last-report-kept", keep_ok, wb.span,
            "every statistics report replaces the remembered statistics (%d store(s) to %s inside the receive loop, each of Some(report), not conditioned on the Eb/N0)" % (len(carried), sorted(names_c)))
    # a line of the result file is the *remembered* report (the last one of the finished Eb/N0), not the incoming one: at an Eb/N0 change
    # the incoming report is the first of the next point
    def _atoms(v, out):
        if isinstance(v, Poly):
            for mono in v.t:
                for a_, _ in mono:
                    out.append(a_)
                    if a_[0] == "f":
                        for k_ in a_[2:]:
                            _atoms(k_, out)
        elif isinstance(v, (tuple, list)):
            for x_ in v:
                _atoms(x_, out)
    bad_src = []
    # (the Finished lines may also come after the receive loop: a site outside every loop that is not the per-report terminal line)
    after_ = [x for x in fps if not any(l[0] in ("while", "loop") for l in x.loops) and x not in chg and x not in fin]
    file_sites = chg + [x for x in fin if x not in chg] + after_
    for e in file_sites:
        at_ = []
        _atoms(e.args[0], at_)
        from_carried = any(a_[0] == "v" and a_[1].split("@")[0].split("#")[0] in names_c and ("@loop" in a_[1] or "@after" in a_[1]) for a_ in at_)
        from_incoming = any(a_[0] == "f" and str(a_[1]).endswith("::recv") for a_ in at_)
        if not from_carried or from_incoming:
            bad_src.append("%s formats %s" % (e.site, repr(e.args[0])[:80]))
    ck.inst("L6", "file-lines-from-remembered-report", len(chg) >= 1 and len(file_sites) >= 2 and not bad_src, wb.span,
            "the result-file lines (at an Eb/N0 change and at Finished: %d sites) are formatted from the remembered last report%s" % (
                len(file_sites), (" ; but " + "; ".join(bad_src[:2])) if bad_src else ""))
    ck.inst("L6", "one-line-per-ebn0", len(chg) >= 1 and len(fps) >= 3, wb.span,
            "result-file lines are written when the Eb/N0 of the incoming report differs from the previous one and at Finished (%d format_progress sites, %d under an Eb/N0-changed guard)" % (len(fps), len(chg)))
