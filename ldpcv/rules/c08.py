"""C08 - alist round trip (layout agreement writer <-> reader) and parser totality."""
import re

from ..extract import AnalysisError
from ..facts import walk, strip, callee, calls_to
from ..symx import guard_holds, Poly, Unsupported, app, var, num, single_atom, atom_fn, atom_args, contains_atom, cmp_atom
from ..trace import Tracer
from ..panics import Audit, SM, unwrap_mut

LEVEL = "other"
W = "sparse::SparseMatrix::write_alist_maybe_padding"
R = "sparse::SparseMatrix::from_alist"


def fmt_of(ev):
    a = ev.args[1] if len(ev.args) > 1 else None
    if isinstance(a, tuple) and a and a[0] == "fmt":
        return a[1], a[2]
    return None, None


def unwrap_sites(body):
    return [c for c in walk(body.value) if c.get("k") in ("mcall", "call") and re.search(r"::(unwrap|expect)$", callee(c) or "")]


def selftest(C):
    """Canary for P1 no-unwrap (expected count zero): the scan finds both sites of the positive example."""
    n = len(unwrap_sites(C.body("zero::unwraps")))
    if n != 2:
        raise AnalysisError("C08 canary: unwrap/expect scan found %d of 2 sites" % n)


def run(ck, F, tier):
    ck.explanation = (
        "Decided (S): P1 parser totality - every panic-capable construct (MIR asserts, panicking library calls, indexing "
        "contracts of SparseMatrix) reachable from SparseMatrix::from_alist is discharged by a dominating guard on the "
        "symbolic path condition or by a reviewed argument; P2 the same for the writer (write_alist_maybe_padding, alist, "
        "alist_no_padding); P3 writer/reader layout agreement: header order (columns, rows), 4 lines before the index lists "
        "on both sides, column lists first, 1-based <-> minus one, sorted output; P4 padded form: a single 0 for an empty line "
        "and ' 0' padding only under use_padding, which the reader skips. NOT decided: from_alist(alist(h)) == h and the exact "
        "text for all matrices (all-input equality of values); P3/P4 are its structural necessary conditions.")
    ck.rule("P1", "from_alist: no reachable panic site is left undischarged (total parser)")
    ck.rule("P2", "alist writers: no reachable panic site is left undischarged (includes the all-zero matrix)")
    ck.rule("P3", "layout written == layout read (header order, line count before the lists, section order, index base, sorting)")
    ck.rule("P4", "padding tokens are `0`, written only when use_padding, and skipped by the reader")
    ck.assume("declared dimensions are moderate (allocation of nrows+ncols empty vectors succeeds)")
    ck.assume("library model: which std/ndarray functions can panic (ldpcv/panics.py PANICKY); other library calls are taken as non-panicking")

    # ---- P1 -------------------------------------------------------------------------
    a1 = Audit(ck, F, "P1", R, ["alist"], reviewed={}).run()
    ck.floor("P1", "sites in from_alist", len(a1.tracer.sites), 3)
    rb = F.body(R)
    unw = unwrap_sites(rb)
    ck.inst("P1", "from_alist:no-unwrap", not unw, unw[0]["sp"] if unw else rb.span,
            "parse/next results are propagated with ok_or_else/map_err + `?` (no unwrap/expect)" if not unw else "unwrap/expect on user-controlled input")

    # ---- P2 -------------------------------------------------------------------------
    a2 = Audit(ck, F, "P2", W, ["self", "w", "use_padding"], reviewed={}).run()
    ck.floor("P2", "sites in the writer", len(a2.tracer.sites), 3)
    for fn in ("alist", "alist_no_padding"):
        Audit(ck, F, "P2", SM + fn, ["self"], no_inline=W + "|" + SM + "(num_rows|num_cols|iter_all)",
              reviewed={"call:unwrap": (1, "fmt::Write for String never returns Err, so write_alist*() into a String cannot fail")}).run()

    # ---- P3 / P4: writer -----------------------------------------------------------------
    wb = F.body(W)
    tw = Tracer(F, r"std::fmt::Write::write_fmt|core::slice::<impl \[T\]>::sort_unstable(_by)?|core::slice::<impl \[T\]>::sort", mode="int")
    env = {}
    for p, nm in zip(wb.params, ("self", "w", "use_padding")):
        tw.bind(p, var(nm), env)
    try:
        tw.eval(wb.value, env)
    except Unsupported as e:
        raise AnalysisError("alist writer: unreadable shape: %s" % e)
    writes = [e for e in tw.events if e.callee.endswith("write_fmt")]
    sorts = [e for e in tw.events if "sort" in e.callee]
    ck.floor("P3", "write! sites in the writer", len(writes), 9)
    DIRS = ("array", [var("self.cols"), var("self.rows")])
    SELF = var("self")
    t0, a0 = fmt_of(writes[0])
    ok_hdr = t0 == "{} {}\n" and a0 == [app(SM + "num_cols", SELF), app(SM + "num_rows", SELF)] and not writes[0].loops
    ck.inst("P3", "writer:header", ok_hdr, writes[0].site, "first line is written as %r with (%s)" % (t0, ", ".join(repr(x) for x in (a0 or []))))
    # loops over the directions array
    dir_loops = set()
    for e in writes:
        for l in e.loops:
            if l[0] == "iter" and "self.cols" in repr(l[2]) and "self.rows" in repr(l[2]):
                dir_loops.add(repr(l[2]))
    order_ok = all(r.index("self.cols") < r.index("self.rows") for r in dir_loops) and bool(dir_loops)
    ck.inst("P3", "writer:section-order", order_ok, wb.span, "both per-direction loops iterate [cols, rows] in that order (column lists first)")
    # line accounting
    def depth(e):
        return len(e.loops)
    nl_top = [e for e in writes if (fmt_of(e)[0] or "").endswith("\n") and depth(e) == 0]
    nl_dir = [e for e in writes if (fmt_of(e)[0] or "").endswith("\n") and depth(e) == 1]
    nl_el = [e for e in writes if (fmt_of(e)[0] or "").endswith("\n") and depth(e) == 2]
    lines_before = len(nl_top) + 2 * len(nl_dir)
    ck.inst("P3", "writer:lines-before-lists", len(nl_top) == 2 and len(nl_dir) == 1 and len(nl_el) == 1 and not nl_el[0].guards, wb.span,
            "writer emits %d top-level lines + %d per direction (x2) = %d lines before the lists, then one line per row/column" % (
                len(nl_top), len(nl_dir), lines_before), {"lines_before": lines_before})
    # element writes: x + 1, sorted
    el_writes = [e for e in writes if depth(e) >= 3 and (fmt_of(e)[0] or "") in ("{}", " {}")]
    plus1 = []
    for e in el_writes:
        t, a = fmt_of(e)
        v = a[0]
        if t == " {}" and isinstance(v, Poly):
            plus1.append((v - num(1)).const_value() is None and single_atom(v - num(1)) is not None)
    ck.inst("P3", "writer:one-based", bool(plus1) and all(plus1), el_writes[0].site if el_writes else wb.span,
            "index tokens are written as stored index + 1")
    # the first token comes from the same mapped iterator (closure |x| x + 1): check the closure itself
    cl = [c for c in walk(wb.value) if c.get("k") == "closure" and c["body"].get("k") == "bin" and c["body"].get("op") == "Add"]
    ck.inst("P3", "writer:one-based-map", len(cl) == 1 and strip(cl[0]["body"]["r"]).get("v") == 1, cl[0]["sp"] if cl else wb.span,
            "the per-line iterator maps x -> x + 1 (first and following tokens alike)")
    sorted_ok = len(sorts) == 1 and len(sorts[0].loops) == 2 and writes.index(el_writes[0]) > tw.events.index(sorts[0]) - len([x for x in tw.events[:tw.events.index(sorts[0])] if not x.callee.endswith("write_fmt")]) if el_writes and sorts else False
    ck.inst("P3", "writer:sorted", len(sorts) == 1 and len(sorts[0].loops) == 2, sorts[0].site if sorts else wb.span,
            "each index list is sorted (sort_unstable on the per-line copy) before it is formatted")
    # P4
    pads = [e for e in writes if fmt_of(e)[0] in ("0", " 0")]
    pad_ok = len(pads) == 2 and all(any(g == var("use_padding") and p for g, p in e.guards) for e in pads)
    zero = [e for e in pads if fmt_of(e)[0] == "0"]
    zero_ok = len(zero) == 1 and any("eq(0" in repr(g) and "len" in repr(g) and p for g, p in zero[0].guards)
    ck.inst("P4", "writer:padding-guarded", pad_ok and zero_ok, pads[0].site if pads else wb.span,
            "`0` is written only for an empty list and ` 0` only as padding, both only when use_padding")
    others = [fmt_of(e)[0] for e in writes if fmt_of(e)[0] not in ("{} {}\n", "{}", " {}", "\n", "0", " 0")]
    ck.inst("P4", "writer:token-set", not others, wb.span, "the writer emits only numbers, single spaces, newlines and `0` padding" if not others else "unexpected output %r" % others)

    # ---- P3 / P4: reader -------------------------------------------------------------------
    # private helpers of module `sparse` are expanded, so that extracting part of the parser into a helper is transparent
    PUBLIC = re.compile(r"sparse::SparseMatrix::(new|insert|remove|toggle|contains|num_rows|num_cols|row_weight|col_weight|iter_row|iter_col|iter_all|"
                        r"clear_row|clear_col|set_row|set_col|insert_row|insert_col|from_alist|alist|alist_no_padding|write_alist\w*)")
    tr = Tracer(F, r"std::iter::Iterator::next|sparse::SparseMatrix::(new|insert)", mode="int",
                inline=lambda p: F.bodies.get(p) if p and p.startswith("sparse::") and not PUBLIC.fullmatch(p) else None)
    env = {}
    tr.bind(rb.params[0], var("alist"), env)
    try:
        tr.eval(rb.value, env)
    except Unsupported as e:
        raise AnalysisError("from_alist: unreadable shape: %s" % e)
    nexts = [e for e in tr.events if e.callee.endswith("::next")]
    is_line_it = lambda e: "split(" in repr(e.args[0]) and "split_whitespace" not in repr(e.args[0])
    line_next_top = [e for e in nexts if is_line_it(e) and not e.loops]
    line_next_loop = [e for e in nexts if is_line_it(e) and len(e.loops) == 1]
    tok_next_top = [e for e in nexts if not is_line_it(e) and not e.loops]
    news = [e for e in tr.events if e.callee.endswith("::new")]
    ins = [e for e in tr.events if e.callee.endswith("::insert")]
    ck.inst("P3", "reader:lines-before-lists", len(line_next_top) == 4 and len(line_next_loop) == 1, rb.span,
            "reader consumes %d lines before the column loop (1 parsed + %d skipped) and %d per column; writer emits %d before the lists" % (
                len(line_next_top), len(line_next_top) - 1, len(line_next_loop), lines_before),
            {"reader_lines": len(line_next_top), "writer_lines": lines_before})
    ck.inst("P3", "agree:line-count", len(line_next_top) == lines_before, rb.span, "lines before lists: reader %d == writer %d" % (len(line_next_top), lines_before))
    hdr_ok = False
    why = "header tokens / SparseMatrix::new not found"
    if len(tok_next_top) == 2 and len(news) == 1:
        tok = [app("std::iter::Iterator::next", e.args[0]) for e in tok_next_top]
        k1, k2 = (single_atom(t) for t in tok)
        nrows_v, ncols_v = news[0].args
        first_in_cols = contains_atom(ncols_v, lambda a: a == k1) and not contains_atom(ncols_v, lambda a: a == k2)
        second_in_rows = contains_atom(nrows_v, lambda a: a == k2)
        hdr_ok = first_in_cols and second_in_rows and ok_hdr
        why = "reader: first header token -> number of columns (%s), second -> number of rows (%s), passed as new(rows, cols); writer: (num_cols, num_rows)" % (first_in_cols, second_in_rows)
    ck.inst("P3", "agree:header-order", hdr_ok, news[0].site if news else rb.span, why)
    ins_ok = False
    why = "expected exactly one insert site in from_alist"
    if len(ins) == 1 and news:
        e = ins[0]
        colv = e.args[2]
        rowv = e.args[1]
        lp = e.loops[0] if e.loops else None
        col_is_loop = lp is not None and lp[0] == "range" and colv == var(lp[1]) and lp[2] == num(0) and lp[3] == news[0].args[1] and not lp[4]
        tokv = rowv + num(1)
        minus1 = single_atom(tokv) is not None and guard_holds(e.guards, cmp_atom("ne", tokv, num(0)))
        ins_ok = col_is_loop and minus1 and order_ok
        why = ("reader: for col in 0..ncols, every non-zero token t of the line inserts (t - 1, col) [loop over columns: %s, "
               "`t != 0` guard and minus one: %s]; writer: column lists first, tokens = index + 1, 0 = padding" % (col_is_loop, minus1))
    ck.inst("P3", "agree:sections-and-base", ins_ok, ins[0].site if ins else rb.span, why)
    ck.inst("P4", "reader:skips-padding", ins_ok, ins[0].site if ins else rb.span, "token 0 is never turned into an entry (guard `row != 0` dominates the insert)")
