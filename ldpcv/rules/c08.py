"""C08 - alist round trip (layout agreement writer <-> reader) and parser totality."""
import re

from ..extract import AnalysisError
from ..facts import walk, strip, callee, calls_to
from ..symx import guard_holds, Poly, Unsupported, app, var, num, single_atom, atom_fn, atom_args, contains_atom, cmp_atom, vkey
from ..trace import Tracer
from ..panics import Audit, SM, unwrap_mut

LEVEL = "other"
W = "sparse::SparseMatrix::write_alist_maybe_padding"
R = "sparse::SparseMatrix::from_alist"


def fmt_of(ev):
    a = ev.args[1] if len(ev.args) > 1 else None
    if isinstance(a, tuple) and a and a[0] == "fmt":
        return a[1], a[2]
    return None, None


def unwrap_sites(body):
    return [c for c in walk(body.value) if c.get("k") in ("mcall", "call") and re.search(r"::(unwrap|expect)$", callee(c) or "")]


def selftest(C):
    """Canary for P1 no-unwrap (expected count zero): the scan finds both sites of the positive example."""
    n = len(unwrap_sites(C.body("zero::unwraps")))
    if n != 2:
        raise AnalysisError("C08 canary: unwrap/expect scan found %d of 2 sites" % n)


def run(ck, F, tier):
    ck.explanation = (
        "Decided (S): P1 parser totality - every panic-capable construct (MIR asserts, panicking library calls, indexing "
        "contracts of SparseMatrix) reachable from SparseMatrix::from_alist is discharged by a dominating guard on the "
        "symbolic path condition or by a reviewed argument; P2 the same for the writer (write_alist_maybe_padding, alist, "
        "alist_no_padding); P3 writer/reader layout agreement: header order (columns, rows), 4 lines before the index lists "
        "on both sides, column lists first, 1-based <-> minus one, sorted output; P4 padded form: a single 0 for an empty line "
        "and ' 0' padding only under use_padding, which the reader skips. NOT decided: from_alist(alist(h)) == h and the exact "
        "text for all matrices (all-input equality of values); P3/P4 are its structural necessary conditions.")
    ck.rule("P1", "from_alist: no reachable panic site is left undischarged (total parser)")
    ck.rule("P2", "alist writers: no reachable panic site is left undischarged (includes the all-zero matrix)")
    ck.rule("P3", "layout written == layout read (header order, line count before the lists, section order, index base, sorting)")
    ck.rule("P4", "padding tokens are `0`, written only when use_padding, and skipped by the reader")
    ck.assume("declared dimensions are moderate (allocation of nrows+ncols empty vectors succeeds)")
    ck.assume("library model: which std/ndarray functions can panic (ldpcv/panics.py PANICKY); other library calls are taken as non-panicking")

    # ---- P1 -------------------------------------------------------------------------
    a1 = Audit(ck, F, "P1", R, ["alist"], reviewed={}).run()
    ck.floor("P1", "sites in from_alist", len(a1.tracer.sites), 3)
    rb = F.body(R)
    unw = unwrap_sites(rb)
    ck.inst("P1", "from_alist:no-unwrap", not unw, unw[0]["sp"] if unw else rb.span,
            "parse/next results are propagated with ok_or_else/map_err + `?` (no unwrap/expect)" if not unw else "unwrap/expect on user-controlled input")

    # ---- P2 -------------------------------------------------------------------------
    a2 = Audit(ck, F, "P2", W, ["self", "w", "use_padding"], reviewed={}).run()
    ck.floor("P2", "sites in the writer", len(a2.tracer.sites), 3)
    for fn in ("alist", "alist_no_padding"):
        Audit(ck, F, "P2", SM + fn, ["self"], no_inline=W + "|" + SM + "(num_rows|num_cols|iter_all)",
              reviewed={"call:unwrap": (1, "fmt::Write for String never returns Err, so write_alist*() into a String cannot fail")}).run()

    # ---- P3 / P4: writer -----------------------------------------------------------------
    from ..idioms import zip_components, as_closure
    from ..symx import unkey
    wb = F.body(W)
    tw = Tracer(F, r"std::fmt::Write::write_fmt|core::slice::<impl \[T\]>::sort_unstable(_by)?|core::slice::<impl \[T\]>::sort", mode="int",
                inline=lambda p_: F.private_helper(p_, "sparse::"))      # private helpers of the module (e.g. a max-weight function) are expanded
    env = {}
    for p, nm in zip(wb.params, ("self", "w", "use_padding")):
        tw.bind(p, var(nm), env)
    try:
        tw.eval(wb.value, env)
    except Unsupported as e:
        raise AnalysisError("alist writer: unreadable shape: %s" % e)
    writes = [e for e in tw.events if e.callee.endswith("write_fmt")]
    sorts = [e for e in tw.events if "sort" in e.callee]
    ck.floor("P3", "write! sites in the writer", len(writes), 9)
    DIRS = ("array", [var("self.cols"), var("self.rows")])
    SELF = var("self")
    t0, a0 = fmt_of(writes[0])
    ok_hdr = t0 == "{} {}\n" and a0 == [app(SM + "num_cols", SELF), app(SM + "num_rows", SELF)] and not writes[0].loops
    ck.inst("P3", "writer:header", ok_hdr, writes[0].site, "first line is written as %r with (%s)" % (t0, ", ".join(repr(x) for x in (a0 or []))))
    # loops over the directions array
    dir_loops = set()
    for e in writes:
        for l in e.loops:
            if l[0] == "iter" and "self.cols" in repr(l[2]) and "self.rows" in repr(l[2]):
                dir_loops.add(repr(l[2]))
    order_ok = all(r.index("self.cols") < r.index("self.rows") for r in dir_loops) and bool(dir_loops)
    ck.inst("P3", "writer:section-order", order_ok, wb.span, "both per-direction loops iterate [cols, rows] in that order (column lists first)")
    # line accounting
    def depth(e):
        return len(e.loops)
    nl_top = [e for e in writes if (fmt_of(e)[0] or "").endswith("\n") and depth(e) == 0]
    nl_dir = [e for e in writes if (fmt_of(e)[0] or "").endswith("\n") and depth(e) == 1]
    nl_el = [e for e in writes if (fmt_of(e)[0] or "").endswith("\n") and depth(e) == 2]
    lines_before = len(nl_top) + 2 * len(nl_dir)
    ck.inst("P3", "writer:lines-before-lists", len(nl_top) == 2 and len(nl_dir) == 1 and len(nl_el) == 1 and not nl_el[0].guards, wb.span,
            "writer emits %d top-level lines + %d per direction (x2) = %d lines before the lists, then one line per row/column" % (
                len(nl_top), len(nl_dir), lines_before), {"lines_before": lines_before})
    # element writes: x + 1, sorted
    el_writes = [e for e in writes if depth(e) >= 3 and (fmt_of(e)[0] or "") in ("{}", " {}")]
    plus1 = []
    for e in el_writes:
        t, a = fmt_of(e)
        v = a[0]
        if t == " {}" and isinstance(v, Poly):
            plus1.append((v - num(1)).const_value() is None and single_atom(v - num(1)) is not None)
    ck.inst("P3", "writer:one-based", bool(plus1) and all(plus1), el_writes[0].site if el_writes else wb.span,
            "index tokens are written as stored index + 1")
    # the first token comes from the same mapped iterator (closure |x| x + 1): check the closure itself
    cl = [c for c in walk(wb.value) if c.get("k") == "closure" and c["body"].get("k") == "bin" and c["body"].get("op") == "Add"]
    ck.inst("P3", "writer:one-based-map", len(cl) == 1 and strip(cl[0]["body"]["r"]).get("v") == 1, cl[0]["sp"] if cl else wb.span,
            "the per-line iterator maps x -> x + 1 (first and following tokens alike)")
    sorted_ok = len(sorts) == 1 and len(sorts[0].loops) == 2 and writes.index(el_writes[0]) > tw.events.index(sorts[0]) - len([x for x in tw.events[:tw.events.index(sorts[0])] if not x.callee.endswith("write_fmt")]) if el_writes and sorts else False
    # the sort runs for every list, or is skipped only for a list found already sorted (all adjacent pairs in order)
    def only_skips_sorted(gs):
        for g_, p_ in gs:
            ga_ = single_atom(g_) if isinstance(g_, Poly) else None
            if ga_ is None or atom_fn(ga_) != "std::iter::Iterator::all" or p_ is not False:
                return False
            d_ = unkey(ga_[2])
            d_ = d_[1] if isinstance(d_, tuple) and d_ and d_[0] == "iterdesc" else d_
            if not (isinstance(d_, tuple) and d_[0] == "windows" and d_[2] in (num(2), ("P", num(2)))):
                return False
            try:
                pv_ = tw.apply(as_closure(F, tw, ga_[3]), [var("w#g")])
            except Unsupported:
                return False
            pa_ = single_atom(pv_) if isinstance(pv_, Poly) else None
            if pa_ is None or atom_fn(pa_) not in ("le", "lt") or list(atom_args(pa_)) != [app("index", var("w#g"), num(0)), app("index", var("w#g"), num(1))]:
                return False
        return True
    ck.inst("P3", "writer:sorted", len(sorts) == 1 and len(sorts[0].loops) == 2 and only_skips_sorted(sorts[0].guards), sorts[0].site if sorts else wb.span,
            "each index list is sorted (sort_unstable on the per-line copy) before it is formatted; the sort may be skipped only for a list whose adjacent pairs are all in order")
    # the maximum-weight line: max over all column lists, then max over all row lists (0 for a matrix without columns / rows)
    from ..idioms import zip_components, as_closure
    from ..symx import unkey
    VLEN = "std::vec::Vec::<T, A>::len"

    def max_len_of(v):
        """v == D.iter().map(|el| el.len()).max().unwrap_or(0) -> D, else None"""
        a = single_atom(v) if isinstance(v, Poly) else None
        if a is None or atom_fn(a) != "std::option::Option::<T>::unwrap_or" or atom_args(a)[1] != num(0):
            return None
        m = single_atom(atom_args(a)[0]) if isinstance(atom_args(a)[0], Poly) else None
        if m is None or atom_fn(m) != "std::iter::Iterator::max" or not (isinstance(m[2], tuple) and m[2][0] == "iterdesc"):
            return None
        d = unkey(m[2])[1]
        if d[0] != "map" or d[1][0] != "elems":
            return None
        try:
            fv = tw.apply(as_closure(F, tw, d[2]), [var("el#g")])
        except Unsupported:
            return None
        if fv != app(VLEN, var("el#g")):
            return None
        D = d[1][1]
        return D[1] if isinstance(D, tuple) and len(D) == 2 and D[0] == "P" else D
    t1, a1 = fmt_of(writes[1]) if len(writes) > 1 else (None, None)
    mw_ok = False
    why_mw = "second line %r with %r" % (t1, a1)
    if t1 == "{} {}\n" and a1 and len(a1) == 2 and not writes[1].loops:
        direct = [max_len_of(x) for x in a1]
        if direct == [var("self.cols"), var("self.rows")]:
            mw_ok = True
            why_mw = "second line = max column-list length, max row-list length (computed directly)"
        else:
            # through an array filled in a loop that walks [cols, rows] and the array in lockstep
            stores = [e for e in tw.events if e.callee == "<assign>" and e.loops and e.seq < writes[1].seq]
            if len(stores) == 1 and len(stores[0].loops) == 1 and stores[0].loops[0][0] == "iter":
                comps = zip_components(stores[0].loops[0][2])
                D = max_len_of(stores[0].args[1])
                idx = [single_atom(x) for x in a1]
                if comps is not None and len(comps) == 2 and comps[0] == DIRS and D is not None and "elem(" in repr(D) and repr(DIRS[1][0]) in repr(D) \
                        and all(i is not None and atom_fn(i) == "index" and "mutated(" in repr(atom_args(i)[0]) for i in idx) \
                        and [atom_args(i)[1] for i in idx] == [num(0), num(1)] and not stores[0].guards:
                    mw_ok = True
                    why_mw = "second line = the two entries of an array filled, in lockstep with [cols, rows], with the maximum list length of each direction (0 when empty)"
    ck.inst("P3", "writer:max-weight-line", mw_ok, writes[1].site if len(writes) > 1 else wb.span, why_mw)
    # the weight lines: the length of every list of the direction, in order (first token and following tokens from the same mapped iterator)
    wl_ok = False
    rest = [e for e in writes if depth(e) == 2 and fmt_of(e)[0] == " {}" and e.loops[-1][0] == "iter"]
    firsts = [e for e in writes if depth(e) == 1 and fmt_of(e)[0] == "{}"]
    if len(rest) == 1 and len(firsts) == 1:
        d_ = rest[0].loops[-1][2]
        v_ = fmt_of(rest[0])[1][0]
        if d_[0] == "skip" and d_[2] == num(1) and d_[1][0] == "map" and d_[1][1][0] == "elems" and "elem(" in repr(d_[1][1][1]) and "self.cols" in repr(d_[1][1][1]):
            try:
                fv = tw.apply(as_closure(F, tw, d_[1][2]), [var("el#g")])
            except Unsupported:
                fv = None
            fa = single_atom(fmt_of(firsts[0])[1][0]) if isinstance(fmt_of(firsts[0])[1][0], Poly) else None
            same_iter = False
            if fa is not None and atom_fn(fa) == "payload0":
                na = single_atom(atom_args(fa)[0]) if isinstance(atom_args(fa)[0], Poly) else None
                if na is not None and atom_fn(na) == "std::iter::Iterator::next" and isinstance(na[2], tuple) and na[2][0] == "iterdesc":
                    def sig(d):
                        if isinstance(d, tuple) and d and d[0] == "map" and len(d) == 3:
                            c = d[2]
                            cdef = c[1].get("def") if isinstance(c, tuple) and len(c) > 1 and isinstance(c[1], dict) else (c[1] if isinstance(c, tuple) and len(c) > 1 else None)
                            return ("map", sig(d[1]), str(cdef).split("@")[0])
                        if isinstance(d, tuple) and d and d[0] == "elems":
                            v = d[1]
                            return ("elems", repr(v[1] if isinstance(v, tuple) and len(v) == 2 and v[0] == "P" else v))
                        return repr(d)
                    same_iter = sig(unkey(na[2])[1]) == sig(d_[1])
            wl_ok = fv == app(VLEN, var("el#g")) and same_iter and not rest[0].guards
    ck.inst("P3", "writer:weight-lines", wl_ok, rest[0].site if rest else wb.span,
            "each weight line lists len(list) for every list of its direction, in storage order")
    # P4
    pads = [e for e in writes if fmt_of(e)[0] in ("0", " 0")]
    pad_ok = len(pads) == 2 and all(any(g == var("use_padding") and p for g, p in e.guards) for e in pads)
    zero = [e for e in pads if fmt_of(e)[0] == "0"]
    zero_ok = len(zero) == 1 and any("eq(0" in repr(g) and "len" in repr(g) and p for g, p in zero[0].guards)
    ck.inst("P4", "writer:padding-guarded", pad_ok and zero_ok, pads[0].site if pads else wb.span,
            "`0` is written only for an empty list and ` 0` only as padding, both only when use_padding")
    # how many padding tokens: (maximum weight of the direction) - (length of this list), never more (saturating or plain subtraction)
    padn = [e for e in pads if fmt_of(e)[0] == " 0"]
    cnt_ok = False
    whyc = "padding loop not found"
    if len(padn) == 1 and padn[0].loops and padn[0].loops[-1][0] == "range":
        lp = padn[0].loops[-1]
        hi = lp[3]
        ha = single_atom(hi) if isinstance(hi, Poly) else None
        if ha is not None and atom_fn(ha) == "saturating_sub":
            dl, vl = atom_args(ha)
        elif isinstance(hi, Poly):
            pos = [m for m, c in hi.t.items() if c == 1]
            neg = [m for m, c in hi.t.items() if c == -1]
            dl = Poly.atom(pos[0][0][0]) if len(pos) == 1 and len(neg) == 1 and len(hi.t) == 2 and len(pos[0]) == 1 else None
            vl = Poly.atom(neg[0][0][0]) if dl is not None and len(neg[0]) == 1 else None
        else:
            dl = vl = None
        # dl: the entry of the maximum-weight array walked in lockstep with the directions; vl: the length of the list being written
        comps_ = zip_components(padn[0].loops[0][2]) if len(padn[0].loops) == 3 else None
        dl_ok = False
        if dl is not None and comps_ is not None and len(comps_) == 2 and comps_[0] == DIRS:
            LENS = comps_[1]
            da_ = single_atom(dl)
            is_elem = False
            if da_ is not None and atom_fn(da_) == "elem":
                src_ = unkey(da_[2])
                if isinstance(src_, tuple) and src_ and src_[0] == "iterdesc":
                    src_ = src_[1]
                if isinstance(src_, tuple) and len(src_) == 2 and src_[0] == "elems":
                    x_ = src_[1]
                    x_ = unkey(x_) if not isinstance(x_, Poly) else x_
                    is_elem = vkey(x_) == vkey(LENS)
            if isinstance(LENS, tuple) and LENS and LENS[0] == "array":
                lens_ok = [max_len_of(x) for x in LENS[1]] == [var("self.cols"), var("self.rows")]
            else:
                lens_ok = "mutated(" in repr(LENS) and mw_ok      # the array verified by writer:max-weight-line
            dl_ok = bool(is_elem) and lens_ok
        # an empty list has already produced one `0` token (P4 padding-guarded), so it counts as one token: max(len, 1)
        va_ = single_atom(vl) if isinstance(vl, Poly) else None
        vl_ok = False
        if va_ is not None and atom_fn(va_) == "max":
            xs = list(atom_args(va_))
            # the list whose tokens this line consists of: the source of the token loop
            tok_src = None
            tl_ = [e for e in el_writes if fmt_of(e)[0] == " {}" and e.loops[-1][0] == "iter"]
            if len(tl_) == 1:
                d2 = tl_[0].loops[-1][2]
                if d2[0] == "skip" and d2[1][0] == "map" and d2[1][1][0] == "elems":
                    tok_src = d2[1][1][1]
                    tok_src = tok_src[1] if isinstance(tok_src, tuple) and len(tok_src) == 2 and tok_src[0] == "P" else tok_src
            lens = [x for x in xs if isinstance(x, Poly) and single_atom(x) is not None and atom_fn(single_atom(x)).endswith("::len")
                    and tok_src is not None and atom_args(single_atom(x))[0] == tok_src]
            vl_ok = len(lens) == 1 and num(1) in xs
        cnt_ok = lp[2] == num(0) and not lp[4] and dl_ok and vl_ok
        whyc = "` 0` is written %r..%r times" % (lp[2], hi)
    ck.inst("P4", "writer:padding-count", cnt_ok or mw_ok is False, padn[0].site if padn else wb.span,
            "a line is padded up to the maximum weight of its direction: (maximum - max(length, 1)) further zeros, the empty list having written one already: %s" % whyc[:300])
    others = [fmt_of(e)[0] for e in writes if fmt_of(e)[0] not in ("{} {}\n", "{}", " {}", "\n", "0", " 0")]
    ck.inst("P4", "writer:token-set", not others, wb.span, "the writer emits only numbers, single spaces, newlines and `0` padding" if not others else "unexpected output %r" % others)

    # ---- P3 / P4: reader -------------------------------------------------------------------
    # private helpers of module `sparse` are expanded, so that extracting part of the parser into a helper is transparent
    PUBLIC = re.compile(r"sparse::SparseMatrix::(new|insert|remove|toggle|contains|num_rows|num_cols|row_weight|col_weight|iter_row|iter_col|iter_all|"
                        r"clear_row|clear_col|set_row|set_col|insert_row|insert_col|from_alist|alist|alist_no_padding|write_alist\w*)")
    tr = Tracer(F, r"std::iter::Iterator::next|sparse::SparseMatrix::(new|insert)", mode="int",
                inline=lambda p: F.bodies.get(p) if p and p.startswith("sparse::") and not PUBLIC.fullmatch(p) else None)
    env = {}
    tr.bind(rb.params[0], var("alist"), env)
    try:
        tr.eval(rb.value, env)
    except Unsupported as e:
        raise AnalysisError("from_alist: unreadable shape: %s" % e)
    nexts = [e for e in tr.events if e.callee.endswith("::next")]
    is_line_it = lambda e: "split(" in repr(e.args[0]) and "split_whitespace" not in repr(e.args[0])
    line_next_top = [e for e in nexts if is_line_it(e) and not e.loops]
    line_next_loop = [e for e in nexts if is_line_it(e) and len(e.loops) == 1]
    tok_next_top = [e for e in nexts if not is_line_it(e) and not e.loops]
    news = [e for e in tr.events if e.callee.endswith("::new")]
    ins = [e for e in tr.events if e.callee.endswith("::insert")]
    ck.inst("P3", "reader:lines-before-lists", len(line_next_top) == 4 and len(line_next_loop) == 1, rb.span,
            "reader consumes %d lines before the column loop (1 parsed + %d skipped) and %d per column; writer emits %d before the lists" % (
                len(line_next_top), len(line_next_top) - 1, len(line_next_loop), lines_before),
            {"reader_lines": len(line_next_top), "writer_lines": lines_before})
    # every column line and every token is read: the reading loops are left only by `?` (an error), never by break / return Ok
    brk = [e for e in tr.events if e.callee == "<break>" and e.loops]
    early_ok = [e for e in tr.events if e.callee == "<return>" and e.loops and isinstance(e.args[0], tuple) and e.args[0][:2] == ("ctor", "Ok")]
    ck.inst("P3", "reader:no-early-exit", not brk and not early_ok, (brk or early_ok)[0].site if (brk or early_ok) else rb.span,
            "the column loop and the token loop run to the end of their input (%d break, %d early Ok return inside them)" % (len(brk), len(early_ok)))
    ck.inst("P3", "agree:line-count", len(line_next_top) == lines_before, rb.span, "lines before lists: reader %d == writer %d" % (len(line_next_top), lines_before))
    hdr_ok = False
    why = "header tokens / SparseMatrix::new not found"
    if len(tok_next_top) == 2 and len(news) == 1:
        tok = [app("std::iter::Iterator::next", e.args[0]) for e in tok_next_top]
        k1, k2 = (single_atom(t) for t in tok)
        nrows_v, ncols_v = news[0].args
        first_in_cols = contains_atom(ncols_v, lambda a: a == k1) and not contains_atom(ncols_v, lambda a: a == k2)
        second_in_rows = contains_atom(nrows_v, lambda a: a == k2)
        hdr_ok = first_in_cols and second_in_rows and ok_hdr
        why = "reader: first header token -> number of columns (%s), second -> number of rows (%s), passed as new(rows, cols); writer: (num_cols, num_rows)" % (first_in_cols, second_in_rows)
    ck.inst("P3", "agree:header-order", hdr_ok, news[0].site if news else rb.span, why)
    ins_ok = False
    why = "expected exactly one insert site in from_alist"
    if len(ins) == 1 and news:
        e = ins[0]
        colv = e.args[2]
        rowv = e.args[1]
        lp = e.loops[0] if e.loops else None
        col_is_loop = lp is not None and lp[0] == "range" and colv == var(lp[1]) and lp[2] == num(0) and lp[3] == news[0].args[1] and not lp[4]
        tokv = rowv + num(1)
        minus1 = single_atom(tokv) is not None and guard_holds(e.guards, cmp_atom("ne", tokv, num(0)))
        ins_ok = col_is_loop and minus1 and order_ok
        why = ("reader: for col in 0..ncols, every non-zero token t of the line inserts (t - 1, col) [loop over columns: %s, "
               "`t != 0` guard and minus one: %s]; writer: column lists first, tokens = index + 1, 0 = padding" % (col_is_loop, minus1))
    ck.inst("P3", "agree:sections-and-base", ins_ok, ins[0].site if ins else rb.span, why)
    ck.inst("P4", "reader:skips-padding", ins_ok, ins[0].site if ins else rb.span, "token 0 is never turned into an entry (guard `row != 0` dominates the insert)")

    # P5: the writer prints the column lists and the row lists of the same matrix and the reader rebuilds it from the column lists
    # alone: the text describes one matrix only if the mutators keep the two sets of lists in step (the rule C17-X1, run here)
    ck.rule("P5", "the row lists and the column lists the text is written from describe the same matrix for everything the mutators can build (the rule C17-X1, run here)")
    from ..report import RuleAlias
    from . import c17
    c17.run(RuleAlias(ck, "P5", only=lambda r_, k_: r_ == "X1"), F, "quick")
