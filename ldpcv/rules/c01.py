"""C01 - a decoder never reports success on a non-codeword: structure of the verdict / word / count relation.

Obligation style: every Ok(..)/Err(..) exit of the two generic `decode` bodies is an obligation on the
relation between the syndrome test that guards it, the word it returns and the iteration count.
"""
import re

from ..extract import AnalysisError
from ..facts import walk, strip, callee
from ..symx import SymEval, Poly, Unsupported, app, var, num, single_atom, atom_fn, atom_args, vkey
from ..panics import SiteTracer
from ..trace import Tracer

LEVEL = "proof"
SCHEDULES = {
    "flooding": ("decoder::flooding::Decoder::<A>::", "self.output_llrs", "self.input_llrs"),
    "horizontal_layered": ("decoder::horizontal_layered::Decoder::<A>::", "self.llrs", "self.llrs"),
}
ARITH = "decoder::arithmetic::DecoderArithmetic::"


def hd_of(F, clo):
    """symbolic hard-decision function of a closure value: result of applying it to x"""
    # local helper functions (a named `fn nonpos(x)` instead of a closure) are expanded; trait hooks stay symbolic
    ev = SymEval(F, mode="real", inline=lambda p: F.bodies.get(p) if p and p.startswith("decoder::") and "DecoderArithmetic" not in p else None)
    try:
        return ev.apply(clo, [var("x")])
    except Unsupported as e:
        raise AnalysisError("hard-decision closure unreadable: %s" % e)


from ..decmodel import phase_methods  # noqa: E402


def trace_decode(F, prefix):
    b = F.body(prefix + "decode")
    phases = phase_methods(F, prefix)
    rx = r"decoder::check_llrs|decoder::hard_decisions|decoder::arithmetic::.*|" + "|".join(re.escape(p) for p in phases)
    t = SiteTracer(F, contracts=rx, no_inline=rx)
    t.phases = [p.rsplit("::", 1)[-1] for p in phases]
    env = {}
    for p, nm in zip(b.params, ("self", "llrs", "max_iterations")):
        t.bind(p, var(nm), env)
    t.fn_stack.append(b.path)
    try:
        ret = t.eval(b.value, env)
    except Unsupported as e:
        raise AnalysisError("%sdecode: unreadable shape: %s" % (prefix, e))
    return b, t, ret


def out_fields(v):
    """Ok/Err(DecoderOutput{codeword, iterations}) -> (tag, codeword, iterations)"""
    if isinstance(v, tuple) and v and v[0] == "ctor" and v[1] in ("Ok", "Err") and len(v[2]) == 1:
        s = v[2][0]
        if isinstance(s, tuple) and len(s) == 2 and s[0] == "P":
            s = s[1]
        if isinstance(s, tuple) and s[0] == "struct" and s[1] == "DecoderOutput":
            f = s[2]
            if not isinstance(f, dict):
                # the key form stored inside match arms: (("field", value-key), ..)
                f = {k: (x[1] if isinstance(x, tuple) and len(x) == 2 and x[0] == "P" else x) for k, x in f}
            return v[1], f.get("codeword"), f.get("iterations")
    return None


def forwarding_rule(ck, F, rule):
    """the LdpcDecoder impls are pure forwarding (same receiver, same LLR slice, same iteration limit)"""
    from ..symx import SymEval as _SE
    n7 = 0
    for path_ in sorted(k for k in F.bodies if k.endswith(" as decoder::LdpcDecoder>::decode")):
        bw = F.body(path_)
        ev_ = _SE(F)
        envw = {}
        for p_, nm_ in zip(bw.params, ("self", "llrs", "max_iterations")):
            ev_.bind(p_, var(nm_), envw)
        try:
            vw = ev_.eval(bw.value, envw)
        except Unsupported as e:
            raise AnalysisError("%s: unreadable shape: %s" % (path_, e))
        sched = path_.split("decoder::")[1].split("::")[0]
        want = app("decoder::%s::Decoder::<A>::decode" % sched, var("self"), var("llrs"), var("max_iterations"))
        n7 += 1
        ck.inst(rule, "forwarding:" + sched, vw == want, bw.span, "LdpcDecoder::decode = %r ; required %r" % (vw, want))
    ck.floor(rule, "LdpcDecoder impls", n7, 2)


def run(ck, F, tier):
    ck.explanation = (
        "Decided (S), for both generic schedules (hence all 36 factory decoders, see C18): R1 every Ok exit is guarded by a "
        "successful check_llrs(h, P, hd) and returns hard_decisions(P, hd') with the same buffer P, an equivalent hard-decision "
        "function and no intervening call that can modify P; the Err exit returns hard_decisions of the buffer and function the "
        "in-loop test uses; R2 iteration accounting: 0 on the shortcut, the induction variable of 1..=max_iterations in the loop, "
        "max_iterations on failure, exactly one syndrome test per iteration after the node processing, the loop has no other exit; "
        "R3 the shortcut tests the raw LLRs with 'non-positive means 1' before initialisation and returns that sign pattern; "
        "R4 check_llrs evaluates every row's parity of the hard decisions over iter_row, hard_decisions is an order- and "
        "length-preserving map; R5 lengths are asserted equal to the buffers, which new() sizes with num_cols. Given that hd is a pure "
        "function of the stored value (llr_hard_decision / var_llr_to_llr take &self in all 24 impls) these imply the success and "
        "failure clauses. NOT decided: that node processing returns (no panic) for row weight >= 2 and |LLR| <= 1e30 "
        "(value-dependent expect/unwrap sites).")
    ck.rule("R1", "check/return coherence on every exit")
    ck.rule("R2", "iteration accounting and loop shape")
    ck.rule("R3", "zero-iteration shortcut")
    ck.rule("R4", "parity evaluation in check_llrs; hard_decisions is a positional map")
    ck.rule("R5", "length discipline")
    ck.rule("R8", "the parity checks are evaluated over the matrix as a *set* of ones: every mutator of SparseMatrix keeps rows and columns duplicate-free and mutually consistent (the rule C17-X1, run here; a duplicated entry is counted twice by check_llrs and cancels)")
    ck.rule("R7", "the trait objects the factory hands out run the analysed decode: LdpcDecoder::decode of both schedules forwards (self, llrs, max_iterations) unchanged to the inherent decode")
    ck.rule("R6", "hard-decision hooks of all arithmetics take &self (pure functions of the stored value)")
    ck.trust("rustc HIR of the two generic decode bodies; Iterator::any/filter/count/map/collect semantics")

    for sched, (prefix, outbuf, lenbuf) in SCHEDULES.items():
        b, t, ret = trace_decode(F, prefix)
        from ..decmodel import in_closure
        t.sites = [s for s in t.sites if not in_closure(s)]
        calls = [s for s in t.sites if s["kind"] == "contract" and not s["detail"].startswith("decoder::arithmetic::")]
        names = [s["detail"].rsplit("::", 1)[-1] for s in calls]
        rets = [e for e in t.events if e.callee == "<return>"]
        H = var("self.h")
        OUT = var(outbuf)
        checks = [s for s in calls if s["detail"] == "decoder::check_llrs"]
        hds = [s for s in calls if s["detail"] == "decoder::hard_decisions"]
        ck.floor("R1", "%s: check_llrs / hard_decisions call sites" % sched, len(checks) + len(hds), 4)

        def guard_check(guards):
            """the check_llrs(..) whose *true* outcome is the innermost guard"""
            for g, pol in reversed(guards):
                a = single_atom(g) if isinstance(g, Poly) else None
                if a and atom_fn(a) == "decoder::check_llrs":
                    return a, pol
            return None, None

        # --- exits ---------------------------------------------------------------------
        exits = [(e.args[0], e.guards, e.loops, e.site, None) for e in rets]
        # the value after the loop; `match (1..=max).find(|_| step-and-test) { Some(i) => Ok(..i..), None => Err(..) }` is the same
        # loop written as a search: its Some arm is the exit taken in the iteration where the predicate first held
        fa = single_atom(ret) if isinstance(ret, Poly) else None
        srch = None
        if fa and atom_fn(fa) == "match":
            srch = getattr(t, "searches", {}).get(repr(vkey(atom_args(fa)[0])))
        if srch is not None and srch["kind"] == "find" and srch["loop"][0] == "range":
            unp = lambda k: k[1] if isinstance(k, tuple) and len(k) == 2 and k[0] == "P" else k
            for key_, val_ in atom_args(fa)[1]:
                if key_.startswith("('Some'"):
                    exits.append((unp(val_), list(t.guards) + [(srch["pred"], True)], [srch["loop"]], b.span, srch))
                else:
                    exits.append((unp(val_), list(t.guards), [], b.span, None))
        else:
            exits.append((ret, [g for g in t.guards], [], b.span, None))
        seen_tags = []
        for val, guards, loops, site, from_search in exits:
            of = out_fields(val)
            if of is None:
                ck.fail("R1", "%s:exit-shape" % sched, site, "exit value is not Ok/Err(DecoderOutput{..}): %r" % (val,))
                continue
            tag, cw, its = of
            where = "loop" if loops else ("shortcut" if tag == "Ok" else "final")
            seen_tags.append((tag, where))
            key = "%s:%s:%s" % (sched, tag, where)
            cwa = single_atom(cw) if isinstance(cw, Poly) else None
            if not (cwa and atom_fn(cwa) == "decoder::hard_decisions"):
                ck.fail("R1", key + ":word", site, "codeword is not hard_decisions(..): %r" % (cw,))
                continue
            buf, hdk = atom_args(cwa)
            # the matching hard_decisions *site* carries the real closure value
            hsite = [s for s in hds if repr(vkey(s["vals"][1])) == repr(hdk) and s["vals"][0] == buf]
            hd_ret = hd_of(F, hsite[0]["vals"][1]) if hsite else None
            if tag == "Ok":
                ga, pol = guard_check([g for g in guards if True])
                ok = ga is not None and pol is True
                why = "no successful syndrome test guards this exit"
                if ok:
                    gh, gbuf, ghdk = atom_args(ga)
                    csite = [s for s in checks if repr(vkey(s["vals"][2])) == repr(ghdk) and s["vals"][1] == gbuf]
                    hd_chk = hd_of(F, csite[0]["vals"][2]) if csite else None
                    same_buf = gbuf == buf
                    same_hd = hd_chk is not None and hd_ret is not None and repr(vkey(hd_chk)) == repr(vkey(hd_ret))
                    on_h = gh == H
                    # nothing may run between the test and the hard decision
                    ci = t.sites.index(csite[-1]) if csite else -1
                    hi = t.sites.index(hsite[0]) if hsite else -1
                    between = [s for s in t.sites[ci + 1:hi] if s["kind"] in ("contract",)] if 0 <= ci < hi else ["?"]
                    ok = same_buf and same_hd and on_h and not between
                    why = ("guarded by check_llrs(%r, %r, hd) == true; returns hard_decisions(%r, hd'); same buffer: %s, equivalent hd (%r vs %r): %s, "
                           "matrix is self.h: %s, calls between test and word: %d" % (gh, gbuf, buf, same_buf, hd_chk, hd_ret, same_hd, on_h, len(between)))
                ck.inst("R1", key + ":coherence", ok, site, why, {"exit": key})
                if where == "shortcut":
                    ck.inst("R2", key + ":count", its == num(0), site, "iterations = %r (required literal 0)" % (its,))
                    raw = buf == var("llrs")
                    nonpos = hd_ret is not None and hd_ret in (app("le", var("x"), num(0)), app("not", app("lt", num(0), var("x"))))
                    muts = [i for i, nm in enumerate(names) if nm in t.phases]
                    first = calls and calls[0]["detail"] == "decoder::check_llrs" and muts and muts[0] > names.index("hard_decisions")
                    ck.inst("R3", key + ":raw-llrs", raw and nonpos and bool(first), site,
                            "shortcut tests/returns the caller's llrs (%s) with hd(x) = %r (non-positive means 1: %s) before any state-changing step (%s)" % (raw, hd_ret, nonpos, bool(first)))
                else:
                    lp = loops[-1] if loops else None
                    counter = its == var(lp[1]) if lp is not None else False
                    if from_search is not None:
                        counter = its == app("payload0", from_search["value"])     # the element found by the search is the iteration number
                    okc = lp is not None and lp[0] == "range" and counter and lp[2] == num(1) and lp[3] == var("max_iterations") and lp[4] is True
                    ck.inst("R2", key + ":count", okc, site, "iterations = %r, loop %r..%s%r (required the induction variable of 1..=max_iterations)" % (
                        its, lp[2] if lp else None, "=" if lp and lp[4] else "", lp[3] if lp else None))
                    ck.inst("R1", key + ":buffer", buf == OUT, site, "success word is taken from %r (decoder output buffer %s)" % (buf, outbuf))
            else:
                # Err exit: same buffer and hd as the in-loop test
                loop_checks = [s for s in checks if s["loops"]]
                ok = False
                why = "no in-loop syndrome test found"
                if len(loop_checks) == 1:
                    lc = loop_checks[0]
                    hd_chk = hd_of(F, lc["vals"][2])
                    same_buf = lc["vals"][1] == buf
                    same_hd = hd_ret is not None and repr(vkey(hd_chk)) == repr(vkey(hd_ret))
                    after = [s for s in t.sites[t.sites.index(lc) + 1:] if s["kind"] == "contract" and s["detail"] != "decoder::hard_decisions" and s["loops"]]
                    ok = same_buf and same_hd and not after and not loops
                    why = "failure word = hard_decisions(%r, hd'); in-loop test uses %r: same buffer %s, equivalent hd %s, nothing after the test inside the loop body: %s" % (
                        buf, lc["vals"][1], same_buf, same_hd, not after)
                ck.inst("R1", key + ":coherence", ok, site, why, {"exit": key})
                ck.inst("R2", key + ":count", its == var("max_iterations"), site, "iterations = %r (required max_iterations)" % (its,))
        ck.inst("R2", "%s:exit-set" % sched, sorted(seen_tags) == [("Err", "final"), ("Ok", "loop"), ("Ok", "shortcut")], b.span,
                "exits found: %s (required: Ok shortcut, Ok in loop, Err after the loop)" % sorted(seen_tags))
        # --- loop shape ---------------------------------------------------------------------
        in_loop = [s["detail"].rsplit("::", 1)[-1] for s in calls if s["loops"]]
        nph = 0
        while nph < len(in_loop) and in_loop[nph] in t.phases:
            nph += 1
        # (the success word may be computed inside the loop or once after it)
        shape_ok = nph >= 1 and in_loop[nph:] in (["check_llrs", "hard_decisions"], ["check_llrs"])
        # the loop may not be left early (break), and an iteration may only be cut short (continue) after its syndrome test failed
        brk = [e for e in t.events if e.callee == "<break>" and e.loops]
        cont_bad = []
        for e in t.events:
            if e.callee == "<continue>" and e.loops:
                ga, pol = guard_check(e.guards)
                if ga is None or pol is not False:
                    cont_bad.append(e)
        ck.inst("R2", "%s:loop-body" % sched, shape_ok and not brk and not cont_bad, b.span,
                "per iteration: %s; break: %d, continue before the syndrome test: %d (required: the state-changing steps, then one check_llrs, then hard_decisions on success; no other way out)" % (
                    in_loop, len(brk), len(cont_bad)))
        pre = [n for n, s in zip(names, calls) if not s["loops"]]
        ck.inst("R2", "%s:prologue" % sched, pre[:2] == ["check_llrs", "hard_decisions"] and len(pre) > 2 and pre[2] in t.phases, b.span,
                "before the loop: %s" % pre[:4])
        # --- R5 -----------------------------------------------------------------------------
        asserts = [s for s in t.sites if s["kind"] == "assert"]
        LEN = "core::slice::<impl [T]>::len"
        want_a = app("eq", app(LEN, var("llrs")), app(LEN, var(lenbuf)))
        want_b = app("eq", app(LEN, var(lenbuf)), app(LEN, var("llrs")))
        oka = bool(asserts) and asserts[0]["vals"][0] in (want_a, want_b) and t.sites.index(asserts[0]) < t.sites.index(calls[0])
        ck.inst("R5", "%s:length-assert" % sched, oka, asserts[0]["sp"] if asserts else b.span,
                "first action asserts llrs.len() == %s.len(): %r" % (lenbuf, asserts[0]["vals"][0] if asserts else None))
        nb = F.body(prefix + "new")
        tn = Tracer(F, "NONE", mode="int")
        envn = {}
        for p, nm in zip(nb.params, ("h", "arithmetic")):
            tn.bind(p, var(nm), envn)
        nv = tn.eval(nb.value, envn)
        okn = False
        if isinstance(nv, tuple) and nv[0] == "struct":
            fld = lenbuf.split(".", 1)[1]
            okn = "std::vec::from_elem" in repr(nv[2].get(fld)) and "sparse::SparseMatrix::num_cols(h)" in repr(nv[2].get(fld)) and nv[2].get("h") == var("h")
            if sched == "flooding":
                okn = okn and "num_cols(h)" in repr(nv[2].get("output_llrs"))
        ck.inst("R5", "%s:buffer-size" % sched, okn, nb.span, "new() sizes the LLR buffer(s) with h.num_cols() and stores h")

    # ---- R4 --------------------------------------------------------------------------------------
    from ..trace import quantifier
    from ..idioms import positional_map
    cb = F.body("decoder::check_llrs")
    tc = Tracer(F, "NONE", mode="int")
    envc = {}
    for p, nm in zip(cb.params, ("h", "llrs", "hard_decision")):
        tc.bind(p, var(nm), envc)
    v = tc.eval(cb.value, envc)
    ok = False
    why = "check_llrs is not a statement about every row r in 0..h.num_rows()"
    q = quantifier(F, v, True, argname="r", tracer=tc) if isinstance(v, Poly) else None
    if q is not None and q[0] == "forall":
        quant, d, pred, ppol = q
        rows_ok = d == ("range", ("P", num(0)), ("P", app("sparse::SparseMatrix::num_rows", var("h"))), False) or \
            d == ("range", num(0), app("sparse::SparseMatrix::num_rows", var("h")), False)
        # predicate: the number of neighbours c of row r with hd(llrs[c]) is even
        odd = False
        pa = single_atom(pred) if isinstance(pred, Poly) else None
        if pa and atom_fn(pa) == "eq":
            x, y = atom_args(pa)
            for m_, c_ in ((x, y), (y, x)):
                ma = single_atom(m_) if isinstance(m_, Poly) else None
                if ma and atom_fn(ma) == "mod" and atom_args(ma)[1] == num(2) and isinstance(c_, Poly) and \
                        ((c_ == num(0) and ppol) or (c_ == num(1) and not ppol)):
                    cnt = single_atom(atom_args(ma)[0])
                    if cnt and atom_fn(cnt) == "std::iter::Iterator::count":
                        dd = cnt[2]
                        IR = app("sparse::SparseMatrix::iter_row", var("h"), var("r"))
                        okd = isinstance(dd, tuple) and dd[0] == "iterdesc" and dd[1][0] == "filter" and dd[1][1] in (("elems", ("P", IR)), ("elems", IR))
                        if okd:
                            fc = dd[1][2]
                            node = F.closures.get(fc[1]) if isinstance(fc, tuple) and fc[0] == "closure" else None
                            if node is not None:
                                cenv = dict(tc.closure_envs.get(fc[1], {}))
                                pv = Tracer(F, "NONE", mode="int").apply(("closure", node, cenv), [var("c")])
                                odd = pv == app("apply", var("hard_decision"), app("index", var("llrs"), var("c")))
        if not odd and pa and atom_fn(pa) == "std::iter::Iterator::fold" and ppol is False:
            # parity as a running XOR: !fold(false, |p, c| p ^ hd(llrs[c])) over iter_row(r)
            IR = app("sparse::SparseMatrix::iter_row", var("h"), var("r"))
            fa_ = atom_args(pa)
            src_ok = fa_[0] == IR or (isinstance(fa_[0], tuple) and fa_[0][0] == "iterdesc" and fa_[0][1] in (("elems", ("P", IR)), ("elems", IR)))
            init_ok = fa_[1] == ("bool", False)
            fc = fa_[2]
            node = F.closures.get(fc[1]) if isinstance(fc, tuple) and fc[0] == "closure" else None
            if src_ok and init_ok and node is not None:
                pv = Tracer(F, "NONE", mode="int").apply(("closure", node, dict(tc.closure_envs.get(fc[1], {}))), [var("p"), var("c")])
                HD = app("apply", var("hard_decision"), app("index", var("llrs"), var("c")))
                odd = pv in (app("bitxor", var("p"), HD), app("bitxor", HD, var("p")))
        ok = rows_ok and odd
        why = "check_llrs = for every r in 0..h.num_rows(): #{c in h.iter_row(r) : hd(llrs[c])} is even  [rows complete: %s, parity of hard decisions over iter_row: %s]" % (
            rows_ok, odd)
    ck.inst("R4", "check_llrs", ok, cb.span, why)
    hb = F.body("decoder::hard_decisions")
    fx = positional_map(F, hb, ("llrs", "hard_decision"), "llrs")
    ok = fx is not None and fx == app("apply", var("hard_decision"), var("x"))
    ck.inst("R4", "hard_decisions", ok, hb.span, "hard_decisions yields hd(llrs[i]) as u8 for every i in order (map+collect or push loop): element function %r" % (fx,))

    # ---- R6 -----------------------------------------------------------------------------------------
    n6 = 0
    for im in F.impls_of("decoder::arithmetic::DecoderArithmetic"):
        for mem in im["members"]:
            if mem["name"] in ("llr_hard_decision", "var_llr_to_llr"):
                bb = F.bodies.get(mem["path"])
                if bb is None:
                    continue
                n6 += 1
                recv = bb.d.get("sig_inputs", ["?"])[0]
                ck.inst("R6", "%s:%s" % (im["self_ty"].rsplit("::", 1)[-1], mem["name"]), recv.startswith("&") and not recv.startswith("&mut"),
                        bb.span, "receiver type %s" % recv)
    ck.floor("R6", "hard-decision hooks", n6, 48)

    forwarding_rule(ck, F, "R7")
    from ..report import RuleAlias
    from . import c17
    c17.run(RuleAlias(ck, "R8", only=lambda r_, k_: r_ == "X1"), F, "quick")
